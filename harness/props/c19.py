"""C19 — population containers index correctly and load each file at most once, on demand."""
import contextlib
import os
import shutil
import tempfile
import time
import warnings

from harness import gen
from harness.framework import Suite

PID = "C19"
LEAN_MODS = ["SwcVerif.Props.C19", "SwcVerif.Props.C19Gen", "SwcVerif.Props.C19Front", "SwcVerif.Props.C19Map", "SwcVerif.Refine.PopFromSwc"]
TRANSLATE_ALGO = ["AlgoPopulation", "AlgoPopFront", "AlgoPopMap"]    # Gen/AlgoPopulation.lean, Gen/AlgoPopFront.lean are regenerated from swcgeom/core/population.py on every run
DRIVER_FILES = ["SwcVerif/Model/AlgoRunPopulation.lean", "SwcVerif/Model/AlgoRunPopFront.lean", "SwcVerif/Model/AlgoRunPopMap.lean"]
THEOREMS = [
    "C19.getIdx_spec", "C19.step_len", "C19.load_at_most_once", "C19.loads_only_on_demand", "C19.log_monotone", "C19.get_returns",
    "C19.iter_returns", "C19.cumsum_spec", "C19.chain_len", "C19.chain_index", "C19.chain_index_neg", "C19.nest_index",
    # refinement: the methods generated from population.py on this run compute what the models compute
    "RefinePop.getIdx_refines", "RefinePop.nest_refines", "RefinePop.bsearch_refines", "RefinePop.load_refines", "RefinePop.getitem_refines",
    "C19.generated_chain_init", "C19.generated_chain_len", "C19.generated_chain_getitem", "C19.genGets_refines", "C19.generated_load_at_most_once",
    # the front end (Gen/AlgoPopFront.lean): Population.__init__ / __getitem__ (int, slice) / __len__, NestTrees over the lazy container
    "RefinePopFront.pop_len_refines", "RefinePopFront.pop_getitem_int_refines", "RefinePopFront.pop_init_refines", "RefinePopFront.nestl_getitem_refines",
    "RefinePopFront.pop_getitem_slice_refines", "C19.generated_pop_getitem", "C19.frontStep_inv", "C19.generated_front_load_at_most_once",
    "C19.slice_indices_eq_spec", "C19.generated_pop_slice", "C19.generated_to_population",
    # Gen/AlgoPopMap.lean: Population.find_swcs, LazyLoadingTrees.__iter__, Population.map
    "RefinePopMap.find_swcs_refines", "RefinePopMap.lazy_iter_refines", "RefinePopMap.pop_map_refines", "C19.generated_find_swcs",
    "C19.generated_find_swcs_order", "C19.frontState_inv", "C19.generated_map_results", "C19.generated_map_load_at_most_once",
    # Populations.from_swc (Gen/AlgoPopFront `pops_from_swc`): constructors on fresh containers, Populations.__init__, the matching for every list of listings
    "RefineFromSwc.lazy_init_eq", "RefineFromSwc.pop_init_fresh", "RefineFromSwc.pops_init_eq", "RefineFromSwc.fs_for5_loop",
    "RefineFromSwc.body_split", "RefineFromSwc.pops_from_swc_tail", "RefineFromSwc.pops_from_swc_plain", "RefineFromSwc.pops_from_swc_check",
    "RefineFromSwc.pops_from_swc_intersect", "RefineFromSwc.pops_from_swc_refines", "RefineFromSwc.mem_interAll", "RefineFromSwc.from_swc_rows",
]
TRUSTED = ["hand-written models Model/Population.lean of _get_idx / LazyLoadingTrees / ChainTrees / NestTrees / Population construction "
           "(tied by the c19.lazy and c19.chain correspondence: returned file and read log compared exactly for every operation script)"]
ASSUMPTIONS = ["os.walk order (file order is whatever find_swcs returns; the suites compare against that list)", "slice.indices (CPython)",
               "ProcessPoolExecutor.map / tqdm's process_map preserve order (observed on process pools in the sandbox, with jobs of unequal duration)",
               "reads are observed by wrapping Tree.from_swc from the harness (reads made inside the worker processes of Population.map are not observed)",
               "a tree file of a directory = a regular file below it whose name ends with the extension asked for (the c19.layout suite writes no other kind of entry)"]


def root_x(t):                      # top-level so that it can be pickled for Population.map
    return float(t.x()[0])


def paced_root_x(t):                # the same measurement with a cost that depends on the tree: the root's y coordinate is a delay in units of 10 ms
    time.sleep(0.01 * float(t.y()[0]))
    return float(t.x()[0])


def write_dir(d, names, marker0=0, ys=None):
    os.makedirs(d, exist_ok=True)
    for k, nm in enumerate(names):
        sub = os.path.dirname(nm)
        if sub:
            os.makedirs(os.path.join(d, sub), exist_ok=True)
        y = ys[k] if ys else 0
        with open(os.path.join(d, nm), "w") as f:
            f.write(f"1 1 {marker0 + k} {y} 0 1 -1\n2 3 {marker0 + k} {y + 1} 0 1 1\n")


def file_no(path):                  # t007.swc → 7 (names are t<k>.swc with at least three digits)
    return int(os.path.basename(path)[1:-4])


OTHER = 100000                      # markers of the j-th unrelated population of a lazy case start at OTHER * (j + 1)


class ReadLog:
    """wraps Tree.from_swc (public entry point) to log which files are read; no repo change"""

    def __enter__(self):
        from swcgeom.core import Tree

        self.Tree = Tree
        self.orig = Tree.__dict__["from_swc"]
        self.log = []
        log = self.log
        orig = self.orig.__func__

        def from_swc(cls, swc_file, **kw):
            log.append(str(swc_file))
            return orig(cls, swc_file, **kw)

        Tree.from_swc = classmethod(from_swc)
        return self

    def __exit__(self, *a):
        self.Tree.from_swc = self.orig
        return False


class LazySuite(Suite):
    name = "c19.lazy"
    case_timeout = 60

    @staticmethod
    def _script(rng, n, nops):
        ops = []
        for _ in range(nops):
            r = rng.random()
            if r < 0.45:
                ops.append(("g", rng.randint(-n - 2, n + 1)))
            elif r < 0.55 and n:
                ops.append(("l", rng.randrange(n)))
            elif r < 0.66:
                ops.append(("i",))
                if n and rng.random() < 0.8:      # … then the same trees again by index (each file is still read once)
                    ops.append(("g", rng.randrange(-n, n)))
            elif r < 0.7:
                ops.append(("n",))
            else:
                a, b, c = rng.choice([None, rng.randint(-n - 1, n + 1)]), rng.choice([None, rng.randint(-n - 1, n + 1)]), rng.choice([None, 1, 2, -1])
                key = rng.randint(-3, 3)
                ops.append(("s", a, b, c, key))
                idxs = list(range(*slice(a, b, c).indices(n)))
                if idxs and rng.random() < 0.6:      # … and the same file again through the population itself, or through a second slice
                    j = idxs[key] if -len(idxs) <= key < len(idxs) else rng.choice(idxs)
                    ops.append(rng.choice([("g", j), ("g", j - n), ("s", j, j + 1, None, 0)]))
        return ops

    @staticmethod
    def _revisits(rng, n, k):
        """k accesses to trees that were loaded some time ago: by index from either end, through a slice, by `load`"""
        ops = []
        for _ in range(k):
            j = rng.randrange(n)
            ops.append(rng.choice([("g", j), ("g", j - n), ("s", j, None, rng.choice([None, 1, 3]), 0), ("s", None, j + 1, None, -1), ("l", j)]))
        return ops

    def cases(self, rng, tier, widen):
        out = []
        big = tier == "thorough" or widen
        for _ in range(60 if big else 25):
            n = rng.choice([0, 1, 2, 3, 5, 9])
            ops = self._script(rng, n, rng.randint(1, 12))
            out.append({"class": f"n{n}", "n": n, "ops": ops, "pop": rng.random() < 0.7, "nested": rng.random() < 0.3})
        # directories of hundreds of files (more trees than any small, bounded store would keep): everything is loaded once, then trees
        # loaded long ago are requested again — by index from either end, through slices, by a second iteration
        for k in range(8 if big else 2):
            n = rng.randint(1000, 2600) if (big and k % 4 == 3) else rng.randint(300, 700)
            ops = self._script(rng, n, rng.randint(0, 3)) + [("i",)] + self._revisits(rng, n, rng.randint(3, 6))
            if rng.random() < 0.5:
                ops += [("i",)] + self._revisits(rng, n, 2)
            out.append({"class": "n-hundreds", "n": n, "ops": ops, "pop": k % 2 == 0 or rng.random() < 0.5, "nested": rng.random() < 0.3, "big": n > 1000})
        # several unrelated populations alive at the same time and used alternately: what one of them has loaded stays loaded (and stays
        # its own) whatever the others do in between
        for k in range(8 if big else 2):
            n = rng.choice([2, 5, 9]) if k % 2 else rng.randint(40, 160)
            others = [rng.randint(40, 160) if k % 2 == 0 or rng.random() < 0.5 else rng.choice([1, 3, 9]) for _ in range(rng.randint(1, 3))]
            ops = []
            for _ in range(rng.randint(3, 6)):
                ops += self._script(rng, n, rng.randint(1, 3)) if rng.random() < 0.6 else [("i",)] + self._revisits(rng, n, 1)
                j = rng.randrange(len(others))
                ops.append(("O", j) if rng.random() < 0.6 else ("o", j, rng.randrange(-others[j], others[j])))
            ops += [("i",)] + self._revisits(rng, n, 2) + [("O", j) for j in range(len(others))]
            out.append({"class": "n-with-others", "n": n, "others": others, "ops": ops, "pop": rng.random() < 0.7, "nested": rng.random() < 0.3})
        return out

    def run(self, case):
        from swcgeom.core import Population
        from swcgeom.core.population import LazyLoadingTrees

        tmp = tempfile.mkdtemp(prefix="c19_")
        try:
            names = [f"t{k:03d}.swc" if not case["nested"] or k % 2 == 0 else f"sub/t{k:03d}.swc" for k in range(case["n"])]
            write_dir(os.path.join(tmp, "main"), names)
            for j, m in enumerate(case.get("others", [])):
                write_dir(os.path.join(tmp, f"other{j}"), [f"t{k:03d}.swc" for k in range(m)], marker0=OTHER * (j + 1))
            with warnings.catch_warnings():
                warnings.simplefilter("ignore")
                with ReadLog() as rl:
                    if case["pop"]:
                        pop = Population.from_swc(os.path.join(tmp, "main"))
                        files = list(pop.trees.swcs)
                        obj = pop
                    else:
                        files = Population.find_swcs(os.path.join(tmp, "main"))
                        obj = LazyLoadingTrees(files)
                    others = [Population.from_swc(os.path.join(tmp, f"other{j}")) for j in range(len(case.get("others", [])))]
                    ident = lambda t: int(round(float(t.x()[0])))
                    fidx = {f: file_no(f) for f in files}
                    order = [fidx[f] for f in files]          # marker of the i-th file
                    other_order = []
                    for j, o in enumerate(others):
                        fidx.update({f: OTHER * (j + 1) + file_no(f) for f in o.trees.swcs})
                        other_order.append([fidx[f] for f in o.trees.swcs])
                    res = []
                    for op in case["ops"]:
                        try:
                            if op[0] == "g":
                                res.append([ident(obj[op[1]])])
                            elif op[0] == "l":
                                (obj.trees if case["pop"] else obj).load(op[1]); res.append([])
                            elif op[0] == "i":
                                res.append([ident(t) for t in obj])
                            elif op[0] == "n":
                                res.append([len(obj)])
                            elif op[0] == "o":
                                res.append([ident(others[op[1]][op[2]])])
                            elif op[0] == "O":
                                res.append([ident(t) for t in others[op[1]]])
                            else:
                                if not case["pop"]:
                                    res.append("skip"); continue
                                sl = obj[slice(op[1], op[2], op[3])]
                                idxs = list(range(*slice(op[1], op[2], op[3]).indices(len(obj))))
                                got = ident(sl[op[4]])
                                res.append({"slice": idxs, "key": op[4], "got": got, "len": len(sl)})
                        except IndexError:
                            res.append("E")
                    log = [fidx[f] for f in rl.log]
            out = {"order": order, "res": res, "log": log}
            if others:
                out["other_order"] = other_order
            return out
        finally:
            shutil.rmtree(tmp, ignore_errors=True)

    def _pos(self, res):
        return {m: k for k, m in enumerate(res["order"])}

    def lines(self, case, res):
        if "exc" in res:
            return []
        pos = self._pos(res)
        # model works with positions in the file list; translate markers → positions
        toks, exp = [], []
        for op, r in zip(case["ops"], res["res"]):
            if op[0] in ("o", "O"):
                continue          # an operation on another population: not an operation of this container (its reads are left out of the log below)
            if op[0] == "s" or r == "skip":
                if isinstance(r, dict):
                    # a slice is NestTrees over the index list; its element access is a `get` on the underlying trees
                    idxs, key = r["slice"], op[4]
                    if -len(idxs) <= key < len(idxs):
                        toks.append(f"g:{idxs[key]}"); exp.append(f"[{pos[r['got']]}]")
                    continue
                if r == "E":
                    continue      # NestTrees index error: no access to the underlying trees
                continue
            toks.append(":".join(str(x) for x in op))
            exp.append("E" if r == "E" else "[" + ",".join(str(pos[m]) if op[0] in ("g", "i") else str(m) for m in r) + "]")
        line = f"lazy n={case['n']} pop={int(case['pop'])} ops={';'.join(toks) or 'n'}"
        if not toks:
            exp = [f"[{case['n']}]"]
        want = " ".join(exp) + " / " + ",".join(str(pos[m]) for m in res["log"] if m < OTHER)
        # the hand-written state machine AND the methods generated from population.py on this run (translator cross-check)
        out = [(line, want), ("g" + line, want)]
        if case["pop"]:
            # … and the FRONT END as generated (Population.__init__ / __getitem__ with ints and slices / __len__ / __iter__, NestTrees over the lazy
            # container): every operation of the script, slices included (`s:a:b:c:k` answers `[len(slice);file of slice[k]]`)
            ftoks, fexp = [], []
            for op, r in zip(case["ops"], res["res"]):
                if op[0] in ("o", "O"):
                    continue
                if op[0] == "s":
                    ftoks.append("s:" + ":".join("N" if x is None else str(x) for x in op[1:4]) + f":{op[4]}")
                    if isinstance(r, dict):
                        fexp.append(f"[{r['len']};{pos[r['got']]}]")
                    else:
                        fexp.append(f"[{len(range(*slice(*op[1:4]).indices(case['n'])))};E]")
                    continue
                ftoks.append(":".join(str(x) for x in op))
                fexp.append("E" if r == "E" else "[" + ",".join(str(pos[m]) if op[0] in ("g", "i") else str(m) for m in r) + "]")
            if not ftoks:
                ftoks, fexp = ["n"], [f"[{case['n']}]"]
            out.append((f"gpopfront n={case['n']} ops={';'.join(ftoks)}", " ".join(fexp) + " / " + ",".join(str(pos[m]) for m in res["log"] if m < OTHER)))
        return out

    def oracle(self, case, res):
        if "exc" in res:
            return [("population-raises", f"{res['exc']}: {res.get('msg')}")]
        out = []
        n = case["n"]
        order, log = res["order"], res["log"]
        show = (lambda ops: ops) if len(str(case["ops"])) < 400 else (lambda ops: f"{len(ops)} operations on {n} files, see the case")
        if len(set(log)) != len(log):
            cnt = {}
            for m in log:
                cnt[m] = cnt.get(m, 0) + 1
            dups = [m for m in cnt if cnt[m] > 1]
            out.append(("read-twice", f"file #{dups[0]} was read {cnt[dups[0]]} times; {len(dups)} of {len(cnt)} files were read more than once "
                                      f"(ops={show(case['ops'])})"))
        # on demand: every read file was requested (or is the construction probe of file 0)
        requested = set()
        oo = res.get("other_order", [])
        for op, r in zip(case["ops"], res["res"]):
            if r in ("E", "skip"):
                continue
            if op[0] == "g":
                k = op[1] + n if op[1] < 0 else op[1]
                requested.add(order[k])
                if r != [order[k]]:
                    out.append(("wrong-tree", f"index {op[1]} of {n} files returned the tree of file #{r[0]}, the {k}-th file is #{order[k]}"))
            elif op[0] == "l":
                requested.add(order[op[1]])
            elif op[0] == "i":
                requested.update(order)
                if r != order:
                    out.append(("iter-order", f"iteration gave {r[:20]}…, files are {order[:20]}…" if len(order) > 20 else f"iteration gave {r}, files are {order}"))
            elif op[0] == "n":
                if r != [n]:
                    out.append(("len", f"len = {r[0]}, {n} files"))
            elif op[0] == "s":
                idxs = r["slice"]
                if r["len"] != len(idxs):
                    out.append(("slice-len", f"slice length {r['len']}, expected {len(idxs)}"))
                requested.add(order[idxs[r["key"]]])
                if r["got"] != order[idxs[r["key"]]]:
                    out.append(("slice-wrong-tree", f"slice{op[1:4]}[{op[4]}] returned file #{r['got']}, expected #{order[idxs[r['key']]]}"))
            elif op[0] == "o":
                want = oo[op[1]][op[2]]
                requested.add(want)
                if r != [want]:
                    out.append(("wrong-tree", f"index {op[2]} of the {op[1]}-th other population returned the tree of file #{r[0]}, its file there is #{want} "
                                              f"(populations alive: {n} and {case['others']} files)"))
            elif op[0] == "O":
                requested.update(oo[op[1]])
                if r != oo[op[1]]:
                    out.append(("iter-order", f"iteration over the {op[1]}-th other population gave {r[:20]}, its files are {oo[op[1]][:20]}"))
        for op, r in zip(case["ops"], res["res"]):
            if op[0] == "g" and not (-n <= op[1] < n) and r != "E":
                out.append(("index-out-of-range-accepted", f"index {op[1]} of {n} returned {r}"))
            if op[0] == "g" and (-n <= op[1] < n) and r == "E":
                out.append(("valid-index-rejected", f"index {op[1]} of {n} raised IndexError"))
            if op[0] == "s" and r == "E" and -len(range(*slice(*op[1:4]).indices(n))) <= op[4] < len(range(*slice(*op[1:4]).indices(n))) and case["pop"]:
                out.append(("valid-index-rejected", f"slice{tuple(op[1:4])}[{op[4]}] of {n} files raised IndexError"))
        probe = ({order[0]} if (case["pop"] and n) else set()) | {o[0] for o in oo if o}
        extra = [m for m in log if m not in requested and m not in probe]
        if extra:
            out.append(("read-not-requested", f"files {extra[:10]} were read although never requested (ops={show(case['ops'])})"))
        return out[:3]

    def nontrivial(self, case, res):
        return case["n"] >= 2 and len(case["ops"]) >= 3


class ChainSuite(Suite):
    name = "c19.chain"
    case_timeout = 120

    def cases(self, rng, tier, widen):
        out = []
        big = tier == "thorough" or widen
        for _ in range(40 if big else 12):
            m = rng.choice([1, 2, 3, 4, 6])
            lens = [rng.choice([0, 1, 2, 3, 5]) for _ in range(m)]
            total = sum(lens)
            keys = sorted({rng.randint(-total - 1, total) for _ in range(8)} | {0, -1, total - 1, total, -total})
            out.append({"class": f"m{m}", "lens": lens, "keys": keys, "via": rng.choice(["chain", "to_population", "to_population"]),
                        "map": rng.random() < (0.25 if not big else 0.5)})
            # directories for the file matching of Populations.from_swc: 1-3 roots over a small pool of (nested) names
            pool = ["a.swc", "b.swc", "c.swc", "d.swc", "sub/e.swc", "sub/deep/f.swc", "g.swc"]
            k = rng.choice([1, 2, 2, 3])
            dirs = [[nm for nm in pool if rng.random() < 0.6] for _ in range(k)]
            if rng.random() < 0.3:
                dirs = [list(dirs[0]) for _ in range(k)]
            out[-1]["match"] = {"dirs": dirs, "intersect": rng.random() < 0.6, "check_same": rng.random() < 0.6}
        # members of tens to hundreds of files (the chained view holds more trees than any one member, and more than a small bounded store)
        for k in range(8 if big else 2):
            m = rng.choice([2, 3, 4])
            lens = [rng.choice([0, rng.randint(20, 90), rng.randint(90, 250)]) for _ in range(m)]
            lens[rng.randrange(m)] = rng.randint(90, 250)
            total = sum(lens)
            keys = sorted({rng.randint(-total - 1, total) for _ in range(8)} | {0, -1, total - 1, total, -total})
            out.append({"class": "m-hundreds", "lens": lens, "keys": keys, "via": ["chain", "to_population"][k % 2], "map": k % 4 == 1})
        return out

    def run(self, case):
        from swcgeom.core import Population, Populations
        from swcgeom.core.population import ChainTrees, LazyLoadingTrees

        tmp = tempfile.mkdtemp(prefix="c19c_")
        try:
            with warnings.catch_warnings():
                warnings.simplefilter("ignore")
                pops, marker = [], 0
                files_by_member = []
                for k, n in enumerate(case["lens"]):
                    d = os.path.join(tmp, f"d{k}")
                    write_dir(d, [f"t{i:03d}.swc" for i in range(n)], marker0=1000 * k)
                    os.makedirs(d, exist_ok=True)
                with ReadLog() as rl:         # the reads of the member files, through whatever view they are requested
                    fno = {}
                    for k, n in enumerate(case["lens"]):
                        p = Population.from_swc(os.path.join(tmp, f"d{k}"))
                        fno.update({str(f): 1000 * k + file_no(f) for f in p.trees.swcs})
                        files_by_member.append([fno[str(f)] for f in p.trees.swcs])
                        pops.append(p)
                    if case["via"] == "chain":
                        chain = ChainTrees([p.trees for p in pops])
                        obj = chain
                    else:
                        ps = Populations(pops)
                        obj = ps.to_population()
                    ident = lambda t: int(round(float(t.x()[0])))
                    res = {"len": len(obj), "gets": [], "members": files_by_member}
                    res["reads_built"] = [fno[f] for f in rl.log]
                    for key in case["keys"]:
                        try:
                            res["gets"].append(ident(obj[key]))
                        except IndexError:
                            res["gets"].append("E")
                    res["reads_gets"] = [fno[f] for f in rl.log]
                    res["iter"] = [ident(t) for t in obj]
                    # … and the same keys once more, now that everything has been loaded
                    res["gets_again"] = []
                    for key in case["keys"]:
                        try:
                            res["gets_again"].append(ident(obj[key]))
                        except IndexError:
                            res["gets_again"].append("E")
                    if case["map"] and case["via"] != "chain":
                        res["map"] = [float(v) for v in obj.map(root_x, max_worker=2)]
                    # a transform mapped over a population: one tree per member, in order, each the transform of its member
                    from swcgeom.transforms import Translate
                    from swcgeom.transforms.population import PopulationTransform

                    if case["via"] != "chain" and len(obj):
                        moved = PopulationTransform(Translate(0.5, 0.0, 0.0))(obj)
                        res["mapped"] = {"len": len(moved), "x": [float(tt.x()[0]) for tt in moved], "src_same": [os.path.basename(a.source) == os.path.basename(b.source) for a, b in zip(moved, obj)]}
                    res["reads"] = [fno[f] for f in rl.log]
                # ESWC directories
                ed = os.path.join(tmp, "eswc")
                os.makedirs(ed, exist_ok=True)
                for k in range(3):
                    with open(os.path.join(ed, f"e{k}.eswc"), "w") as f:
                        f.write(f"1 1 {k} 0 0 1 -1 0 1 2 3 {10 + k}\n2 3 {k} 1 0 1 1 0 1 2 3 {20 + k}\n")
                ep = Population.from_eswc(ed)
                res["eswc"] = {"len": len(ep), "fv": [[float(v) for v in tt.get_ndata("feature_value")] for tt in ep], "x": [float(tt.x()[0]) for tt in ep]}
                # rows of same-named files across directories
                same = os.path.join(tmp, "same")
                names = ["a.swc", "b.swc", "c.swc", "only1.swc", "sub/n1.swc", "sub/deep/n2.swc", "sub/only1b.swc"]
                write_dir(os.path.join(same, "r1"), names, marker0=0)
                write_dir(os.path.join(same, "r2"), ["c.swc", "a.swc", "b.swc", "only2.swc", "sub/deep/n2.swc", "sub/n1.swc"], marker0=100)
                # the roots as a user may spell them: plain, with a trailing separator on one or on both
                style = (sum(case["lens"]) + len(case["keys"])) % 3
                r1 = os.path.join(same, "r1") + (os.sep if style in (1, 2) else "")
                r2 = os.path.join(same, "r2") + (os.sep if style == 2 else "")
                pp = Populations.from_swc([r1, r2])
                res["rows"] = [[os.path.relpath(t.source, rt).replace(os.sep, "/") for t, rt in zip(pp[i], (r1, r2))] for i in range(len(pp))]
                res["rows_len"] = len(pp)
                res["root_style"] = style
                # without intersection but with `check_same=True`: directories whose file sets differ must not be paired row by row
                try:
                    with warnings.catch_warnings():
                        warnings.simplefilter("ignore")
                        pc = Populations.from_swc([r1, r2], intersect=False, check_same=True)
                        res["check_same"] = [[os.path.relpath(t.source, rt).replace(os.sep, "/") for t, rt in zip(pc[i], (r1, r2))] for i in range(len(pc))]
                except AssertionError as e:
                    res["check_same"] = "refused: " + str(e)[:60]
                # … and identical file sets are accepted and paired by name
                write_dir(os.path.join(same, "q1"), ["a.swc", "b.swc", "sub/n1.swc"], marker0=0)
                write_dir(os.path.join(same, "q2"), ["a.swc", "b.swc", "sub/n1.swc"], marker0=100)
                pq = Populations.from_swc([os.path.join(same, "q1"), os.path.join(same, "q2")], intersect=False, check_same=True)
                res["check_same_ok"] = [[os.path.relpath(t.source, rt).replace(os.sep, "/") for t, rt in zip(pq[i], (os.path.join(same, "q1"), os.path.join(same, "q2")))]
                                        for i in range(len(pq))]
                res["n_pops"] = [pq.num_of_populations(), len([row for row in pq])]
                if "match" in case:
                    mt = case["match"]
                    mroots = [os.path.join(tmp, "match", f"m{k}") for k in range(len(mt["dirs"]))]
                    for rt, names_ in zip(mroots, mt["dirs"]):
                        write_dir(rt, names_)
                    found = [[os.path.normpath(nm).replace(os.sep, "/") for nm in Population.find_swcs(rt, relpath=True)] for rt in mroots]
                    with ReadLog() as rl2:
                        try:
                            pm = Populations.from_swc(mroots, intersect=mt["intersect"], check_same=mt["check_same"])
                            built = len(rl2.log)
                            rows_ = [[os.path.relpath(t.source, rt).replace(os.sep, "/") for t, rt in zip(pm[i], mroots)] for i in range(len(pm))]
                            res["match"] = {"found": found, "len": len(pm), "rows": rows_, "built": built, "read": len(rl2.log),
                                            "dup": len(set(rl2.log)) != len(rl2.log)}
                        except AssertionError:
                            res["match"] = {"found": found, "rows": "refused"}
                        except ValueError as e:          # min() of no population / reduce of no list
                            res["match"] = {"found": found, "rows": "refused", "why": str(e)[:40]}
            return res
        finally:
            shutil.rmtree(tmp, ignore_errors=True)

    def lines(self, case, res):
        if "exc" in res:
            return []
        conc = [m for mem in res["members"] for m in mem]
        where = {}
        for mi, mem in enumerate(res["members"]):
            for j, m in enumerate(mem):
                where[m] = f"{mi}:{j}"
        exp = f"{res['len']} " + " ".join("E" if g == "E" else where[g] for g in res["gets"])
        a = f"lens={gen.ints(case['lens'])} keys={gen.ints(case['keys'])}"
        out = [("chain " + a, exp), ("gchain " + a, exp)]
        if case["via"] == "to_population":
            out.append(("gtopop " + a, exp))          # Populations.__init__ / to_population / Population.__init__ / __len__ / __getitem__ as generated
        m = res.get("match")
        if m is not None:
            # the file matching of Populations.from_swc as generated: rows compared as a set (the order of a Python set is unspecified)
            num = {nm: k + 1 for k, nm in enumerate(sorted({nm for d in m["found"] for nm in d}))}
            line = (f"gfromswc dirs={';'.join(gen.ints([num[nm] for nm in d]) for d in m['found'])} intersect={int(case['match']['intersect'])} "
                    f"check={int(case['match']['check_same'])}")
            if m["rows"] == "refused":
                out.append((line, "E"))
            else:
                rows = sorted(m["rows"], key=lambda r: num[r[0]])
                out.append((line, f"{m['len']} " + " ".join(",".join(f"{k}:{num[nm]}" for k, nm in enumerate(r)) for r in rows)
                            + f" / built={m['built']} read={m['read']}"))
        return out

    def oracle(self, case, res):
        if "exc" in res:
            return [("chain-raises", f"{res['exc']}: {res.get('msg')}")]
        out = []
        conc = [m for mem in res["members"] for m in mem]
        total = len(conc)
        if res["len"] != total:
            out.append((f"chain-len/{case['via']}", f"chained length {res['len']}, members have {case['lens']} (total {total}) via {case['via']}"))
        for key, g in zip(case["keys"], res["gets"]):
            if -total <= key < total:
                if g != conc[key]:
                    out.append((f"chain-index/{case['via']}", f"chain[{key}] returned file #{g}, concatenation has #{conc[key]} (lens={case['lens']})")); break
            elif g != "E":
                out.append(("chain-index-out-of-range", f"chain[{key}] of {total} returned {g}")); break
        for key, g in zip(case["keys"], res.get("gets_again", [])):
            if (-total <= key < total and g != conc[key]) or (not (-total <= key < total) and g != "E"):
                out.append((f"chain-index/{case['via']}", f"chain[{key}] after an iteration returned {g}, concatenation has "
                                                          f"{'#' + str(conc[key]) if -total <= key < total else 'no such element'} (lens={case['lens']})")); break
        if res["iter"] != conc and res["len"] == total:
            out.append(("chain-iter", f"iteration {res['iter'][:30]} ≠ concatenation {conc[:30]}" + (" (first 30 each)" if total > 30 else "")))
        if "reads" in res:
            # at most once: however a member file is reached (chained index, iteration, map, transform), it is read a single time
            cnt = {}
            for m_ in res["reads"]:
                cnt[m_] = cnt.get(m_, 0) + 1
            dups = [m_ for m_ in cnt if cnt[m_] > 1]
            if dups:
                out.append(("read-twice/chain", f"file #{dups[0]} (member {dups[0] // 1000}) was read {cnt[dups[0]]} times through the chained view; {len(dups)} of {len(cnt)} "
                                                f"files were read more than once (lens={case['lens']}, via {case['via']}, keys {case['keys']} → iteration → the keys again"
                                                f"{' → map' if 'map' in res else ''}{' → transform' if 'mapped' in res else ''})"))
            # on demand: construction reads at most the first file of a member; the indexed files are the only further reads before the iteration
            firsts = {mem[0] for mem in res["members"] if mem}
            early = [m_ for m_ in res["reads_built"] if m_ not in firsts]
            asked = {conc[key] for key in case["keys"] if -total <= key < total}
            early += [m_ for m_ in res["reads_gets"][len(res["reads_built"]):] if m_ not in asked and m_ not in firsts]
            if early:
                out.append(("read-not-requested/chain", f"files {early[:10]} were read although not requested yet (lens={case['lens']}, via {case['via']}, keys {case['keys']})"))
        if "map" in res and [int(round(v)) for v in res["map"]] != conc:
            out.append(("map-order", f"map returned {res['map']}, trees in order are {conc}"))
        if "mapped" in res:
            m_ = res["mapped"]
            if m_["len"] != total or [round(v - 0.5) for v in m_["x"]] != conc or not all(m_["src_same"]):
                out.append(("map-order", f"PopulationTransform gives {m_['len']} trees with markers {m_['x']}, members are {conc}"))
        e_ = res["eswc"]
        if e_["len"] != 3 or sorted(e_["x"]) != [0.0, 1.0, 2.0] or sorted(map(tuple, e_["fv"])) != [(10.0, 20.0), (11.0, 21.0), (12.0, 22.0)]:
            out.append(("population-eswc", f"Population.from_eswc: {e_}"))
        cs = res.get("check_same")
        if isinstance(cs, list) and any(len(set(r)) != 1 for r in cs):
            bad = next(r for r in cs if len(set(r)) != 1)
            out.append(("populations-rows/check-same", f"Populations.from_swc(check_same=True) on directories with different file sets returned the row {bad}: differently named files in one row (it should refuse)"))
        ok = res.get("check_same_ok")
        if ok is not None and (len(ok) != 3 or any(len(set(r)) != 1 for r in ok) or res.get("n_pops") != [2, 3]):
            out.append(("populations-rows", f"Populations.from_swc(check_same=True) on identical directories: rows {ok}, populations / rows iterated {res.get('n_pops')}"))
        mres = res.get("match")
        if mres is not None and "match" in case:
            mt = case["match"]
            sets = [set(d) for d in mres["found"]]
            if mres["rows"] == "refused":
                if mt["intersect"] or not mt["check_same"] or all(d == mres["found"][0] for d in mres["found"]):
                    out.append(("populations-rows/refused", f"Populations.from_swc refused {mres['found']} (intersect={mt['intersect']}, check_same={mt['check_same']})"))
            else:
                rows_ = mres["rows"]
                if mt["intersect"] or mt["check_same"]:
                    if any(len(set(r)) != 1 for r in rows_):
                        out.append(("populations-rows", f"a row of differently named files: {[r for r in rows_ if len(set(r)) != 1][0]} (directories {mres['found']})"))
                if mt["intersect"] and sorted(r[0] for r in rows_) != sorted(set.intersection(*sets)):
                    out.append(("populations-rows", f"rows {sorted(r[0] for r in rows_)}, the names present under every root are {sorted(set.intersection(*sets))}"))
                if mres["len"] != len(rows_) or mres["built"] > len(sets) or mres.get("dup"):
                    out.append(("populations-reads", f"Populations.from_swc read {mres['built']} files while building {len(sets)} populations; "
                                                     f"{mres['read']} reads for {mres['len']} rows"))
        want = ["a.swc", "b.swc", "c.swc", "sub/deep/n2.swc", "sub/n1.swc"]
        if res["rows_len"] != len(want) or any(len(set(r)) != 1 for r in res["rows"]) or sorted(r[0] for r in res["rows"]) != want:
            out.append(("populations-rows", f"rows of Populations.from_swc (root spelling {res.get('root_style')}): {res['rows']}; the files present under both roots are {want}"))
        return out[:3]

    def nontrivial(self, case, res):
        return sum(case["lens"]) >= 2


class MapSuite(Suite):
    """`Population.map` under every option it takes (progress bar on / off, one / several / default number of workers), with functions whose cost differs
    from tree to tree so that the jobs do not finish in the order in which they were handed out: one result per tree, in population order."""
    name = "c19.map"
    case_timeout = 90
    repeat = 4
    PROFILES = ["first-slow", "decreasing", "random", "none", "last-slow"]

    def cases(self, rng, tier, widen):
        out = []
        big = tier == "thorough" or widen
        for k in range(40 if big else 10):
            # stratified: every (verbose, one worker / several workers) combination occurs, each with jobs of unequal duration
            verbose = k % 2 == 1
            workers = 1 if (k // 2) % 2 == 0 else rng.choice([2, 2, 3, 4, None])
            profile = self.PROFILES[(k // 4) % len(self.PROFILES)]
            n = rng.randint(3, 6) if k < 8 else (rng.choice([0, 1, 2]) if rng.random() < 0.3 else rng.randint(2, 6))
            if profile == "first-slow":
                delays = [25] + [0] * (n - 1)
            elif profile == "last-slow":
                delays = [0] * (n - 1) + [25]
            elif profile == "decreasing":
                delays = [4 * (n - 1 - i) for i in range(n)]
            elif profile == "random":
                delays = [rng.randint(0, 12) for _ in range(n)]
            else:
                delays = [0] * n
            delays = delays[:n]
            shape = rng.choice(["flat", "nested", "chain"])
            cuts = sorted(rng.randint(0, n) for _ in range(rng.randint(1, 2))) if shape == "chain" else []
            lens = [b - a for a, b in zip([0] + cuts, cuts + [n])] if shape == "chain" else [n]
            out.append({"class": f"{'bar' if verbose else 'plain'}/{'1' if workers == 1 else 'many'}/{profile}", "verbose": verbose, "workers": workers,
                        "delays": delays, "shape": shape, "lens": lens})
        return out

    def run(self, case):
        from swcgeom.core import Population, Populations

        tmp = tempfile.mkdtemp(prefix="c19m_")
        try:
            with warnings.catch_warnings():
                warnings.simplefilter("ignore")
                # lay the files out, ask the library in which order it lists them, then give the tree at position i of the population the i-th delay
                dirs, at = [], 0
                for k, n in enumerate(case["lens"]):
                    d = os.path.join(tmp, f"d{k}")
                    names = [f"t{i:03d}.swc" if case["shape"] != "nested" or i % 2 == 0 else f"sub{i % 3}/t{i:03d}.swc" for i in range(n)]
                    write_dir(d, names, marker0=1000 * k)
                    if case["shape"] == "nested":
                        os.makedirs(os.path.join(d, "empty", "inner"), exist_ok=True)
                    listed = Population.find_swcs(d)
                    for f in listed:
                        with open(f, "w") as fh:
                            m, y = 1000 * k + file_no(f), case["delays"][at]
                            fh.write(f"1 1 {m} {y} 0 1 -1\n2 3 {m} {y + 1} 0 1 1\n")
                        at += 1
                    dirs.append(d)
                with ReadLog() as rl:
                    pops = [Population.from_swc(d) for d in dirs]
                    pop = pops[0] if case["shape"] != "chain" else Populations(pops).to_population()
                    order = [1000 * k + file_no(f) for k, p in enumerate(pops) for f in p.trees.swcs]
                    with open(os.devnull, "w") as null, contextlib.redirect_stderr(null):      # the progress bar goes to stderr
                        got = [float(v) for v in pop.map(paced_root_x, max_worker=case["workers"], verbose=case["verbose"])]
                    after = [int(round(float(t.x()[0]))) for t in pop]
                    fno = {str(f): 1000 * k + file_no(f) for k, p in enumerate(pops) for f in p.trees.swcs}
                    reads = [fno[f] for f in rl.log]
            return {"order": order, "map": got, "after": after, "reads": reads}
        finally:
            shutil.rmtree(tmp, ignore_errors=True)

    def oracle(self, case, res):
        if "exc" in res:
            return [("map-raises", f"{res['exc']}: {res.get('msg')}")]
        out = []
        order = res["order"]
        opts = f"max_worker={case['workers']}, verbose={case['verbose']}"
        if len(res["map"]) != len(order):
            out.append(("map-len", f"map({opts}) returned {len(res['map'])} results for {len(order)} trees"))
        elif [int(round(v)) for v in res["map"]] != order:
            out.append(("map-order", f"map({opts}) returned {[int(round(v)) for v in res['map']]}, the trees in population order are {order} "
                                     f"(the function sleeps {[10 * d for d in case['delays']]} ms on them)"))
        if res["after"] != order:
            out.append(("iter-order", f"iteration after map gave {res['after']}, files are {order}"))
        dups = sorted({m for m in res["reads"] if res["reads"].count(m) > 1})
        if dups:
            out.append(("read-twice/map", f"files {dups} were read more than once by construction → map({opts}) → iteration"))
        return out[:3]

    def nontrivial(self, case, res):
        return len(case["delays"]) >= 2



# ----------------------------------------------------------------------------- directory layouts with unusual (but legitimate) names

_LETTERS = "abcdefghijklmnopqrstuvwxyz0123456789"
NAME_KINDS = ["plain", "glob-meta", "hidden", "punct", "dotted"]
NAME_WHERE = ["root", "above-root", "sub", "file"]


def _word(rng, lo=2, hi=5):
    return "".join(rng.choice(_LETTERS) for _ in range(rng.randint(lo, hi)))


def special_name(rng, kind):
    """one path component of the given kind (no separator, no NUL, never '.' or '..'); the members are drawn, not listed"""
    w, v = _word(rng), _word(rng)
    if kind == "glob-meta":          # characters that mean something to a shell / glob / fnmatch / regex, and nothing to a file system
        return rng.choice([f"{w}[{rng.randint(0, 2999)}]", f"[{w}]", f"[!{w}]", f"{w}[{v}", f"{w}]{v}", f"{w}*", f"*{w}", f"{w}?{v}", f"{{{w},{v}}}",
                           f"{w}[{w[0]}-{v[0]}]{v}", f"{w}**{v}", f"{w}(1)", f"{w}+{v}", f"^{w}$", f"{w}|{v}", f"{w}\\{v}"])
    if kind == "hidden":             # names that start with a dot
        return rng.choice([f".{w}", f".{w}.{v}", f"..{w}", f".{w}-{rng.randint(0, 99)}"])
    if kind == "punct":              # blanks, quotes, signs, non-ASCII letters
        c = rng.choice([" ", "  ", "#", "%", "~", "'", '"', ",", "+", "=", "@", "&", "$", ";", "-", "é", "ü", "中", "ñ", "%20", "$HOME", "~user"])
        return rng.choice([f"{w}{c}{v}", f"{c}{w}", f"{w}{c}"]) if c.strip() else f"{w}{c}{v}"
    if kind == "dotted":             # further dots; a folder that is named like a tree file
        return rng.choice([f"{w}.{v}", f"{w}.swc", f"{w}.v{rng.randint(1, 9)}.{rng.randint(0, 9)}", f"{w}..{v}", f"{w}.swc.{v}", f"{w}.SWC"])
    return w


class LayoutSuite(Suite):
    """`Population.from_swc(root)` / `Populations.from_swc(roots)` over directory layouts whose folder and file names are legitimate but unusual: the population
    has one tree per tree file under the root, whatever the root, its parents, its sub-folders and its files are called and however the root is spelled."""
    name = "c19.layout"
    case_timeout = 60
    repeat = 6
    SPELL = ["abs", "rel", "dot-rel", "trailing-sep", "abs"]
    # the styles a root may be spelled in, absolute and relative ones alternating: in a `mixed` case every root has its own style
    STYLES = ["abs", "rel", "trailing-sep", "dot-rel", "redundant-sep", "parent-rel"]

    @staticmethod
    def spell_root(d, tmp, style):
        """the directory `d` (absolute, below the current directory `tmp`) as a user may write it"""
        relp = os.path.relpath(d, tmp)
        if style == "abs":
            return d
        if style == "trailing-sep":
            return d + os.sep
        if style == "redundant-sep":          # absolute, with a `.` component and a doubled separator
            return os.path.join(tmp, ".", "") + os.sep + relp
        if style == "dot-rel":
            return "." + os.sep + relp
        if style == "parent-rel":             # relative, through the parent of the current directory
            return os.path.join(os.pardir, os.path.basename(tmp), relp)
        return relp

    def _root(self, rng, kind, where, k, shared):
        """layout of one root: path components below the temp dir, tree files (relative names), other files, empty folders"""
        sp = lambda pos: special_name(rng, kind) if where == pos else _word(rng)
        comps = [f"{sp('above-root')}", f"{sp('root')}"] if (where == "above-root" or rng.random() < 0.5) else [f"{sp('root')}"]
        files = list(shared)
        for _ in range(rng.randint(0, 3)):        # files of this root only
            depth = rng.choice([0, 0, 1, 2, 4])
            files.append("/".join([_word(rng) for _ in range(depth)] + [f"{_word(rng)}{k}.swc"]))
        others = [rng.choice([f"{_word(rng)}.txt", f"{_word(rng)}.swc.bak", f"{_word(rng)}", f"{_word(rng)}/notes.md"]) for _ in range(rng.randint(0, 2))]
        empty = ["/".join(_word(rng) for _ in range(rng.randint(1, 3))) for _ in range(rng.randint(0, 2))]
        return {"path": comps, "files": files, "others": others, "empty": empty}

    def cases(self, rng, tier, widen):
        out = []
        big = tier == "thorough" or widen
        combos = [(kind, where) for kind in NAME_KINDS for where in NAME_WHERE]          # every (kind of name, position in the layout) occurs in the quick tier
        for rep in range(3 if big else 1):
            for ci, (kind, where) in enumerate(combos):
                if kind == "plain" and where != "root" and not big:
                    continue
                # files present under every root: some at the top, some nested; the special name sits in the position `where`
                shared = []
                for j in range(rng.randint(1, 4)):
                    depth = rng.choice([0, 1, 1, 2, 3])
                    dirs = [_word(rng) for _ in range(depth)]
                    if where == "sub" and (j == 0 or rng.random() < 0.4):
                        dirs.insert(rng.randint(0, len(dirs)), special_name(rng, kind))
                    base = special_name(rng, kind) if (where == "file" and (j == 0 or rng.random() < 0.4)) else _word(rng)
                    shared.append("/".join(dirs + [base + ".swc"]))
                if where == "sub" and kind == "dotted":
                    shared.append(f"{_word(rng)}.swc/{_word(rng)}.swc")      # a folder that carries the extension, with a tree file in it
                shared = list(dict.fromkeys(shared))
                m = rng.choice([1, 2, 2, 3])
                roots = [self._root(rng, kind, where, k, shared) for k in range(m)]
                if len({tuple(r["path"]) for r in roots}) < m:
                    for k, r in enumerate(roots):
                        r["path"][-1] += f"{k}"
                out.append({"class": f"{kind}@{where}", "kind": kind, "where": where, "roots": roots, "spell": self.SPELL[(ci + rep) % len(self.SPELL)]})
        # several roots in ONE call, each spelled in its own style (absolute next to relative, with / without a trailing separator, through `.` or `..`):
        # neighbouring styles of STYLES mix an absolute and a relative spelling, so every such pair occurs in the quick tier
        ns = len(self.STYLES)
        for i in range(3 * ns if big else ns):
            kind, where = ("plain", "root") if i % 3 else rng.choice(combos)
            shared = ["/".join([_word(rng) for _ in range(rng.choice([0, 0, 1, 2]))] + [_word(rng) + ".swc"]) for _ in range(rng.randint(1, 3))]
            shared = list(dict.fromkeys(shared))
            m = rng.choice([2, 2, 3])
            roots = [self._root(rng, kind, where, k, shared) for k in range(m)]
            if rng.random() < 0.2:
                roots[rng.randrange(m)]["files"] = []          # an empty member
            if len({tuple(r["path"]) for r in roots}) < m:
                for k, r in enumerate(roots):
                    r["path"][-1] += f"{k}"
            spells = [self.STYLES[i % ns], self.STYLES[(i + 1 + i // ns) % ns]] + [rng.choice(self.STYLES) for _ in range(m - 2)]
            if rng.random() < 0.5:
                spells.reverse()
            out.append({"class": f"mixed-spelling/{'+'.join(spells)}", "kind": kind, "where": where, "roots": roots, "spell": "mixed", "spells": spells})
        return out

    def run(self, case):
        from swcgeom.core import Population, Populations

        tmp = tempfile.mkdtemp(prefix="c19L_")
        cwd = os.getcwd()
        try:
            with warnings.catch_warnings():
                warnings.simplefilter("ignore")
                absroots, marker_of = [], []
                for k, r in enumerate(case["roots"]):
                    d = os.path.join(tmp, *r["path"])
                    os.makedirs(d, exist_ok=True)
                    mk = {}
                    for j, nm in enumerate(r["files"]):
                        f = os.path.join(d, *nm.split("/"))
                        os.makedirs(os.path.dirname(f), exist_ok=True)
                        mk[nm] = 1000 * k + j
                        with open(f, "w") as fh:
                            fh.write(f"1 1 {mk[nm]} 0 0 1 -1\n2 3 {mk[nm]} 1 0 1 1\n")
                    for nm in r["others"]:
                        f = os.path.join(d, *nm.split("/"))
                        os.makedirs(os.path.dirname(f), exist_ok=True)
                        with open(f, "w") as fh:
                            fh.write("not a tree\n")
                    for nm in r["empty"]:
                        os.makedirs(os.path.join(d, *nm.split("/")), exist_ok=True)
                    absroots.append(d)
                    marker_of.append(mk)
                os.chdir(tmp)
                sp = case["spell"]
                spelled = [self.spell_root(d, tmp, st_) for d, st_ in zip(absroots, case.get("spells") or [sp] * len(absroots))]
                rel = lambda f, d: os.path.relpath(os.path.abspath(str(f)), d).replace(os.sep, "/")
                ident = lambda t: int(round(float(t.x()[0])))
                res = {"written": [sorted(mk) for mk in marker_of], "markers": marker_of, "spelled": spelled, "pops": []}
                pops = []
                for d, s_ in zip(absroots, spelled):
                    with ReadLog() as rl:
                        pop = Population.from_swc(s_)
                        built = [rel(f, d) for f in rl.log]
                        n = len(pop)
                        pr = {"len": n, "listed": [rel(f, d) for f in pop.trees.swcs], "reads_built": built}
                        pr["gets"] = [ident(pop[i]) for i in range(n)]
                        pr["gets_neg"] = [ident(pop[i - n]) for i in range(n)]
                        pr["src"] = [rel(pop[i].source, d) for i in range(n)]
                        pr["iter"] = [ident(t) for t in pop]
                        pr["reads"] = [rel(f, d) for f in rl.log]
                    res["pops"].append(pr)
                    pops.append(pop)
                pp = Populations.from_swc(spelled)
                res["rows_len"] = len(pp)
                res["rows"] = [[rel(t.source, d) for t, d in zip(pp[i], absroots)] for i in range(len(pp))]
                res["row_markers"] = [[ident(t) for t in pp[i]] for i in range(len(pp))]
                try:
                    ch = Populations(pops).to_population()
                    res["chain_len"] = len(ch)
                    res["chain_iter"] = [ident(t) for t in ch]
                except Exception as e:  # noqa: BLE001 - chaining populations that were built and read without error: which call raised is part of the result
                    res["chain_raised"] = f"{type(e).__name__}: {str(e)[:200]}"
                # … and the matched populations chained: the files of the rows, member after member (which route raised is part of the result)
                res["pp_members"] = [[marker_of[k].get(rel(f, d)) for f in p.trees.swcs] for k, (p, d) in enumerate(zip(pp.populations, absroots))]
                try:
                    pc = pp.to_population()
                    total = len(pc)
                    res["pp_chain"] = {"len": total, "iter": [ident(t) for t in pc], "neg": [ident(pc[i - total]) for i in range(total)]}
                except Exception as e:  # noqa: BLE001
                    res["pp_chain"] = {"raised": f"{type(e).__name__}: {str(e)[:200]}"}
            return res
        finally:
            os.chdir(cwd)
            shutil.rmtree(tmp, ignore_errors=True)

    def oracle(self, case, res):
        if not isinstance(res, dict):
            return [("malformed-output", f"run() returned {type(res).__name__}")]
        if "exc" in res:
            return [("population-raises", f"{res['exc']}: {res.get('msg')} (directory layout {case['class']}, roots {[r['path'] for r in case['roots']]}, "
                                          f"files {[r['files'] for r in case['roots']]}, root spelled {case.get('spells') or case['spell']})")]
        try:
            return self._oracle(case, res)[:3]
        except Exception as e:  # noqa: BLE001 - a malformed output is a finding, never a crash of the check
            return [("malformed-output", f"{type(e).__name__}: {e} while judging {str(res)[:300]}")]

    def _oracle(self, case, res):
        out = []
        what = f"layout {case['class']}, root spelled {case['spell']}" + (f" {case['spells']}" if case.get("spells") else "")
        orders = []
        for k, (r, pr) in enumerate(zip(case["roots"], res["pops"])):
            where = f"root {'/'.join(r['path'])!r}"
            written, mk = sorted(r["files"]), res["markers"][k]
            listed = pr["listed"]
            # one tree per tree file under the root: the files of the population are the tree files that were written, each once
            if sorted(listed) != written:
                missing, extra = [f for f in written if f not in listed], [f for f in listed if f not in written]
                out.append(("population-files", f"Population.from_swc({res['spelled'][k]!r}) has {len(listed)} files, the directory holds {len(written)} tree files"
                                                f"{'; not in the population: ' + str(missing) if missing else ''}{'; not in the directory: ' + str(extra) if extra else ''}"
                                                f"{'; listed more than once' if len(set(listed)) != len(listed) else ''} ({what})"))
            if pr["len"] != len(listed):
                out.append(("len", f"len = {pr['len']}, {len(listed)} files listed ({where}, {what})"))
            want = [mk.get(f) for f in listed]
            orders.append(want)
            for route in ("gets", "gets_neg", "iter"):
                if pr[route] != want:
                    bad = next((i for i, (a, b) in enumerate(zip(pr[route], want)) if a != b), min(len(pr[route]), len(want)))
                    out.append(("iter-order" if route == "iter" else "wrong-tree",
                                f"{'iteration' if route == 'iter' else 'index ' + str(bad if route == 'gets' else bad - len(want))} gives the tree of file "
                                f"#{pr[route][bad] if bad < len(pr[route]) else None}, the {bad}-th file {listed[bad] if bad < len(listed) else None!r} "
                                f"is #{want[bad] if bad < len(want) else None} ({where}, {what})"))
                    break
            if pr["src"] != listed:
                out.append(("wrong-tree", f"trees by index come from {pr['src']}, the files are {listed} ({where}, {what})"))
            if len(set(pr["reads"])) != len(pr["reads"]):
                dup = sorted({f for f in pr["reads"] if pr["reads"].count(f) > 1})
                out.append(("read-twice", f"files {dup} were read more than once by construction → every index → every negative index → iteration ({where}, {what})"))
            if [f for f in pr["reads_built"] if f not in listed[:1]]:
                out.append(("read-not-requested", f"construction read {pr['reads_built']}, the first file is {listed[:1]} ({where}, {what})"))
        # rows of same-named files: one row per name present under every root, each row made of that file of every root
        common = sorted(set.intersection(*[set(r["files"]) for r in case["roots"]]))
        rows = res["rows"]
        if res["rows_len"] != len(common) or sorted(r[0] if r else None for r in rows) != common or any(len(set(r)) != 1 for r in rows):
            out.append(("populations-rows", f"rows of Populations.from_swc({res['spelled']}): {rows}; the files present under every root are {common} ({what})"))
        elif any(m != [res["markers"][k].get(r[0]) for k in range(len(case["roots"]))] for r, m in zip(rows, res["row_markers"])):
            out.append(("populations-rows", f"rows {rows} hold the trees of files #{res['row_markers']}, which are not those files of the roots ({what})"))
        conc = [m for o in orders for m in o]
        total = sum(len(r["files"]) for r in case["roots"])
        if "chain_raised" in res:
            out.append(("chain-raises", f"Populations([Population.from_swc(r) for r in {res['spelled']}]).to_population() raised {res['chain_raised']}; the members hold "
                                        f"{[len(o) for o in orders]} trees ({what})"))
        elif res.get("chain_len") != total:
            out.append(("chain-len/to_population", f"chained length {res.get('chain_len')}, the directories hold {[len(r['files']) for r in case['roots']]} tree files ({what}, "
                                                   f"roots {[r['path'] for r in case['roots']]})"))
        elif res.get("chain_iter") != conc:
            out.append(("chain-iter", f"iteration over the chained population {res.get('chain_iter')} ≠ concatenation {conc} ({what})"))
        # chaining the matched populations concatenates them in order with the right total length
        pc = res.get("pp_chain")
        if pc is not None:
            mconc = [m for mem in res["pp_members"] for m in mem]
            how = f"Populations.from_swc({res['spelled']}).to_population()"
            if "raised" in pc:
                out.append(("chain-raises", f"{how} raised {pc['raised']}; the members hold {[len(mem) for mem in res['pp_members']]} trees ({what})"))
            elif pc.get("len") != len(mconc) or len(mconc) != len(case["roots"]) * len(common):
                out.append(("chain-len/to_population", f"{how} has length {pc.get('len')}, its members hold {[len(mem) for mem in res['pp_members']]} trees; "
                                                       f"{len(common)} files are present under each of the {len(case['roots'])} roots ({what})"))
            elif pc.get("iter") != mconc:
                out.append(("chain-iter", f"iteration over {how} gives the trees of files #{pc.get('iter')}, the members in order are #{mconc} ({what})"))
            elif pc.get("neg") != mconc:
                out.append(("chain-index/to_population", f"negative indices of {how} give the trees of files #{pc.get('neg')}, the members in order are #{mconc} ({what})"))
        return out

    def nontrivial(self, case, res):
        return sum(len(r["files"]) for r in case["roots"]) >= 2


# ----------------------------------------------------------------------------- populations built with reader options

STD_COLS = ("id", "type", "x", "y", "z", "r", "pid")
ESWC_EXTRA = ["level", "mode", "timestamp", "teraflyindex", "feature_value"]


def fingerprint(t):                 # top-level (picklable); everything a reader option can change about a tree, as plain lists
    nd = t.ndata
    return {"id": [int(v) for v in t.id()], "pid": [int(v) for v in t.pid()], "key": [int(round(float(v))) for v in t.x()], "type": [int(v) for v in t.type()],
            "file": int(round(float(t.y()[0]))), "extra": {k: [float(v) for v in nd[k]] for k in sorted(nd) if k not in STD_COLS},
            "comments": [str(c) for c in t.comments]}


class OptionSuite(Suite):
    """Populations built with reader options (`Population.from_swc(root, **kwargs)`, `from_eswc`, `Populations.from_swc(roots, **kwargs)`) on files for which the
    option matters, reached by every route: index, negative index, slice, iteration, `map`, the chained population.  The i-th result of `map(fn)` is `fn` of the
    i-th tree — the tree that `pop[i]` returns — whatever the options."""
    name = "c19.options"
    case_timeout = 90
    repeat = 3
    OPTIONS = ["sort_nodes", "extra_cols", "eswc", "fix_roots", "encoding", "default"]
    ROUTES = ["map-first", "index-first", "iter-first"]

    @staticmethod
    def _table(rng, opt, marker):
        """rows [id, type, key, marker, z, r, pid, extra…] of one file; `key` (column x) identifies the node, `marker` (column y) the file"""
        n = rng.randint(3, 9)
        pids = gen.parents_sorted(rng, n, rng.choice(["chain", "random", "binary", "caterpillar"]))
        if opt == "fix_roots":          # a forest: a second (and third) root
            for j in sorted(rng.sample(range(1, n), rng.randint(1, 2))):
                pids[j] = -1
        off = rng.choice([1, 1, 0, 5, 100])
        rows = [[i + off, 1 if pids[i] == -1 else 3, i, marker, 0, 1, -1 if pids[i] == -1 else pids[i] + off] for i in range(n)]
        if opt == "sort_nodes":         # children written before their parents, ids in any order
            ids = rng.sample(range(off, off + 3 * n), n)
            rows = [[ids[i], r[1], r[2], r[3], r[4], r[5], -1 if pids[i] == -1 else ids[pids[i]]] for i, r in enumerate(rows)]
            first = rows[0]
            rest = rows[1:]
            rng.shuffle(rest)
            k = rng.randint(1, len(rest))
            rows = rest[:k] + [first] + rest[k:]
        ncol = {"extra_cols": rng.randint(1, 3), "eswc": 5}.get(opt, 0)
        for r in rows:
            r.extend(rng.randint(0, 40) for _ in range(ncol))
        return rows

    def cases(self, rng, tier, widen):
        out = []
        big = tier == "thorough" or widen
        for k in range(36 if big else 12):
            opt = self.OPTIONS[k % len(self.OPTIONS)]       # every option occurs; entry point and route rotate against it
            entry = "populations" if rng.random() < 0.4 else "population"
            route = self.ROUTES[(k + k // len(self.OPTIONS)) % len(self.ROUTES)]
            m = rng.choice([2, 3]) if entry == "populations" else 1
            n = rng.randint(2, 5)
            tables = [[self._table(rng, opt, 100 * j + i) for i in range(n)] for j in range(m)]
            opts, enc = {}, "utf-8"
            if opt == "sort_nodes":
                opts = {"sort_nodes": True}
            elif opt == "extra_cols":
                width = len(tables[0][0][0]) - 7
                tables = [[[r[:7 + width] + [0] * (7 + width - len(r)) for r in t] for t in mem] for mem in tables]
                opts = {"extra_cols": [rng.choice(["level", "w", "score", "label"]) + str(c) for c in range(width)]}
            elif opt == "fix_roots":
                opts = {"fix_roots": rng.choice(["somas", "nearest"])}
            elif opt == "encoding":
                enc = rng.choice(["utf-16", "utf-16", "latin-1", "utf-8-sig"])
                opts = {"encoding": rng.choice([enc, "detect"]) if enc.startswith("utf-16") else enc}
            out.append({"class": f"{opt}/{entry}/{route}", "opt": opt, "entry": entry, "route": route, "opts": opts, "file_encoding": enc, "tables": tables,
                        "comment": "".join(rng.choice("aeiouéüñçøß") for _ in range(rng.randint(3, 8))),
                        "workers": rng.choice([1, 2, 2, 3]), "verbose": rng.random() < 0.25, "member": rng.randrange(m),
                        "slice": [rng.choice([None, rng.randint(-n, n)]), rng.choice([None, rng.randint(-n, n)]), rng.choice([None, 1, 2, -1])]})
        return out

    def run(self, case):
        from swcgeom.core import Population, Populations

        tmp = tempfile.mkdtemp(prefix="c19o_")
        try:
            with warnings.catch_warnings():
                warnings.simplefilter("ignore")
                ext = ".eswc" if case["opt"] == "eswc" else ".swc"
                roots = []
                for j, mem in enumerate(case["tables"]):
                    d = os.path.join(tmp, f"r{j}")
                    os.makedirs(d)
                    for i, rows in enumerate(mem):
                        with open(os.path.join(d, f"t{i:03d}{ext}"), "w", encoding=case["file_encoding"]) as fh:
                            fh.write(f"# {case['comment']}\n" + "".join(" ".join(str(v) for v in r) + "\n" for r in rows))
                    roots.append(d)
                res = {"stages": {}}
                with ReadLog() as rl:
                    if case["entry"] == "population":
                        pop = (Population.from_eswc if ext == ".eswc" else Population.from_swc)(roots[0], **case["opts"])
                        pp = None
                    else:
                        pp = (Populations.from_eswc(roots, **case["opts"]) if ext == ".eswc" else Populations.from_swc(roots, **case["opts"]))
                        pop = pp.populations[case["member"]]
                    n = len(pop)
                    res["len"] = n
                    res["files"] = [100 * (case["member"] if pp is not None else 0) + int(os.path.splitext(os.path.basename(f))[0][1:]) for f in pop.trees.swcs]

                    def stage(name, f):
                        try:
                            res["stages"][name] = f()
                        except Exception as e:  # noqa: BLE001 - which route raised is part of the result
                            res["stages"][name] = {"raised": f"{type(e).__name__}: {str(e)[:200]}"}

                    def do_map():
                        with open(os.devnull, "w") as null, contextlib.redirect_stderr(null):
                            return list(pop.map(fingerprint, max_worker=case["workers"], verbose=case["verbose"]))

                    def do_slice():
                        sl = pop[slice(*case["slice"])]
                        return {"len": len(sl), "fps": [fingerprint(sl[i]) for i in range(len(sl))]}

                    routes = {"map": do_map, "index": lambda: [fingerprint(pop[i]) for i in range(n)], "iter": lambda: [fingerprint(t) for t in pop]}
                    first = case["route"].split("-")[0]
                    for name in [first] + [r for r in ("index", "iter", "map") if r != first]:
                        stage(name, routes[name])
                    stage("neg", lambda: [fingerprint(pop[i - n]) for i in range(n)])
                    stage("slice", do_slice)
                    if pp is not None:
                        def do_chain():
                            ch = pp.to_population()
                            with open(os.devnull, "w") as null, contextlib.redirect_stderr(null):
                                return {"len": len(ch), "map": list(ch.map(fingerprint, max_worker=case["workers"])), "iter": [fingerprint(t) for t in ch]}
                        stage("chain", do_chain)
                    res["reads"] = [os.path.relpath(f, tmp).replace(os.sep, "/") for f in rl.log]
            return res
        finally:
            shutil.rmtree(tmp, ignore_errors=True)

    def oracle(self, case, res):
        if not isinstance(res, dict):
            return [("malformed-output", f"run() returned {type(res).__name__}")]
        how = f"{'Population' if case['entry'] == 'population' else 'Populations'}.{'from_eswc' if case['opt'] == 'eswc' else 'from_swc'}(…, **{case['opts']})"
        if "exc" in res:
            return [("population-raises", f"{how}: {res['exc']}: {res.get('msg')}")]
        try:
            return self._oracle(case, res, how)[:3]
        except Exception as e:  # noqa: BLE001
            return [("malformed-output", f"{type(e).__name__}: {e} while judging {str(res)[:300]}")]

    @staticmethod
    def _edges(fp):
        key = fp["key"]
        return sorted((key[i], key[p]) for i, p in zip(fp["id"], fp["pid"]) if p != -1) if fp["id"] == list(range(len(key))) else None

    def _oracle(self, case, res, how):
        out = []
        st = res["stages"]
        mem = case["tables"][case["member"] if case["entry"] == "populations" else 0]
        n = len(mem)
        opts = f"max_worker={case['workers']}, verbose={case['verbose']}"
        for name in ("index", "iter", "neg", "slice", "map", "chain"):
            r = st.get(name)
            if isinstance(r, dict) and "raised" in r:
                out.append(("map-raises" if name == "map" else "population-raises",
                            f"{how}: {'map(' + opts + ')' if name == 'map' else name} raised {r['raised']} (route order {case['route']})"))
        if res["len"] != n or sorted(res["files"]) != [100 * (case["member"] if case["entry"] == "populations" else 0) + i for i in range(n)]:
            out.append(("len", f"{how}: {res['len']} trees (files #{res['files']}), the directory holds {n}"))
            return out
        idx = st.get("index")
        ok = lambda r: isinstance(r, list)
        if ok(idx):
            # index i is the tree of the i-th file, read the way the population was asked to read its files
            for i, fp in enumerate(idx):
                rows = mem[res["files"][i] % 100]
                if fp["file"] != res["files"][i] or sorted(fp["key"]) != sorted(r[2] for r in rows):
                    out.append(("wrong-tree", f"{how}: index {i} returned the tree of file #{fp['file']} with nodes {fp['key']}, the {i}-th file is #{res['files'][i]}")); break
                byid = {r[0]: r for r in rows}
                wanted = sorted((r[2], byid[r[6]][2]) for r in rows if r[6] != -1)
                got = self._edges(fp)
                bad = None
                if got is None or not set(wanted) <= set(got) or (case["opt"] != "fix_roots" and got != wanted):
                    bad = f"parent links {got} (node keys), the file has {wanted}"
                elif case["opt"] == "sort_nodes" and any(p >= j for j, p in enumerate(fp["pid"])):
                    bad = f"parents {fp['pid']}: sort_nodes=True was asked for, a parent does not precede its child"
                elif case["opt"] == "fix_roots" and fp["pid"].count(-1) != 1:
                    bad = f"parents {fp['pid']}: fix_roots={case['opts']['fix_roots']!r} was asked for, {fp['pid'].count(-1)} roots remain"
                elif case["opt"] in ("extra_cols", "eswc"):
                    cols = case["opts"].get("extra_cols", []) + (ESWC_EXTRA if case["opt"] == "eswc" else [])
                    bykey = {r[2]: r for r in rows}
                    want = {c: [float(bykey[k][7 + ci]) for k in fp["key"]] for ci, c in enumerate(cols)}
                    if fp["extra"] != want:
                        bad = f"extra columns {fp['extra']}, the file has {want}"
                elif case["opt"] == "encoding" and not any(case["comment"] in c for c in fp["comments"]):
                    bad = f"comments {fp['comments']}, the file ({case['file_encoding']}) has {case['comment']!r}"
                if bad:
                    out.append(("wrong-tree/reader-options", f"{how}: index {i} (file #{res['files'][i]}): {bad}")); break
            for name, key in (("iter", "iter-order"), ("neg", "wrong-tree")):
                if ok(st.get(name)) and st[name] != idx:
                    j = next((i for i, (a, b) in enumerate(zip(st[name], idx)) if a != b), min(len(st[name]), n))
                    out.append((key, f"{how}: {'iteration' if name == 'iter' else 'negative indices'} give at position {j} "
                                     f"{st[name][j] if j < len(st[name]) else None}, index {j} gives {idx[j] if j < n else None}"))
            sl = st.get("slice")
            if isinstance(sl, dict) and "fps" in sl:
                want = [idx[i] for i in range(*slice(*case["slice"]).indices(n))]
                if sl["len"] != len(want):
                    out.append(("slice-len", f"{how}: slice{tuple(case['slice'])} has length {sl['len']}, expected {len(want)}"))
                elif sl["fps"] != want:
                    out.append(("slice-wrong-tree", f"{how}: slice{tuple(case['slice'])} returned files {[f.get('file') for f in sl['fps']]}, expected {[f['file'] for f in want]} as the population returns them"))
            mp = st.get("map")
            if ok(mp):
                # one result per tree, in order: the i-th result is fn of the i-th tree
                if len(mp) != n:
                    out.append(("map-len", f"{how}: map({opts}) returned {len(mp)} results for {n} trees"))
                elif mp != idx:
                    j = next(i for i, (a, b) in enumerate(zip(mp, idx)) if a != b)
                    diff = sorted(k for k in idx[j] if not isinstance(mp[j], dict) or mp[j].get(k) != idx[j][k])
                    key = "map-order" if isinstance(mp[j], dict) and mp[j].get("file") != idx[j]["file"] else "map-result"
                    out.append((key, f"{how}: result {j} of map(fn, {opts}) is not fn(population[{j}]) (route order {case['route']}): they differ in {diff}: "
                                     f"map gives {({k: mp[j].get(k) for k in diff} if isinstance(mp[j], dict) else mp[j])}, fn(population[{j}]) = {({k: idx[j][k] for k in diff})}"))
            ch = st.get("chain")
            if isinstance(ch, dict) and "map" in ch:
                total = sum(len(m_) for m_ in case["tables"])
                if ch["len"] != total or len(ch["map"]) != total or len(ch["iter"]) != total:
                    out.append(("chain-len/to_population", f"{how}: chained length {ch['len']}, {len(ch['map'])} map results, {len(ch['iter'])} trees iterated; members have {total} files"))
                elif ch["map"] != ch["iter"]:
                    out.append(("map-result", f"{how}: map over the chained population is not fn of its trees in order: files {[f.get('file') for f in ch['map']]} vs {[f['file'] for f in ch['iter']]}"))
                else:
                    at = sum(len(m_) for m_ in case["tables"][:case["member"]])
                    if ch["iter"][at:at + n] != idx:
                        out.append(("chain-index/to_population", f"{how}: elements {at}…{at + n - 1} of the chained population are not the trees of member {case['member']}"))
        reads = res.get("reads", [])
        dups = sorted({f for f in reads if reads.count(f) > 1})
        if dups:
            out.append(("read-twice", f"{how}: files {dups} were read more than once (routes: {case['route']}, then the others, slice{tuple(case['slice'])}"
                                      f"{', chained population' if 'chain' in st else ''})"))
        return out

    def nontrivial(self, case, res):
        return case["opt"] != "default"


# ----------------------------------------------------------------------------- sequences of chaining / slicing / indexing operations over SEVERAL live objects

SEQ_SHAPES = ["nest-behind", "nest-first", "shared-member", "repeat-member", "slice-chain", "deep", "random"]


def seq_expected(case, bases):
    """contents of every object of a sequence case, from the description alone: object k < len(sizes) is directory k (its files in the order `bases[k]`),
    every constructing operation appends one object (chain = concatenation of its members in order, slice = Python slice of its source)"""
    objs = [list(b) for b in bases]
    for op in case["ops"]:
        if op["op"] == "chain":
            objs.append([m for i in op["of"] for m in objs[i]])
        elif op["op"] == "slice":
            a, b, c = op["sl"]
            objs.append(objs[op["on"]][a:b:c])
    return objs


class SequenceSuite(Suite):
    """Operation SEQUENCES with state carried between objects: populations are chained, the chains are chained again (in first / later position, the same
    chain in several later chains or twice in one), sliced and re-chained, and ALL objects stay in use: after every step earlier objects are asked again
    (len, index, negative index, iteration) and at the end every object is audited against the concatenation its description denotes."""
    name = "c19.sequence"
    case_timeout = 60

    @staticmethod
    def _script(rng, shape):
        nb = rng.randint(2, 4)
        sizes = [rng.choice([0, 1, 1, 2, 3, 5]) for _ in range(nb)]
        for k in rng.sample(range(nb), 2):          # at least two non-empty directories
            sizes[k] = sizes[k] or rng.randint(1, 4)
        lens, ops = list(sizes), []

        def use(ids):                                # earlier objects asked again between the constructing steps
            for i in ids:
                kind = rng.choice(["get", "get", "len", "iter"])
                if kind == "get":
                    ops.append({"op": "get", "on": i, "key": rng.randint(-lens[i] - 1, lens[i])})
                else:
                    ops.append({"op": kind, "on": i})

        def chain(of):
            ops.append({"op": "chain", "of": list(of), "how": rng.choice(["to_population", "to_population", "ChainTrees"])})
            lens.append(sum(lens[i] for i in of))
            use(rng.sample(of, rng.randint(0, min(2, len(of)))))
            return len(lens) - 1

        def cut(on):
            n = lens[on]
            sl = [rng.choice([None, rng.randint(-n - 1, n + 1)]), rng.choice([None, rng.randint(-n - 1, n + 1)]), rng.choice([None, None, 1, 2, -1])]
            ops.append({"op": "slice", "on": on, "sl": sl})
            lens.append(len(range(*slice(*sl).indices(n))))
            return len(lens) - 1

        base = lambda: rng.randrange(nb)
        full = lambda: rng.choice([k for k in range(nb) if sizes[k]])
        c1 = chain([base() for _ in range(rng.randint(2, 3))])
        if shape == "nest-behind":                   # a chain as a later member of another chain
            chain([full() if rng.random() < 0.8 else base()] + [base() for _ in range(rng.randint(0, 1))] + [c1] + [base() for _ in range(rng.randint(0, 1))])
        elif shape == "nest-first":
            chain([c1] + [base() for _ in range(rng.randint(1, 2))])
        elif shape == "shared-member":               # the same chain as a member of two later chains
            chain([base(), c1] if rng.random() < 0.5 else [c1, base()])
            chain([full(), c1, base()][:rng.randint(2, 3)])
        elif shape == "repeat-member":               # the same chain twice in one chain
            chain(([base()] if rng.random() < 0.5 else []) + [c1, c1])
        elif shape == "slice-chain":                 # a slice of a chain chained again, and sliced again
            s = cut(c1)
            c2 = chain([full(), s] if rng.random() < 0.6 else [s, base()])
            cut(c2)
        elif shape == "deep":                        # chain of chain of chain …
            c = c1
            for _ in range(rng.randint(2, 4)):
                c = chain([base(), c] if rng.random() < 0.6 else [c, base()])
        else:
            for _ in range(rng.randint(3, 6)):
                if rng.random() < 0.3:
                    cut(rng.randrange(len(lens)))
                else:
                    chain([rng.randrange(len(lens)) for _ in range(rng.randint(1, 3))])
        use(rng.sample(range(len(lens)), min(3, len(lens))))
        return {"class": f"seq-{shape}", "sizes": sizes, "ops": ops}

    def cases(self, rng, tier, widen):
        per = 6 if (tier == "thorough" or widen) else 2
        return [self._script(rng, shape) for shape in SEQ_SHAPES for _ in range(per)]

    def run(self, case):
        from swcgeom.core import Population, Populations
        from swcgeom.core.population import ChainTrees

        tmp = tempfile.mkdtemp(prefix="c19s_")
        ident = lambda t: int(round(float(t.x()[0])))

        def attempt(f):
            try:
                return f()
            except Exception as e:  # noqa: BLE001 - judged by the oracle
                return f"E:{type(e).__name__}"

        try:
            with warnings.catch_warnings():
                warnings.simplefilter("ignore")
                bases = []
                for k, n in enumerate(case["sizes"]):
                    d = os.path.join(tmp, f"d{k}")
                    write_dir(d, [f"t{i:03d}.swc" for i in range(n)], marker0=1000 * k)
                    bases.append([1000 * k + file_no(f) for f in Population.find_swcs(d)])
                lens = [len(e) for e in seq_expected(case, [range(n) for n in case["sizes"]])]
                with ReadLog() as rl:
                    objs = [attempt(lambda k=k: Population.from_swc(os.path.join(tmp, f"d{k}"))) for k in range(len(case["sizes"]))]
                    obs = []
                    for op in case["ops"]:
                        if op["op"] == "chain":
                            mem = [objs[i] for i in op["of"]]
                            if op["how"] == "ChainTrees":
                                objs.append(attempt(lambda: Population(ChainTrees([p.trees for p in mem]))))
                            else:
                                objs.append(attempt(lambda: Populations(mem).to_population()))
                            obs.append(objs[-1] if isinstance(objs[-1], str) else "ok")
                        elif op["op"] == "slice":
                            objs.append(attempt(lambda: Population(objs[op["on"]][slice(*op["sl"])])))
                            obs.append(objs[-1] if isinstance(objs[-1], str) else "ok")
                        elif op["op"] == "get":
                            obs.append(attempt(lambda: ident(objs[op["on"]][op["key"]])))
                        elif op["op"] == "len":
                            obs.append(attempt(lambda: int(len(objs[op["on"]]))))
                        else:
                            obs.append(attempt(lambda: [ident(t) for t in objs[op["on"]]]))
                    # every object that was built, asked at the end: length, every index from both ends (one beyond as well), iteration
                    audit = []
                    for o, n in zip(objs, lens):
                        if isinstance(o, str):
                            audit.append(None)
                            continue
                        audit.append({"len": attempt(lambda: int(len(o))), "gets": [attempt(lambda: ident(o[k])) for k in range(-n - 1, n + 1)],
                                      "iter": attempt(lambda: [ident(t) for t in o])})
                    cnt = {}
                    for f in rl.log:
                        cnt[f] = cnt.get(f, 0) + 1
                    twice = sorted(os.path.relpath(f, tmp) for f in cnt if cnt[f] > 1)
            return {"bases": bases, "obs": obs, "audit": audit, "read_twice": twice}
        finally:
            shutil.rmtree(tmp, ignore_errors=True)

    @staticmethod
    def _what(case, k):
        nb, j = len(case["sizes"]), len(case["sizes"])
        if k < nb:
            return f"directory {k}"
        for op in case["ops"]:
            if op["op"] in ("chain", "slice"):
                if j == k:
                    return f"object {k} = chain of objects {op['of']} ({op['how']})" if op["op"] == "chain" else f"object {k} = object {op['on']}[{op['sl']}]"
                j += 1
        return f"object {k}"

    def oracle(self, case, res):
        if not isinstance(res, dict) or "exc" in res:
            return [("sequence-raises", f"{res.get('exc')}: {res.get('msg')}" if isinstance(res, dict) else repr(res)[:200])]
        try:
            return self._oracle(case, res)[:3]
        except Exception as e:  # noqa: BLE001 - a malformed output is a finding, not a crash
            return [("sequence-malformed", f"{type(e).__name__}: {e}")]

    def _oracle(self, case, res):
        out, sizes = [], case["sizes"]
        for k, (b, n) in enumerate(zip(res["bases"], sizes)):
            if sorted(b) != [1000 * k + i for i in range(n)]:
                return [("sequence-files", f"find_swcs of directory {k} with {n} files gives {b}")]
        exp = seq_expected(case, res["bases"])
        ctx = f"sizes={sizes}, ops={case['ops']}"
        j = len(sizes)
        for op, o in zip(case["ops"], res["obs"]):
            if op["op"] in ("chain", "slice"):
                if o != "ok":
                    out.append((f"sequence-{op['op']}-raises", f"building {self._what(case, j)} raised {o} ({ctx})"))
                j += 1
                continue
            e = exp[op["on"]]
            if op["op"] == "get":
                want = e[op["key"]] if -len(e) <= op["key"] < len(e) else None
                if (want is None and not str(o).startswith("E:")) or (want is not None and o != want):
                    out.append(("sequence-index", f"{self._what(case, op['on'])}: [{op['key']}] gave {o}, it holds {e} ({ctx})"))
            elif op["op"] == "len" and o != len(e):
                out.append(("sequence-len", f"{self._what(case, op['on'])}: len gave {o}, it holds {len(e)} trees ({ctx})"))
            elif op["op"] == "iter" and o != e:
                out.append(("sequence-iter", f"{self._what(case, op['on'])}: iteration gave {o}, it holds {e} ({ctx})"))
        for k, (a, e) in enumerate(zip(res["audit"], exp)):
            if a is None:
                continue
            n = len(e)
            if a["len"] != n:
                out.append(("sequence-len", f"after the sequence, {self._what(case, k)} has len {a['len']}, it holds {n} trees {e} ({ctx})"))
            want = ["E"] + e + e + ["E"]              # keys -n-1 … n
            bad = [(key, g) for key, g, w in zip(range(-n - 1, n + 1), a["gets"], want) if (str(g).startswith("E:") if w != "E" else not str(g).startswith("E:")) or (w != "E" and g != w)]
            if bad or len(a["gets"]) != len(want):
                out.append(("sequence-index", f"after the sequence, {self._what(case, k)}: [{bad[0][0] if bad else '?'}] gives {bad[0][1] if bad else a['gets']}, it holds {e} ({ctx})"))
            if a["iter"] != e:
                out.append(("sequence-iter", f"after the sequence, {self._what(case, k)} iterates as {a['iter']}, it holds {e} ({ctx})"))
        if res["read_twice"]:
            out.append(("read-twice/sequence", f"files {res['read_twice'][:6]} were read more than once ({ctx})"))
        return out

    def nontrivial(self, case, res):
        nb = len(case["sizes"])
        return any(op["op"] == "chain" and any(i >= nb for i in op["of"]) for op in case["ops"])



class GenMapSuite(Suite):
    """`Population.find_swcs`, `Population.map` and `filter_population` as GENERATED from the source (Gen/AlgoPopMap.lean: `gfindswcs`, `gpopmap`,
    `gpopfilter`) against the real functions: the file list of a directory tree (names with several dots, hidden names, other extensions, nested and
    empty directories; `os.walk` and `os.path.relpath` results are sent as data, `posixpath.join` / `splitext` are re-implemented in the runner), the
    results of `map` in order with the files read (after some trees were already loaded), the filtered population (length, elements, reads)."""
    name = "c19.genmap"
    case_timeout = 60

    def cases(self, rng, tier, widen):
        out = []
        pool = ["a.swc", "b.eswc", "c.txt", ".swc", "d.x.swc", "e.swc.bak", "f.SWC", "noext", "..swc", "g.h.eswc", ".hid.swc", "h.", "i.swc"]
        for k in range(8):
            dirs = [""] + [rng.choice(["s", "t", "s/u", "e1", "t/v.swc"]) for _ in range(rng.randint(0, 3))]
            files = sorted({(d + "/" if d else "") + rng.choice(pool) for d in dirs for _ in range(rng.randint(0, 4))})
            out.append({"class": "genmap/find", "kind": "find", "dirs": sorted(set(dirs)), "files": files, "ext": rng.choice([".swc", ".swc", ".eswc", "", ".SWC"]),
                        "rel": k % 2 == 1})
        for n in (0, 1, 2, 4, 6):
            pre = [rng.randint(-n, n - 1) for _ in range(rng.randint(0, 2))] if n else []
            out.append({"class": f"genmap/map/n{n}", "kind": "map", "n": n, "pre": pre})
        for n in (0, 1, 3, 5, 7):
            for _ in range(2):
                out.append({"class": f"genmap/filter/n{n}", "kind": "filter", "n": n, "pre": [rng.randint(-n, n - 1) for _ in range(rng.randint(0, 2))] if n else [],
                            "keep": [int(rng.random() < 0.5) for _ in range(n)], "keys": [rng.randint(-n - 1, n) for _ in range(4)]})
        return out

    def run(self, case):
        from swcgeom.core import Population
        from swcgeom.core.population import filter_population

        tmp = tempfile.mkdtemp(prefix="c19g_")
        try:
            with warnings.catch_warnings():
                warnings.simplefilter("ignore")
                root = os.path.join(tmp, "r")
                if case["kind"] == "find":
                    for d in case["dirs"]:
                        os.makedirs(os.path.join(root, d), exist_ok=True)
                    for f in case["files"]:
                        os.makedirs(os.path.dirname(os.path.join(root, f)), exist_ok=True)
                        open(os.path.join(root, f), "w").close()
                    walk = [(r, os.path.relpath(r, root), list(fs)) for r, _, fs in os.walk(root)]
                    return {"root": root, "walk": walk, "found": Population.find_swcs(root, case["ext"], case["rel"])}
                n = case["n"]
                write_dir(root, [f"t{i:03d}.swc" for i in range(n)])
                with ReadLog() as rl:
                    pop = Population.from_swc(root)
                    pos = {file_no(f): i for i, f in enumerate(pop.trees.swcs)}
                    mark = lambda t: pos[int(round(float(t.x()[0])))]
                    for k in case["pre"]:
                        pop[k]
                    if case["kind"] == "map":
                        got = [pos[int(round(float(v)))] for v in pop.map(root_x, max_worker=1)]
                        return {"map": got, "reads": [pos[file_no(f)] for f in rl.log]}
                    q = filter_population(pop, lambda t: bool(case["keep"][mark(t)]))
                    elems = []
                    for k in case["keys"]:
                        try:
                            elems.append(str(mark(q[k])))
                        except IndexError:
                            elems.append("E")
                    return {"len": len(q), "elems": elems, "reads": [pos[file_no(f)] for f in rl.log]}
        finally:
            shutil.rmtree(tmp, ignore_errors=True)

    def lines(self, case, res):
        if not isinstance(res, dict) or "exc" in res:
            return []
        pre = ";".join(f"g:{k}" for k in case.get("pre", []))
        ints = lambda l: ",".join(str(int(x)) for x in l)
        if case["kind"] == "find":
            walk = ";".join(f"{r}|{rel}|{','.join(fs)}" for r, rel, fs in res["walk"])
            return [(f"gfindswcs root={res['root']} ext={case['ext']} rel={int(case['rel'])} walk={walk}", "|".join(res["found"]))]
        if case["kind"] == "map":
            return [(f"gpopmap n={case['n']} pre={pre} mul=1 add=0", f"{ints(res['map'])} / {ints(res['reads'])}")]
        return [(f"gpopfilter n={case['n']} pre={pre} keep={ints(case['keep'])} keys={ints(case['keys'])}",
                 f"{res['len']} ; {','.join(res['elems'])} / {ints(res['reads'])}")]

    def nontrivial(self, case, res):
        return case["kind"] == "find" and len(case["files"]) >= 2 or case.get("n", 0) >= 2


SUITES = [LazySuite(), ChainSuite(), MapSuite(), LayoutSuite(), OptionSuite(), SequenceSuite(), GenMapSuite()]
TECHNIQUE = ("Lean 4 theorems; _get_idx, LazyLoadingTrees.load/__getitem__/__len__, ChainTrees.__init__/__len__/__getitem__ and NestTrees.__getitem__ are TRANSLATED from "
             "population.py on every run (harness/translate_algo.py → Gen/AlgoPopulation.lean, file reads as a state-passing callback) and proved to compute what the models compute "
             "(RefinePop.*, C19.generated_chain_getitem, C19.generated_load_at_most_once: every history of index requests); the models: the lazy cache as a state machine (every operation history reads each file at most once and only files that were requested or the "
             "construction probe of file 0; index arithmetic incl. negative indices), the binary search of ChainTrees (invariant: returns the member and offset of "
             "the k-th element of the concatenation, empty members allowed; total length) + differential correspondence on operation scripts over real "
             "directories with reads observed (also directories of hundreds of files revisited after a full pass, several populations alive and used alternately, "
             "chained views over large members) + Population.map under every option with jobs of unequal duration + directory layouts with unusual names (glob / regex metacharacters, dot-names, blanks and non-ASCII, extra dots; in the root, above it, in sub-folders, in file names; roots spelled absolute / relative / with a trailing separator / with redundant separators / through `..`, also each root of one call in its own style, with the matched populations chained) judged against the files written + populations built with reader options (sort_nodes, extra_cols, from_eswc, fix_roots, encoding) reached by index, slice, iteration, map and the chained population + operation sequences over several live objects (chains chained again in first / later position, shared by or repeated in later chains, sliced and re-chained, nested several levels; every object asked again after each step and audited at the end) + direct oracle")
LEVEL_TEXT = ("Kernel-checked for every history of get / load / iterate / len operations: a file is read only when its slot is empty, so at most once, and only "
              "when requested (plus slot 0 at Population construction); get(k) returns file k (k+n for negative k) and raises outside [-n, n). Kernel-checked for "
              "every list of member lengths (zeros allowed): chained length = sum, and chain[k] is element k of the concatenation.")
LEVEL_NOTE = "Trusted: Lean kernel; the imperative translator and its semantics library Model/Py.lean (cross-checked by running the generated methods on the same scripts); the remaining glue (Population construction, slices, Populations matching, map) tied by correspondence; os.walk order, slice.indices, the process pool and Tree.from_swc itself are outside the model."
