"""C07 — re-rooting and concatenation preserve structure and geometry."""
import warnings

import numpy as np

from harness import gen
from harness.framework import Suite

PID = "C07"
TRANSLATE_ALGO = ["AlgoNode", "AlgoSort", "AlgoRedirect"]   # regenerated on every run from tree_utils.py (redirect_tree, _sort_tree), tree.py / node.py (node handles)
LEAN_MODS = ["SwcVerif.Props.C07", "SwcVerif.Props.C07Cat", "SwcVerif.Props.C07Gen"]
THEOREMS = [
    "C07.rootPath_spec", "C07.redirect_pids", "C07.redirect_edges", "C07.redirect_root", "C07.redirect_types", "C07.redirect_at_root",
    "C07.translate_coincides", "C07.cat_separate", "C07.cat_merged",
    "RefineRedirect.node_parent_spec", "RefineRedirect.while_path", "RefineRedirect.for2_loop", "RefineRedirect.sortTree_refines",
    "RefineRedirect.redirect_core", "C07.generated_parent", "C07.generated_redirect_eq_model", "C07.generated_redirect_root",
    "C07.generated_redirect_sorted", "C07.generated_redirect_sorted_eq_model",
    "C07.second_wfr", "C07.cat_separate_wfr", "C07.cat_separate_sorted", "Relabel.isTreeTable_map", "C07.sorted_wf_gen", "C07.cat_merged_sorted",
]
TRUSTED = ["hand-written models Model/Redirect.lean of redirect_tree / cat_tree (tied by the c07.redirect and c07.cat correspondence: parents, node identity, "
           "positions and types after the final sort compared exactly); the final sort is C05's model"]
ASSUMPTIONS = ["lattice coordinates: the junction test `norm < EPS` is `squared distance = 0` on exact integers",
               "numpy concatenate / pad / delete as list append / erase"]


def lattice(rng, n, shape, base=(0, 0, 0), key0=0.0):
    pids = gen.renumber_root0(rng, gen.parents_sorted(rng, n, shape))
    n = len(pids)
    pts = set()
    xyz = []
    while len(xyz) < n:
        c = (base[0] + rng.randint(-12, 12), base[1] + rng.randint(-12, 12), base[2] + rng.randint(-12, 12))
        if c not in pts:
            pts.add(c); xyz.append([float(v) for v in c])
    return {"n": n, "pids": pids, "types": [rng.choice([1, 1, 2, 3, 4])] + [rng.choice([2, 3, 4, 5]) for _ in range(n - 1)], "xyz": xyz,
            "r": [key0 + (i + 1) / 8 for i in range(n)]}


def shuffle_all(rng, t, key0=0.0):
    """the same tree under a numbering in which the root need not be node 0 (what `redirect_tree(…, sort=False)` returns)"""
    n = t["n"]
    perm = list(range(n)); rng.shuffle(perm)            # old -> new
    if n > 1 and perm[0] == 0:
        j = rng.randrange(1, n); perm[0], perm[j] = perm[j], perm[0]
    inv = [0] * n
    for o, w in enumerate(perm):
        inv[w] = o
    return {"n": n, "pids": [-1 if t["pids"][inv[w]] == -1 else perm[t["pids"][inv[w]]] for w in range(n)],
            "types": [t["types"][inv[w]] for w in range(n)], "xyz": [t["xyz"][inv[w]] for w in range(n)],
            "r": [key0 + (w + 1) / 8 for w in range(n)]}


def und_edges(pids):
    return sorted(tuple(sorted((i, p))) for i, p in enumerate(pids) if p >= 0)


class Redirect(Suite):
    name = "c07.redirect"

    def cases(self, rng, tier, widen):
        out = []
        big = tier == "thorough" or widen
        k = 0
        import itertools
        for n in range(1, 6 if big else 5):           # all (tree, node) pairs of small sorted trees
            for ps in itertools.product(*[range(i) for i in range(1, n)]):
                t = {"n": n, "pids": [-1] + list(ps), "types": [[1, 3, 4][len(ps) % 3]] + [2 + (i % 3) for i in range(1, n)],
                     "xyz": [[float(i), float(i * i % 5), 0.0] for i in range(n)], "r": [(i + 1) / 8 for i in range(n)]}
                for v in range(n):
                    out.append({"class": f"all-n{n}", "tree": t, "root": v, "sort": (v + n) % 2 == 0})
        for n in gen.sizes(tier, widen):
            for _ in range(2 if not big else 6):
                t = lattice(rng, n, gen.pick_shape(rng, k)); k += 1
                out.append({"class": "random", "tree": t, "root": rng.randrange(t["n"]), "sort": rng.random() < 0.5})
        # trees whose root is not node 0 (the library makes them itself: re-rooting with sort=False), re-rooted again — at node 0 too
        for n in [2, 3, 4, 6, 9] + ([20, 60] if big else []):
            for rep in range(3 if not big else 6):
                t = shuffle_all(rng, lattice(rng, n, gen.pick_shape(rng, k))); k += 1
                root = 0 if rep == 0 else rng.randrange(t["n"])
                out.append({"class": "root-elsewhere" + ("/at0" if root == 0 else ""), "tree": t, "root": root, "sort": rng.random() < 0.5})
        return out

    def run(self, case):
        from swcgeom.core.tree_utils import redirect_tree

        t = gen.make_tree(case["tree"])
        t.ndata["tag"] = (1000.0 + np.arange(case["tree"]["n"])).astype(np.float32)      # a per-node column beyond the seven standard ones
        before = {k: v.copy() for k, v in t.ndata.items()}
        y = redirect_tree(t, case["root"], sort=case["sort"])
        return {"pid": y.pid().tolist(), "id": y.id().tolist(), "type": y.type().tolist(), "r": [float(v) for v in y.r()],
                "tag": [float(v) for v in y.get_ndata("tag")] if "tag" in y.keys() else None,
                "xyz": y.xyz().astype(float).tolist(), "input_unchanged": bool(all(np.array_equal(before[k], t.ndata[k]) for k in before))}

    def lines(self, case, res):
        if "exc" in res:
            return []
        t = case["tree"]
        old = [int(round(v * 8)) - 1 for v in res["r"]]
        a = f"pids={gen.ints(t['pids'])} types={gen.ints(t['types'])} root={case['root']} sort={int(case['sort'])}"
        return [("redirect " + a, f"{gen.ints(res['pid'])} / {gen.ints(old)} / {gen.ints(res['type'])}"),
                # the definition GENERATED from the current source of redirect_tree / Tree.Node.parent / _sort_tree, run on the same input
                ("gredirect " + a, f"{gen.ints(res['id'])} / {gen.ints(res['pid'])} / {gen.ints(res['type'])}")]

    def oracle(self, case, res):
        t = case["tree"]
        n, pids, k = t["n"], t["pids"], case["root"]
        if "exc" in res:
            return [("redirect-raises", f"redirect_tree(pids={pids}, {k}) raised {res['exc']}: {res.get('msg')}")]
        out = []
        old = [int(round(v * 8)) - 1 for v in res["r"]]
        if sorted(old) != list(range(n)):
            return [("redirect-nodes", f"nodes after re-rooting {sorted(old)}")]
        if res["id"] != list(range(n)):
            out.append(("redirect-ids", "ids are not 0..n-1"))
        new_of = {o: j for j, o in enumerate(old)}
        # attributes: all kept, only the types of old and new root exchanged
        want_type = list(t["types"])
        r0 = pids.index(-1)
        want_type[k], want_type[r0] = t["types"][r0], t["types"][k]
        for j, o in enumerate(old):
            if res["xyz"][j] != [float(c) for c in t["xyz"][o]]:
                out.append(("redirect-attrs", f"position of node {o} changed")); break
            if res["type"][j] != want_type[o]:
                out.append(("redirect-types", f"type of old node {o} is {res['type'][j]}, expected {want_type[o]} (only old/new root exchanged)")); break
        if res.get("tag") != [1000.0 + o for o in old]:
            out.append(("redirect-attrs", f"the extra per-node column does not follow its nodes: {str(res.get('tag'))[:80]}, nodes are (old ids) {old[:10]}"))
        new_pids_old = [-1 if res["pid"][new_of[o]] == -1 else old[res["pid"][new_of[o]]] for o in range(n)]
        if und_edges(new_pids_old) != und_edges(pids):
            out.append(("redirect-edges", f"undirected edges changed: {und_edges(pids)} → {und_edges(new_pids_old)} (pids={pids}, new root {k})"))
        roots = [o for o in range(n) if new_pids_old[o] == -1]
        if roots != [k]:
            out.append(("redirect-root", f"roots after re-rooting at {k}: {roots}"))
        if gen.well_formed(res["id"], res["pid"]) is not None and case["sort"]:
            out.append(("redirect-not-wellformed", gen.well_formed(res["id"], res["pid"])))
        if case["sort"] and any(not (p < j) for j, p in enumerate(res["pid"])):
            out.append(("redirect-unsorted", "sort=True but a parent does not precede its child"))
        if not case["sort"] and old != list(range(n)):
            out.append(("redirect-nosort-moved", "sort=False but nodes changed position"))
        if not res["input_unchanged"]:
            out.append(("redirect-mutates-input", "redirect_tree modified its argument"))
        return out[:3]

    def nontrivial(self, case, res):
        return case["tree"]["n"] >= 3 and case["root"] != 0


class CatSuite(Suite):
    name = "c07.cat"

    def cases(self, rng, tier, widen):
        out = []
        big = tier == "thorough" or widen
        k = 0
        sizes = [1, 2, 3, 5, 8] + ([15, 40] if big else [])
        for n1 in sizes:
            for n2 in sizes:
                for _ in range(1 if not big else 2):
                    t1 = lattice(rng, n1, gen.pick_shape(rng, k)); k += 1
                    t2 = lattice(rng, n2, gen.pick_shape(rng, k), base=(40, 0, 0), key0=64.0); k += 1
                    if k % 4 == 1 and t2["n"] > 1:
                        t2 = shuffle_all(rng, t2, key0=64.0)      # second tree with its root somewhere else
                    a, b = rng.randrange(t1["n"]), rng.randrange(t2["n"])
                    if k % 4 == 1 and rng.random() < 0.5:
                        b = 0                                     # node 0 of such a tree is an ordinary node
                    translate = [True, False, True, False, False][(k // 2) % 5]
                    if not translate and (k // 2) % 5 != 3:       # coincident junction without translation (guaranteed share)
                        d = [t1["xyz"][a][i] - t2["xyz"][b][i] for i in range(3)]
                        t2 = dict(t2); t2["xyz"] = [[p[i] + d[i] for i in range(3)] for p in t2["xyz"]]
                    cls = f"{'translate' if translate else 'fixed'}/{'root2' if t2['pids'][b] == -1 else 'inner2'}"
                    if not translate and (k // 2) % 5 == 3 and rng.random() < 0.6:
                        # far from the origin, junction nodes a hair apart (1/128): close is not coincident
                        off = [float(rng.randint(1200, 2000)), float(rng.randint(1200, 2000)), float(rng.randint(-2000, -1200))]
                        t1 = dict(t1); t1["xyz"] = [[p[i] + off[i] for i in range(3)] for p in t1["xyz"]]
                        gap = [rng.choice([1 / 128, -1 / 128, 1 / 64]), 0.0, 0.0]
                        d = [t1["xyz"][a][i] + gap[i] - t2["xyz"][b][i] for i in range(3)]
                        t2 = dict(t2); t2["xyz"] = [[p[i] + d[i] for i in range(3)] for p in t2["xyz"]]
                        cls = "fixed-near-far/" + cls.split("/")[1]
                    case = {"class": cls, "t1": t1, "t2": t2, "n1": a, "n2": b, "translate": translate}
                    # how the caller spells its request: the `translate` keyword, the defaults (translate=True, node 0), positional
                    # node arguments, or the legacy keyword `no_move` that the library still maps onto the translate mode — the
                    # result is a function of the request, however (and however often in one process) it is spelled
                    sp = ["kw", "legacy", "kw", "legacy", "kw", "defaults", "legacy"][k % 7]
                    if sp == "defaults" and not (translate and a == 0 and b == 0):
                        sp = "kw"
                    if sp != "kw":
                        case["spelling"] = sp
                        case["class"] = cls + "/" + sp
                    out.append(case)
        return out

    def run(self, case):
        from swcgeom.core.tree_utils import cat_tree

        a, b = gen.make_tree(case["t1"]), gen.make_tree(case["t2"])
        a.ndata["tag"] = (1000.0 + np.arange(case["t1"]["n"])).astype(np.float32)
        b.ndata["tag"] = (5000.0 + np.arange(case["t2"]["n"])).astype(np.float32)
        before = [{k: v.copy() for k, v in t.ndata.items()} for t in (a, b)]
        sp = case.get("spelling", "kw")
        with warnings.catch_warnings():
            warnings.simplefilter("ignore")
            if sp == "legacy":
                y = cat_tree(a, b, node1=case["n1"], node2=case["n2"], no_move=not case["translate"])
            elif sp == "defaults":
                y = cat_tree(a, b)
            else:
                y = cat_tree(a, b, case["n1"], case["n2"], translate=case["translate"])
        return {"pid": y.pid().tolist(), "id": y.id().tolist(), "type": y.type().tolist(), "r": [float(v) for v in y.r()],
                "tag": [float(v) for v in y.get_ndata("tag")] if "tag" in y.keys() else None,
                "xyz": y.xyz().astype(float).tolist(),
                "inputs_unchanged": bool(all(np.array_equal(before[i][k], t.ndata[k]) for i, t in enumerate((a, b)) for k in before[i]))}

    def _src(self, case, res):
        """per new node: (tree, old id)"""
        out = []
        for v in res["r"]:
            out.append((2, int(round((v - 64.0) * 8)) - 1) if v > 60 else (1, int(round(v * 8)) - 1))
        return out

    def lines(self, case, res):
        if "exc" in res:
            return []
        t1, t2 = case["t1"], case["t2"]
        ns = t1["n"]
        pre = [o if s == 1 else o + ns for s, o in self._src(case, res)]
        col = lambda t, i: gen.ints([int(round(p[i] * 128)) for p in t["xyz"]])
        line = (f"cat p1={gen.ints(t1['pids'])} t1={gen.ints(t1['types'])} x1={col(t1, 0)} y1={col(t1, 1)} z1={col(t1, 2)} "
                f"p2={gen.ints(t2['pids'])} t2={gen.ints(t2['types'])} x2={col(t2, 0)} y2={col(t2, 1)} z2={col(t2, 2)} "
                f"n1={case['n1']} n2={case['n2']} tr={int(case['translate'])}")
        xs = lambda i: gen.ints([int(round(p[i] * 128)) for p in res["xyz"]])
        return [(line, f"{gen.ints(res['pid'])} / {gen.ints(pre)} / {xs(0)} / {xs(1)} / {xs(2)} / {gen.ints(res['type'])}")]

    def oracle(self, case, res):
        t1, t2, a, b = case["t1"], case["t2"], case["n1"], case["n2"]
        if "exc" in res:
            return [("cat-raises", f"cat_tree raised {res['exc']}: {res.get('msg')} (pids1={t1['pids']}, pids2={t2['pids']}, {a}, {b})")]
        out = []
        src = self._src(case, res)
        shift = [t1["xyz"][a][i] - t2["xyz"][b][i] for i in range(3)] if case["translate"] else [0.0, 0.0, 0.0]
        pos2 = [[p[i] + shift[i] for i in range(3)] for p in t2["xyz"]]
        merged = pos2[b] == t1["xyz"][a]
        want_nodes = [(1, i) for i in range(t1["n"])] + [(2, j) for j in range(t2["n"]) if not (merged and j == b)]
        if sorted(src) != sorted(want_nodes):
            return [("cat-nodes", f"result nodes {sorted(src)[:12]}…, expected tree1 ∪ tree2{' minus the merged junction' if merged else ''}")]
        if gen.well_formed(res["id"], res["pid"]) is not None:
            out.append(("cat-not-wellformed", gen.well_formed(res["id"], res["pid"])))
        new_of = {s: j for j, s in enumerate(src)}
        # tree1 unchanged; tree2 rigidly translated (types of its old root / node2 may be exchanged by the re-rooting)
        for j, (s, o) in enumerate(src):
            want = t1["xyz"][o] if s == 1 else pos2[o]
            if res["xyz"][j] != [float(c) for c in want]:
                out.append(("cat-positions", f"node {(s, o)} is at {res['xyz'][j]}, expected {want} (translate={case['translate']})")); break
            if s == 1 and res["type"][j] != t1["types"][o]:
                out.append(("cat-types", f"type of tree1 node {o} changed")); break
        if res.get("tag") != [(1000.0 if s_ == 1 else 5000.0) + o for s_, o in src]:
            out.append(("cat-attrs", f"the extra per-node column does not follow its nodes: {str(res.get('tag'))[:80]} for nodes {src[:8]}"))
        # edges: tree1's edges, tree2's undirected edges, the junction; nothing else
        E = set()
        for i, p in enumerate(t1["pids"]):
            if p >= 0:
                E.add(frozenset([(1, i), (1, p)]))
        J = (1, a) if merged else (2, b)
        for j, p in enumerate(t2["pids"]):
            if p >= 0:
                u = (1, a) if (merged and j == b) else (2, j)
                v = (1, a) if (merged and p == b) else (2, p)
                E.add(frozenset([u, v]))
        if not merged:
            E.add(frozenset([(1, a), (2, b)]))
        got = set()
        for j, p in enumerate(res["pid"]):
            if p >= 0:
                got.add(frozenset([src[j], src[p]]))
        if got != E:
            out.append(("cat-edges", f"edges differ: missing {[sorted(e) for e in E - got][:4]}, extra {[sorted(e) for e in got - E][:4]} "
                                     f"(pids1={t1['pids']}, pids2={t2['pids']}, node1={a}, node2={b}, merged={merged})"))
        # tree1's parent relation is kept as it is (it is not re-rooted)
        for i, p in enumerate(t1["pids"]):
            j = new_of[(1, i)]
            want = -1 if p == -1 else new_of[(1, p)]
            if res["pid"][j] != want:
                out.append(("cat-tree1-parents", f"tree1 node {i} hangs from {src[res['pid'][j]] if res['pid'][j] >= 0 else None}, was {p}")); break
        if not res["inputs_unchanged"]:
            out.append(("cat-mutates-input", "cat_tree modified an argument"))
        return out[:3]

    def nontrivial(self, case, res):
        return case["t1"]["n"] + case["t2"]["n"] >= 4


class PathSuite(Suite):
    """`transforms.path`: a root-to-tip path as a tree of its own, and reversed (re-rooted at its tip)"""
    name = "c07.path"

    def cases(self, rng, tier, widen):
        out = []
        k = 0
        for n in [2, 3, 5, 8, 13] + ([30] if tier == "thorough" or widen else []):
            for _ in range(2):
                t = lattice(rng, n, gen.pick_shape(rng, k)); k += 1
                out.append({"class": "path", "tree": t, "pick": rng.random()})
        return out

    def run(self, case):
        from swcgeom.transforms import PathReverser, PathToTree

        t = gen.make_tree(case["tree"])
        before = {k: v.copy() for k, v in t.ndata.items()}
        paths = t.get_paths()
        p = paths[int(case["pick"] * len(paths))]
        ids = [int(v) for v in p.get_ndata("id")]
        pt = PathToTree()(p.detach())
        rv = PathReverser()(t.get_paths()[int(case["pick"] * len(paths))].detach())
        return {"ids": ids, "pt": {"pid": pt.pid().tolist(), "xyz": pt.xyz().astype(float).tolist(), "type": pt.type().tolist(), "r": [float(v) for v in pt.r()]},
                "rv": {"xyz": np.asarray(rv.xyz()).astype(float).tolist(), "type": [int(v) for v in rv.type()], "r": [float(v) for v in rv.r()]},
                "input_unchanged": bool(all(np.array_equal(before[k], t.ndata[k]) for k in before))}

    def oracle(self, case, res):
        t = case["tree"]
        if "exc" in res:
            return [("path-transform-raises", f"{res['exc']}: {res.get('msg')}")]
        out = []
        ids = res["ids"]
        m = len(ids)
        xyz = [[float(c) for c in t["xyz"][i]] for i in ids]
        typ = [t["types"][i] for i in ids]
        rr = [float(np.float32(t["r"][i])) for i in ids]
        pt = res["pt"]
        if pt["pid"] != [-1] + list(range(m - 1)) or pt["xyz"] != xyz or pt["type"] != typ or pt["r"] != rr:
            out.append(("path-to-tree", f"PathToTree of the path {ids}: parents {pt['pid']}, the chain 0..{m - 1} with the path's attributes was expected"))
        rv = res["rv"]
        want_t = list(reversed(typ))
        if m >= 1:
            want_t[0], want_t[-1] = typ[0], typ[-1]        # only the two end types are exchanged by the re-rooting
        if rv["xyz"] != list(reversed(xyz)) or rv["r"] != list(reversed(rr)) or rv["type"] != want_t:
            out.append(("path-reversed", f"PathReverser of the path {ids}: positions {rv['xyz'][:3]}…, types {rv['type']}; expected the reversed path with the end types {typ[0]}, {typ[-1]} staying at the root / tip ends"))
        if not res["input_unchanged"]:
            out.append(("path-transform-mutates-input", "a path transform modified the tree the path came from"))
        return out

    def nontrivial(self, case, res):
        return len(res.get("ids", [])) >= 3


SUITES = [Redirect(), CatSuite(), PathSuite()]
TECHNIQUE = ("Lean 4 theorems about the models of redirect_tree (root-path reversal: undirected edges preserved, unique new root, only two types exchanged) and "
             "cat_tree (row-by-row characterisation of the concatenated table: tree1 embedded, tree2 shifted and rigidly translated, junction link or merge, no other "
             "edge) composed with C05's sort theorems + differential correspondence + independent edge-set / rigid-motion oracle")
LEVEL_TEXT = ("Kernel-checked: re-rooting reverses exactly the parent pointers on the root path (so the undirected edge set is unchanged), makes the requested "
              "node the only root and exchanges only the two root types; concatenation builds a table whose rows are tree1's rows unchanged, tree2's rows with ids "
              "shifted and positions translated by one common vector, and whose only new edge is the junction (or, for coincident junction nodes, the merged node's "
              "children re-hung and the duplicate row deleted); the final numbering is C05's relabelling. In both cases the concatenated table is proved to be a tree table "
              "rooted at tree1's root (for the merged case: with the gap the deleted junction row leaves in the ids), so the final sort provably succeeds and returns a "
              "well-formed sorted tree with |tree1|+|tree2| (merged: −1) nodes.")
LEVEL_NOTE = "Trusted: Lean kernel; hand-written models tied by correspondence (all (tree,node) pairs for n ≤ 4/5); numpy concatenate/delete; float32 translation exact on lattice inputs."
