"""C07 — re-rooting and concatenation preserve structure and geometry."""
import warnings

import numpy as np

from harness import gen
from harness.framework import Suite

PID = "C07"
TRANSLATE_ALGO = ["AlgoNode", "AlgoSort", "AlgoRedirect", "AlgoCat"]   # regenerated on every run from tree_utils.py (redirect_tree, _sort_tree, cat_tree), tree.py / node.py (node handles)
DRIVER_FILES = ["SwcVerif/Model/AlgoRunRedirect.lean", "SwcVerif/Model/AlgoRunCat.lean", "SwcVerif/Model/PyCat.lean"]
LEAN_MODS = ["SwcVerif.Props.C07", "SwcVerif.Props.C07Cat", "SwcVerif.Props.C07Gen", "SwcVerif.Props.C07CatGen"]
THEOREMS = [
    "C07.rootPath_spec", "C07.redirect_pids", "C07.redirect_edges", "C07.redirect_root", "C07.redirect_types", "C07.redirect_at_root",
    "C07.translate_coincides", "C07.cat_separate", "C07.cat_merged",
    "RefineRedirect.node_parent_spec", "RefineRedirect.while_path", "RefineRedirect.for2_loop", "RefineRedirect.sortTree_refines",
    "RefineRedirect.redirect_core", "C07.generated_parent", "C07.generated_redirect_eq_model", "C07.generated_redirect_root",
    "C07.generated_redirect_sorted", "C07.generated_redirect_sorted_eq_model",
    "C07.second_wfr", "C07.cat_separate_wfr", "C07.cat_separate_sorted", "Relabel.isTreeTable_map", "C07.sorted_wf_gen", "C07.cat_merged_sorted",
    # cat_tree as translated (Gen/AlgoCat.lean): the generated function = the model, and the model's theorems transported to it
    "RefineCat.delete_single", "RefineCat.for1_loop", "RefineCat.for2_loop", "RefineCat.sortTree6_refines", "RefineCat.cat_core_root",
    "RefineCat.cat_redirected", "RefineCat.cat_core", "RefineCat.cat_refines",
    "C07.catPre_shape", "C07.generated_cat_eq_model", "C07.generated_cat_separate_sorted", "C07.generated_cat_merged_sorted",
]
TRUSTED = ["hand-written models Model/Redirect.lean of redirect_tree / cat_tree (tied by the c07.redirect and c07.cat correspondence: parents, node identity, "
           "positions and types after the final sort compared exactly); the final sort is C05's model",
           "cat_tree is ALSO translated from the source (Gen/AlgoCat.lean) and proved equal to the model (RefineCat.cat_core / cat_refines, C07.generated_cat_*); "
           "trusted glue of that translation: harness/algo_specs/07_cattree.py (header) — columns id/pid/type/x/y/z, the two ndata loops per column, "
           "the junction test `norm < EPS` as `squared lattice distance = 0` (EPS read from the source, must be in (0, 1/128]), the legacy `no_move` absent"]
ASSUMPTIONS = ["lattice coordinates: the junction test `norm < EPS` is `squared distance = 0` on exact integers",
               "numpy concatenate / pad / delete as list append / erase"]


def lattice(rng, n, shape, base=(0, 0, 0), key0=0.0):
    pids = gen.renumber_root0(rng, gen.parents_sorted(rng, n, shape))
    n = len(pids)
    pts = set()
    xyz = []
    h = max(12, int(round(n ** (1 / 3))) + 1)          # box of at least 8 n lattice points (12 for every tree below 1300 nodes)
    while len(xyz) < n:
        c = (base[0] + rng.randint(-h, h), base[1] + rng.randint(-h, h), base[2] + rng.randint(-h, h))
        if c not in pts:
            pts.add(c); xyz.append([float(v) for v in c])
    return {"n": n, "pids": pids, "types": [rng.choice([1, 1, 2, 3, 4])] + [rng.choice([2, 3, 4, 5]) for _ in range(n - 1)], "xyz": xyz,
            "r": [key0 + (i + 1) / 8 for i in range(n)]}


def shuffle_all(rng, t, key0=0.0):
    """the same tree under a numbering in which the root need not be node 0 (what `redirect_tree(…, sort=False)` returns)"""
    n = t["n"]
    perm = list(range(n)); rng.shuffle(perm)            # old -> new
    if n > 1 and perm[0] == 0:
        j = rng.randrange(1, n); perm[0], perm[j] = perm[j], perm[0]
    inv = [0] * n
    for o, w in enumerate(perm):
        inv[w] = o
    return {"n": n, "pids": [-1 if t["pids"][inv[w]] == -1 else perm[t["pids"][inv[w]]] for w in range(n)],
            "types": [t["types"][inv[w]] for w in range(n)], "xyz": [t["xyz"][inv[w]] for w in range(n)],
            "r": [key0 + (w + 1) / 8 for w in range(n)]}


def coincide(rng, t, m, how="parent"):
    """the same tree with m zero-length segments: a non-root node moved exactly onto its parent (a branch point stored again as the
    first sample of a side branch, a resampled file that repeats a point) or, `how="any"`, onto some other node.  Nodes keep their
    identity (radius key); returns (tree, [(node, the node it now coincides with)])."""
    n = t["n"]
    xyz = [list(p) for p in t["xyz"]]
    pairs = []
    cand = [v for v in range(n) if t["pids"][v] >= 0]
    rng.shuffle(cand)
    # parents first, so that a chain of moved nodes ends up on one point
    depth = {}
    for v in cand:
        d, j = 0, v
        while t["pids"][j] >= 0:
            j = t["pids"][j]; d += 1
        depth[v] = d
    for v in sorted(cand[:m], key=lambda v: depth[v]):
        w = t["pids"][v] if how == "parent" or n < 3 else rng.choice([u for u in range(n) if u != v])
        xyz[v] = list(xyz[w]); pairs.append((v, w))
    out = dict(t); out["xyz"] = xyz
    return out, pairs


# extra per-node columns (ESWC: level, feature_value, …; any keyword column of Tree(...)): the two trees of a concatenation need not store the
# same column with the same dtype — integer labels in one file, fractional scores in the other, a mask against a count.  (dtype of tree1,
# dtype of tree2 | None = tree2 does not have the column); the rota guarantees every kind in every run
EXTRA_NAMES = ["level", "feature_value", "score", "label", "mask"]
EXTRA_DTYPES = [("int64", "float64"), ("float32", "float32"), ("bool", "int64"), ("float64", "int32"), ("int32", "float32"), ("int32", None),
                ("float32", "float64"), ("uint8", "int16"), ("int64", "bool"), ("bool", "float32"), ("int8", "int32"), ("int64", "int64"),
                ("int16", "float64"), ("float64", None), ("float64", "float32")]


def extra_kind(d1, d2):
    if d2 is None:
        return "absent2"
    if d1 == d2:
        return "same"
    r = np.result_type(np.dtype(d1), np.dtype(d2))
    return "narrower1" if r != np.dtype(d1) else "wider1"


def extra_values(rng, dtype, n):
    """n values that need the dtype: fractions for floats (float64: more digits than a float32 holds), the full range for integers"""
    if dtype == "bool":
        return [rng.random() < 0.5 for _ in range(n)]
    if dtype == "float32":
        return [rng.randint(-4000, 4000) / 8 + rng.choice([0.125, 0.25, 0.375, 0.75]) for _ in range(n)]
    if dtype == "float64":
        return [rng.randint(-4000, 4000) + rng.randrange(1, 2 ** 40) / 2 ** 40 for _ in range(n)]
    bits = min(np.dtype(dtype).itemsize * 8, 48)       # every value exact as a float64 too
    lo, hi = (0, 2 ** bits - 1) if dtype.startswith("u") else (-2 ** (bits - 1), 2 ** (bits - 1) - 1)
    return [rng.choice([lo, hi, rng.randint(lo, hi), rng.randint(lo, hi), rng.randint(-3, 3) if lo < 0 else rng.randint(0, 3)]) for _ in range(n)]


# node counts at which the arithmetic on ids changes its regime: n itself, or a product id * n, leaves an 8 / 15 / 16 / 31 / 32 bit integer
# (the library keeps id / pid as int32, keys such as `pid * n + position` are a natural way to group or sort nodes)
def size_steps():
    import math
    return sorted({2 ** b for b in (8, 15, 16)} | {math.isqrt(2 ** b - 1) + 1 for b in (15, 16, 31, 32)})      # 182, 256, 32768, 46341, 65536


def past(rng, step, just=False):
    """a node count clearly past the step (by 1/32 … 1/8 of it), or just past it"""
    return step + (rng.randint(1, 16) if just else rng.randint(max(2, step // 32), max(3, step // 8)))


# large cases are stored as the parameters of their generator; the description goes into the case, so that a replay file explains itself
# (and, the framework reporting the finding with the shortest case, a failing small explicit tree is preferred to a failing large one)
BIG_HOW = ("large tree, given by the parameters of its seeded generator instead of its rows: harness.props.c07.build(spec) = "
           "lattice(random.Random('c07/<seed>'), n, shape, base, key0), then shuffle_all(...) if 'shuffle' (root not at node 0); ids are positions, "
           "node i carries the radius key0 + (i+1)/8 (its identity in the result), distinct integer lattice positions, the extra column tag; "
           "not sent to the Lean model driver, judged by the oracle only")
BIG_SHAPES = ["random", "caterpillar", "binary", "stem", "highdeg", "chain"]
_built = {}


def build(spec, key0=0.0):
    """a tree of a case: given explicitly, or (large trees) as the parameters of its seeded generator"""
    if "pids" in spec:
        return spec
    key = repr(sorted(spec.items()))
    if key not in _built:
        if len(_built) > 6:
            _built.clear()
        import random
        rng = random.Random(f"c07/{spec['seed']}")
        t = lattice(rng, spec["n"], spec["shape"], base=tuple(spec.get("base", (0, 0, 0))), key0=spec.get("key0", 0.0))
        if spec.get("shuffle"):
            t = shuffle_all(rng, t, key0=spec.get("key0", 0.0))
        if spec.get("dups"):
            t, _ = coincide(rng, t, spec["dups"])
        _built[key] = t
    return _built[key]


def well_formed(ids, pids):
    """gen.well_formed (ids = positions, node 0 the only root, parents exist, every node reaches the root) in linear time"""
    n = len(ids)
    if list(ids) != list(range(n)):
        return "ids are not 0..n-1"
    if n == 0:
        return "empty"
    if len(pids) != n:
        return f"{len(pids)} parents for {n} nodes"
    if pids[0] != -1:
        return "node 0 is not a root"
    for i in range(1, n):
        if not (isinstance(pids[i], int) and 0 <= pids[i] < n):
            return f"parent of {i} is {pids[i]}"
    state = [0] * n                                   # 1 reaches the root, 2 does not
    state[0] = 1
    for i in range(n):
        path, j = [], i
        while state[j] == 0:
            state[j] = 3; path.append(j); j = pids[j]
        ok = 1 if state[j] == 1 else 2
        for v in path:
            state[v] = ok
        if state[i] == 2:
            return f"node {i} does not reach the root"
    return None


def same_len(res, keys):
    """the per-node columns of a result all have one length (None: a column is missing / not a list)"""
    ls = set()
    for k in keys:
        if not isinstance(res.get(k), list):
            return None
        ls.add(len(res[k]))
    return ls.pop() if len(ls) == 1 else None


def und_edges(pids):
    return sorted(tuple(sorted((i, p))) for i, p in enumerate(pids) if p >= 0)


class Redirect(Suite):
    name = "c07.redirect"

    def cases(self, rng, tier, widen):
        out = []
        big = tier == "thorough" or widen
        k = 0
        import itertools
        for n in range(1, 6 if big else 5):           # all (tree, node) pairs of small sorted trees
            for ps in itertools.product(*[range(i) for i in range(1, n)]):
                t = {"n": n, "pids": [-1] + list(ps), "types": [[1, 3, 4][len(ps) % 3]] + [2 + (i % 3) for i in range(1, n)],
                     "xyz": [[float(i), float(i * i % 5), 0.0] for i in range(n)], "r": [(i + 1) / 8 for i in range(n)]}
                for v in range(n):
                    out.append({"class": f"all-n{n}", "tree": t, "root": v, "sort": (v + n) % 2 == 0})
        for n in gen.sizes(tier, widen):
            for _ in range(2 if not big else 6):
                t = lattice(rng, n, gen.pick_shape(rng, k)); k += 1
                out.append({"class": "random", "tree": t, "root": rng.randrange(t["n"]), "sort": rng.random() < 0.5})
        # trees whose root is not node 0 (the library makes them itself: re-rooting with sort=False), re-rooted again — at node 0 too
        for n in [2, 3, 4, 6, 9] + ([20, 60] if big else []):
            for rep in range(3 if not big else 6):
                t = shuffle_all(rng, lattice(rng, n, gen.pick_shape(rng, k))); k += 1
                root = 0 if rep == 0 else rng.randrange(t["n"])
                out.append({"class": "root-elsewhere" + ("/at0" if root == 0 else ""), "tree": t, "root": root, "sort": rng.random() < 0.5})
        # zero-length segments: nodes stored at exactly the position of their parent (or of another node); re-rooted at such a node too
        for n in [2, 3, 5, 8] + ([20, 60] if big else []):
            for rep in range(2 if not big else 4):
                t = lattice(rng, n, gen.pick_shape(rng, k)); k += 1
                if t["n"] < 2:
                    t = lattice(rng, n, "random")
                t, pairs = coincide(rng, t, rng.randint(1, max(1, t["n"] // 2)), "parent" if rep % 2 == 0 else "any")
                v, w = rng.choice(pairs)
                out.append({"class": "zero-length", "tree": t, "root": rng.choice([v, w, rng.randrange(t["n"])]), "sort": rep % 2 == 0})
        # node counts just past the steps at which ids, or products of ids with the node count, outgrow an integer width
        for step in size_steps():
            for rep in range(1 if not big else 2):
                n = past(rng, step, just=rep == 1)
                spec = {"n": n, "shape": rng.choice(BIG_SHAPES), "seed": rng.randrange(2 ** 30), "shuffle": k % 3 == 0}; k += 1
                case = {"class": f"size>{step}", "tree": spec if n > 400 else build(spec), "root": rng.randrange(n),
                        "sort": rep == 0 and (big or step < 2 ** 16)}      # quick tier: the renumbering of the largest step is left out (time)
                if n > 400:
                    case["big"] = True
                    case["how"] = BIG_HOW
                out.append(case)
        return out

    def run(self, case):
        from swcgeom.core.tree_utils import redirect_tree

        tree = build(case["tree"])
        t = gen.make_tree(tree)
        t.ndata["tag"] = (1000.0 + np.arange(tree["n"])).astype(np.float32)      # a per-node column beyond the seven standard ones
        before = {k: v.copy() for k, v in t.ndata.items()}
        y = redirect_tree(t, case["root"], sort=case["sort"])
        return {"pid": y.pid().tolist(), "id": y.id().tolist(), "type": y.type().tolist(), "r": [float(v) for v in y.r()],
                "tag": [float(v) for v in y.get_ndata("tag")] if "tag" in y.keys() else None,
                "xyz": y.xyz().astype(float).tolist(), "input_unchanged": bool(all(np.array_equal(before[k], t.ndata[k]) for k in before))}

    def lines(self, case, res):
        if "exc" in res or case.get("big"):
            return []
        t = case["tree"]
        old = [int(round(v * 8)) - 1 for v in res["r"]]
        a = f"pids={gen.ints(t['pids'])} types={gen.ints(t['types'])} root={case['root']} sort={int(case['sort'])}"
        return [("redirect " + a, f"{gen.ints(res['pid'])} / {gen.ints(old)} / {gen.ints(res['type'])}"),
                # the definition GENERATED from the current source of redirect_tree / Tree.Node.parent / _sort_tree, run on the same input
                ("gredirect " + a, f"{gen.ints(res['id'])} / {gen.ints(res['pid'])} / {gen.ints(res['type'])}")]

    def oracle(self, case, res):
        try:
            return self._oracle(case, res)
        except Exception as e:  # noqa: BLE001 - an output the clauses below cannot even be evaluated on
            return [("redirect-malformed-output", f"the result of redirect_tree cannot be read as a tree: {type(e).__name__}: {str(e)[:200]}")]

    def _oracle(self, case, res):
        t = build(case["tree"])
        n, pids, k = t["n"], t["pids"], case["root"]
        what = f"pids={pids}" if n <= 60 else f"a {case['tree'].get('shape', '')} tree of {n} nodes"
        if not isinstance(res, dict):
            return [("redirect-malformed-output", f"result {str(res)[:80]}")]
        if "exc" in res:
            return [("redirect-raises", f"redirect_tree({what}, {k}) raised {res['exc']}: {res.get('msg')}")]
        out = []
        if same_len(res, ["pid", "id", "type", "r", "xyz"]) is None:
            return [("redirect-malformed-output", "the per-node columns of the result differ in length: " +
                     ", ".join(f"{c}: {len(res[c]) if isinstance(res.get(c), list) else res.get(c)}" for c in ["pid", "id", "type", "r", "xyz"]))]
        old = [int(round(v * 8)) - 1 for v in res["r"]]
        if sorted(old) != list(range(n)):
            return [("redirect-nodes", f"nodes after re-rooting {str(sorted(old))[:200]} ({len(old)} of {n})")]
        if res["id"] != list(range(n)):
            out.append(("redirect-ids", "ids are not 0..n-1"))
        new_of = {o: j for j, o in enumerate(old)}
        # attributes: all kept, only the types of old and new root exchanged
        want_type = list(t["types"])
        r0 = pids.index(-1)
        want_type[k], want_type[r0] = t["types"][r0], t["types"][k]
        for j, o in enumerate(old):
            if res["xyz"][j] != [float(c) for c in t["xyz"][o]]:
                out.append(("redirect-attrs", f"position of node {o} changed")); break
            if res["type"][j] != want_type[o]:
                out.append(("redirect-types", f"type of old node {o} is {res['type'][j]}, expected {want_type[o]} (only old/new root exchanged)")); break
        if res.get("tag") != [1000.0 + o for o in old]:
            out.append(("redirect-attrs", f"the extra per-node column does not follow its nodes: {str(res.get('tag'))[:80]}, nodes are (old ids) {old[:10]}"))
        new_pids_old = [-1 if res["pid"][new_of[o]] == -1 else old[res["pid"][new_of[o]]] for o in range(n)]
        if und_edges(new_pids_old) != und_edges(pids):
            a_, b_ = set(und_edges(pids)), set(und_edges(new_pids_old))
            out.append(("redirect-edges", f"undirected edges changed: lost {sorted(a_ - b_)[:6]}, added {sorted(b_ - a_)[:6]} ({what}, new root {k})"))
        roots = [o for o in range(n) if new_pids_old[o] == -1]
        if roots != [k]:
            out.append(("redirect-root", f"roots after re-rooting at {k}: {roots}"))
        if case["sort"] and well_formed(res["id"], res["pid"]) is not None:
            out.append(("redirect-not-wellformed", well_formed(res["id"], res["pid"])))
        if case["sort"] and any(not (p < j) for j, p in enumerate(res["pid"])):
            out.append(("redirect-unsorted", "sort=True but a parent does not precede its child"))
        if not case["sort"] and old != list(range(n)):
            out.append(("redirect-nosort-moved", "sort=False but nodes changed position"))
        if not res["input_unchanged"]:
            out.append(("redirect-mutates-input", "redirect_tree modified its argument"))
        return out[:3]

    def nontrivial(self, case, res):
        return case["tree"]["n"] >= 3 and case["root"] != 0


class CatSuite(Suite):
    name = "c07.cat"

    def cases(self, rng, tier, widen):
        out = []
        big = tier == "thorough" or widen
        k = 0
        sizes = [1, 2, 3, 5, 8] + ([15, 40] if big else [])
        for n1 in sizes:
            for n2 in sizes:
                for _ in range(1 if not big else 2):
                    t1 = lattice(rng, n1, gen.pick_shape(rng, k)); k += 1
                    t2 = lattice(rng, n2, gen.pick_shape(rng, k), base=(40, 0, 0), key0=64.0); k += 1
                    if k % 4 == 1 and t2["n"] > 1:
                        t2 = shuffle_all(rng, t2, key0=64.0)      # second tree with its root somewhere else
                    a, b = rng.randrange(t1["n"]), rng.randrange(t2["n"])
                    if k % 4 == 1 and rng.random() < 0.5:
                        b = 0                                     # node 0 of such a tree is an ordinary node
                    translate = [True, False, True, False, False][(k // 2) % 5]
                    if not translate and (k // 2) % 5 != 3:       # coincident junction without translation (guaranteed share)
                        d = [t1["xyz"][a][i] - t2["xyz"][b][i] for i in range(3)]
                        t2 = dict(t2); t2["xyz"] = [[p[i] + d[i] for i in range(3)] for p in t2["xyz"]]
                    cls = f"{'translate' if translate else 'fixed'}/{'root2' if t2['pids'][b] == -1 else 'inner2'}"
                    if not translate and (k // 2) % 5 == 3 and rng.random() < 0.6:
                        # far from the origin, junction nodes a hair apart (1/128): close is not coincident
                        off = [float(rng.randint(1200, 2000)), float(rng.randint(1200, 2000)), float(rng.randint(-2000, -1200))]
                        t1 = dict(t1); t1["xyz"] = [[p[i] + off[i] for i in range(3)] for p in t1["xyz"]]
                        gap = [rng.choice([1 / 128, -1 / 128, 1 / 64]), 0.0, 0.0]
                        d = [t1["xyz"][a][i] + gap[i] - t2["xyz"][b][i] for i in range(3)]
                        t2 = dict(t2); t2["xyz"] = [[p[i] + d[i] for i in range(3)] for p in t2["xyz"]]
                        cls = "fixed-near-far/" + cls.split("/")[1]
                    case = {"class": cls, "t1": t1, "t2": t2, "n1": a, "n2": b, "translate": translate}
                    # how the caller spells its request: the `translate` keyword, the defaults (translate=True, node 0), positional
                    # node arguments, or the legacy keyword `no_move` that the library still maps onto the translate mode — the
                    # result is a function of the request, however (and however often in one process) it is spelled
                    sp = ["kw", "legacy", "kw", "legacy", "kw", "defaults", "legacy"][k % 7]
                    if sp == "defaults" and not (translate and a == 0 and b == 0):
                        sp = "kw"
                    if sp != "kw":
                        case["spelling"] = sp
                        case["class"] = cls + "/" + sp
                    out.append(case)
        # zero-length segments: a tree in which a node lies exactly on its parent (a branch point stored again as the first sample of a
        # side branch) or on another node; the junction is such a parent, such a child, or any node — in tree1, in tree2, in both
        zsizes = [2, 3, 5, 8] + ([15, 40] if big else [])
        z = c1 = c2 = 0
        for i, n1 in enumerate(zsizes):
            for j, n2 in enumerate(zsizes):
                for rep in range(1 if not big else 2):
                    where, mode = ["t1", "t2", "t1", "both"][z % 4], ["translate", "fixed-touching", "fixed"][z % 3]; z += 1
                    t1 = lattice(rng, n1, gen.pick_shape(rng, k)); k += 1
                    t2 = lattice(rng, n2, gen.pick_shape(rng, k), base=(40, 0, 0), key0=64.0); k += 1
                    a, b, at = rng.randrange(t1["n"]), rng.randrange(t2["n"]), "elsewhere"
                    if where in ("t1", "both") and t1["n"] > 1:
                        t1, pairs = coincide(rng, t1, rng.randint(1, max(1, t1["n"] // 2)), "parent" if k % 3 else "any")
                        v, w = rng.choice(pairs)
                        a, at = [(w, "on-parent"), (v, "on-child"), (w, "on-parent"), (a, "elsewhere")][c1 % 4]; c1 += 1      # guaranteed shares
                    if where in ("t2", "both") and t2["n"] > 1:
                        t2, pairs = coincide(rng, t2, rng.randint(1, max(1, t2["n"] // 2)), "parent" if k % 3 else "any")
                        v, w = rng.choice(pairs)
                        if where == "t2":
                            b, at = [(w, "on-parent"), (v, "on-child"), (b, "elsewhere")][c2 % 3]; c2 += 1
                    tj, vj = (t2, b) if where == "t2" else (t1, a)    # the class says where the junction really is
                    at = ("on-parent" if any(p == vj and tj["xyz"][c] == tj["xyz"][vj] for c, p in enumerate(tj["pids"])) else
                          "on-child" if tj["pids"][vj] >= 0 and tj["xyz"][tj["pids"][vj]] == tj["xyz"][vj] else "elsewhere")
                    if mode == "fixed-touching":                      # junction nodes coincide without translation
                        d = [t1["xyz"][a][c] - t2["xyz"][b][c] for c in range(3)]
                        t2 = dict(t2); t2["xyz"] = [[p[c] + d[c] for c in range(3)] for p in t2["xyz"]]
                    out.append({"class": f"zero-length/{where}/{at}/{mode}", "t1": t1, "t2": t2, "n1": a, "n2": b, "translate": mode == "translate"})
        # node counts of the RESULT just past the steps at which ids, or products of ids with the node count, outgrow an integer width
        for step in size_steps():
            if step in (2 ** 15, 2 ** 16) and not big:
                continue                                               # quick tier: these steps are taken by c07.redirect only (time)
            for rep in range(1 if not big else 2):
                n = past(rng, step, just=rep == 1)
                n1 = rng.randint(max(1, n // 4), max(1, 3 * n // 4))
                n2 = n + 1 - n1                                        # one more: the junction node may be merged away
                key0 = 64.0 if n1 <= 400 else float(2 ** (n1.bit_length() + 1)) / 8
                s1 = {"n": n1, "shape": rng.choice(BIG_SHAPES), "seed": rng.randrange(2 ** 30)}; k += 1
                s2 = {"n": n2, "shape": rng.choice(BIG_SHAPES), "seed": rng.randrange(2 ** 30), "base": [40, 0, 0], "key0": key0,
                      "shuffle": k % 2 == 0}; k += 1
                translate = rng.random() < 0.5
                case = {"class": f"size>{step}/{'translate' if translate else 'fixed'}", "t1": s1 if n > 400 else build(s1), "t2": s2 if n > 400 else build(s2),
                        "n1": rng.randrange(n1), "n2": rng.randrange(n2), "translate": translate, "key0": key0}
                if n > 400:
                    case["big"] = True
                    case["how"] = BIG_HOW
                out.append(case)
        # extra per-node columns whose dtype differs between the two trees (or that tree2 lacks): the copy of tree2 keeps tree2's values
        esizes = [1, 2, 3, 5, 8] + ([15, 40] if big else [])
        rota = list(EXTRA_DTYPES); rng.shuffle(rota)
        for e in range(len(rota) * (2 if big else 1)):
            t1 = lattice(rng, rng.choice(esizes), gen.pick_shape(rng, k)); k += 1
            t2 = lattice(rng, rng.choice(esizes[1:]), gen.pick_shape(rng, k), base=(40, 0, 0), key0=64.0); k += 1
            if e % 3 == 2:
                t2 = shuffle_all(rng, t2, key0=64.0)
            a, b = rng.randrange(t1["n"]), rng.randrange(t2["n"])
            mode = ["translate", "fixed", "fixed-touching"][e % 3]
            if mode == "fixed-touching":
                d = [t1["xyz"][a][c] - t2["xyz"][b][c] for c in range(3)]
                t2 = dict(t2); t2["xyz"] = [[p[c] + d[c] for c in range(3)] for p in t2["xyz"]]
            cols = []
            for c, (d1, d2) in enumerate([rota[e % len(rota)]] + ([rng.choice(EXTRA_DTYPES)] if rng.random() < 0.4 else [])):
                cols.append({"name": rng.choice(EXTRA_NAMES) + ("" if c == 0 else "_2"), "d1": d1, "v1": extra_values(rng, d1, t1["n"]),
                             "d2": d2, "v2": None if d2 is None else extra_values(rng, d2, t2["n"])})
            d1, d2 = rota[e % len(rota)]
            out.append({"class": f"extra-column/{extra_kind(d1, d2)}/{d1}+{d2}/{mode}", "t1": t1, "t2": t2, "n1": a, "n2": b,
                        "translate": mode == "translate", "extra": cols})
        return out

    def run(self, case):
        from swcgeom.core.tree_utils import cat_tree

        t1, t2 = build(case["t1"]), build(case["t2"])
        a, b = gen.make_tree(t1), gen.make_tree(t2)
        a.ndata["tag"] = (1000.0 + np.arange(t1["n"])).astype(np.float32)
        b.ndata["tag"] = (5000.0 + np.arange(t2["n"])).astype(np.float32)
        for c in case.get("extra", []):
            a.ndata[c["name"]] = np.array(c["v1"], dtype=c["d1"])
            if c["d2"] is not None:
                b.ndata[c["name"]] = np.array(c["v2"], dtype=c["d2"])
        before = [{k: v.copy() for k, v in t.ndata.items()} for t in (a, b)]
        sp = case.get("spelling", "kw")
        with warnings.catch_warnings():
            warnings.simplefilter("ignore")
            if sp == "legacy":
                y = cat_tree(a, b, node1=case["n1"], node2=case["n2"], no_move=not case["translate"])
            elif sp == "defaults":
                y = cat_tree(a, b)
            else:
                y = cat_tree(a, b, case["n1"], case["n2"], translate=case["translate"])
        return {"pid": y.pid().tolist(), "id": y.id().tolist(), "type": y.type().tolist(), "r": [float(v) for v in y.r()],
                "tag": [float(v) for v in y.get_ndata("tag")] if "tag" in y.keys() else None,
                "xyz": y.xyz().astype(float).tolist(),
                "extra": {c["name"]: [float(v) for v in y.get_ndata(c["name"])] if c["name"] in y.keys() else None for c in case.get("extra", [])},
                "inputs_unchanged": bool(all(np.array_equal(before[i][k], t.ndata[k]) for i, t in enumerate((a, b)) for k in before[i]))}

    def _src(self, case, res):
        """per new node: (tree, old id)"""
        out = []
        key0 = case.get("key0", 64.0)                  # radii: tree1 (i+1)/8 ≤ key0 - 4, tree2 key0 + (j+1)/8
        for v in res["r"]:
            out.append((2, int(round((v - key0) * 8)) - 1) if v > key0 - 4 else (1, int(round(v * 8)) - 1))
        return out

    def lines(self, case, res):
        if "exc" in res or case.get("big"):
            return []
        t1, t2 = case["t1"], case["t2"]
        ns = t1["n"]
        pre = [o if s == 1 else o + ns for s, o in self._src(case, res)]
        col = lambda t, i: gen.ints([int(round(p[i] * 128)) for p in t["xyz"]])
        line = (f"cat p1={gen.ints(t1['pids'])} t1={gen.ints(t1['types'])} x1={col(t1, 0)} y1={col(t1, 1)} z1={col(t1, 2)} "
                f"p2={gen.ints(t2['pids'])} t2={gen.ints(t2['types'])} x2={col(t2, 0)} y2={col(t2, 1)} z2={col(t2, 2)} "
                f"n1={case['n1']} n2={case['n2']} tr={int(case['translate'])}")
        xs = lambda i: gen.ints([int(round(p[i] * 128)) for p in res["xyz"]])
        return [(line, f"{gen.ints(res['pid'])} / {gen.ints(pre)} / {xs(0)} / {xs(1)} / {xs(2)} / {gen.ints(res['type'])}"),
                # the definition GENERATED from the current source of cat_tree (with the generated redirect_tree / node handles / _sort_tree),
                # run on the same input: every column of the returned tree
                ("g" + line, f"{gen.ints(res['id'])} / {gen.ints(res['pid'])} / {xs(0)} / {xs(1)} / {xs(2)} / {gen.ints(res['type'])}")]

    def oracle(self, case, res):
        try:
            return self._oracle(case, res)
        except Exception as e:  # noqa: BLE001 - an output the clauses below cannot even be evaluated on
            return [("cat-malformed-output", f"the result of cat_tree cannot be read as a tree: {type(e).__name__}: {str(e)[:200]}")]

    def _oracle(self, case, res):
        t1, t2, a, b = build(case["t1"]), build(case["t2"]), case["n1"], case["n2"]
        what = (f"pids1={t1['pids']}, pids2={t2['pids']}" if t1["n"] + t2["n"] <= 100 else
                f"{case['t1'].get('shape', '')} tree1 of {t1['n']} nodes, {case['t2'].get('shape', '')} tree2 of {t2['n']} nodes") + f", node1={a}, node2={b}"
        if not isinstance(res, dict):
            return [("cat-malformed-output", f"result {str(res)[:80]}")]
        if "exc" in res:
            return [("cat-raises", f"cat_tree raised {res['exc']}: {res.get('msg')} ({what})")]
        out = []
        if same_len(res, ["pid", "id", "type", "r", "xyz"]) is None:
            return [("cat-malformed-output", "the per-node columns of the result differ in length: " +
                     ", ".join(f"{c}: {len(res[c]) if isinstance(res.get(c), list) else res.get(c)}" for c in ["pid", "id", "type", "r", "xyz"]))]
        src = self._src(case, res)
        shift = [t1["xyz"][a][i] - t2["xyz"][b][i] for i in range(3)] if case["translate"] else [0.0, 0.0, 0.0]
        pos2 = [[p[i] + shift[i] for i in range(3)] for p in t2["xyz"]]
        merged = pos2[b] == t1["xyz"][a]
        want_nodes = [(1, i) for i in range(t1["n"])] + [(2, j) for j in range(t2["n"]) if not (merged and j == b)]
        if sorted(src) != sorted(want_nodes):
            lost, extra = sorted(set(want_nodes) - set(src)), sorted(set(src) - set(want_nodes))
            return [("cat-nodes", f"result has {len(src)} nodes, expected tree1 ∪ tree2{' minus the merged junction node of tree2' if merged else ''} = {len(want_nodes)}: "
                                  f"lost (tree, node) {lost[:8]}, unexpected {extra[:8]} ({what}, translate={case['translate']})")]
        if well_formed(res["id"], res["pid"]) is not None:
            out.append(("cat-not-wellformed", well_formed(res["id"], res["pid"])))
        new_of = {s: j for j, s in enumerate(src)}
        # tree1 unchanged; tree2 rigidly translated (types of its old root / node2 may be exchanged by the re-rooting)
        for j, (s, o) in enumerate(src):
            want = t1["xyz"][o] if s == 1 else pos2[o]
            if res["xyz"][j] != [float(c) for c in want]:
                out.append(("cat-positions", f"node {(s, o)} is at {res['xyz'][j]}, expected {want} (translate={case['translate']})")); break
            if s == 1 and res["type"][j] != t1["types"][o]:
                out.append(("cat-types", f"type of tree1 node {o} changed")); break
        if res.get("tag") != [(1000.0 if s_ == 1 else 5000.0) + o for s_, o in src]:
            out.append(("cat-attrs", f"the extra per-node column does not follow its nodes: {str(res.get('tag'))[:80]} for nodes {src[:8]}"))
        # "contains the first tree unchanged and a copy of the second tree": every node carries the attribute values of the node it comes from
        # (a column that tree2 does not have is judged on tree1's nodes only)
        for c in case.get("extra", []):
            got_c = (res.get("extra") or {}).get(c["name"])
            if not isinstance(got_c, list) or len(got_c) != len(src):
                out.append(("cat-attr-values", f"column {c['name']!r} of the result: {str(got_c)[:60]} for {len(src)} nodes")); break
            bad = [(s_, o, got_c[j], (c["v1"] if s_ == 1 else c["v2"])[o]) for j, (s_, o) in enumerate(src)
                   if (s_ == 1 or c["v2"] is not None) and got_c[j] != float((c["v1"] if s_ == 1 else c["v2"])[o])]
            if bad:
                s_, o, g, w = bad[0]
                out.append(("cat-attr-values", f"column {c['name']!r} (tree1 {c['d1']}, tree2 {c['d2']}): node {o} of tree{s_} carries {g} in the result, "
                                               f"{w} in the input ({len(bad)} of {len(src)} nodes differ; {what}, translate={case['translate']})")); break
        # edges: tree1's edges, tree2's undirected edges, the junction; nothing else
        E = set()
        for i, p in enumerate(t1["pids"]):
            if p >= 0:
                E.add(frozenset([(1, i), (1, p)]))
        J = (1, a) if merged else (2, b)
        for j, p in enumerate(t2["pids"]):
            if p >= 0:
                u = (1, a) if (merged and j == b) else (2, j)
                v = (1, a) if (merged and p == b) else (2, p)
                E.add(frozenset([u, v]))
        if not merged:
            E.add(frozenset([(1, a), (2, b)]))
        got = set()
        for j, p in enumerate(res["pid"]):
            if p >= 0:
                got.add(frozenset([src[j], src[p]]))
        if got != E:
            out.append(("cat-edges", f"edges differ: missing {[sorted(e) for e in E - got][:4]}, extra {[sorted(e) for e in got - E][:4]} "
                                     f"({what}, merged={merged})"))
        # tree1's parent relation is kept as it is (it is not re-rooted)
        for i, p in enumerate(t1["pids"]):
            j = new_of[(1, i)]
            want = -1 if p == -1 else new_of[(1, p)]
            if res["pid"][j] != want:
                out.append(("cat-tree1-parents", f"tree1 node {i} hangs from {src[res['pid'][j]] if res['pid'][j] >= 0 else None}, was {p}")); break
        if not res["inputs_unchanged"]:
            out.append(("cat-mutates-input", "cat_tree modified an argument"))
        return out[:3]

    def nontrivial(self, case, res):
        return case["t1"]["n"] + case["t2"]["n"] >= 4


class PathSuite(Suite):
    """`transforms.path`: a root-to-tip path as a tree of its own, and reversed (re-rooted at its tip)"""
    name = "c07.path"

    def cases(self, rng, tier, widen):
        out = []
        k = 0
        for n in [2, 3, 5, 8, 13] + ([30] if tier == "thorough" or widen else []):
            for _ in range(2):
                t = lattice(rng, n, gen.pick_shape(rng, k)); k += 1
                out.append({"class": "path", "tree": t, "pick": rng.random()})
        return out

    def run(self, case):
        from swcgeom.transforms import PathReverser, PathToTree

        t = gen.make_tree(case["tree"])
        before = {k: v.copy() for k, v in t.ndata.items()}
        paths = t.get_paths()
        p = paths[int(case["pick"] * len(paths))]
        ids = [int(v) for v in p.get_ndata("id")]
        pt = PathToTree()(p.detach())
        rv = PathReverser()(t.get_paths()[int(case["pick"] * len(paths))].detach())
        return {"ids": ids, "pt": {"pid": pt.pid().tolist(), "xyz": pt.xyz().astype(float).tolist(), "type": pt.type().tolist(), "r": [float(v) for v in pt.r()]},
                "rv": {"xyz": np.asarray(rv.xyz()).astype(float).tolist(), "type": [int(v) for v in rv.type()], "r": [float(v) for v in rv.r()]},
                "input_unchanged": bool(all(np.array_equal(before[k], t.ndata[k]) for k in before))}

    def oracle(self, case, res):
        t = case["tree"]
        if "exc" in res:
            return [("path-transform-raises", f"{res['exc']}: {res.get('msg')}")]
        out = []
        ids = res["ids"]
        m = len(ids)
        xyz = [[float(c) for c in t["xyz"][i]] for i in ids]
        typ = [t["types"][i] for i in ids]
        rr = [float(np.float32(t["r"][i])) for i in ids]
        pt = res["pt"]
        if pt["pid"] != [-1] + list(range(m - 1)) or pt["xyz"] != xyz or pt["type"] != typ or pt["r"] != rr:
            out.append(("path-to-tree", f"PathToTree of the path {ids}: parents {pt['pid']}, the chain 0..{m - 1} with the path's attributes was expected"))
        rv = res["rv"]
        want_t = list(reversed(typ))
        if m >= 1:
            want_t[0], want_t[-1] = typ[0], typ[-1]        # only the two end types are exchanged by the re-rooting
        if rv["xyz"] != list(reversed(xyz)) or rv["r"] != list(reversed(rr)) or rv["type"] != want_t:
            out.append(("path-reversed", f"PathReverser of the path {ids}: positions {rv['xyz'][:3]}…, types {rv['type']}; expected the reversed path with the end types {typ[0]}, {typ[-1]} staying at the root / tip ends"))
        if not res["input_unchanged"]:
            out.append(("path-transform-mutates-input", "a path transform modified the tree the path came from"))
        return out

    def nontrivial(self, case, res):
        return len(res.get("ids", [])) >= 3


# ---- trees with a history: the argument of redirect_tree / cat_tree is a tree the caller has already worked with ----------------------
# read-only public analysis calls (the tree is the same tree afterwards) …
READS = ["get_branches", "get_paths", "get_furcations", "get_tips", "get_segments", "length", "traverse", "subtree", "get_neurites"]


def do_read(t, name, pick):
    if name == "traverse":
        return t.traverse(leave=lambda n, ch: 1 + sum(ch))
    if name == "subtree":
        return t.node(int(t.id()[pick % t.number_of_nodes()])).subtree()
    if name == "get_neurites":
        return list(t.get_neurites(type_check=False))
    return getattr(t, name)()


def snap(y):
    """every per-node column of a tree (node identity: the radius key, tree i carries 64 i + (j+1)/8; the extra column 1000 (i+1) + j)"""
    return {"id": y.id().tolist(), "pid": y.pid().tolist(), "type": y.type().tolist(), "r": [float(v) for v in y.r()],
            "tag": [float(v) for v in y.get_ndata("tag")] if "tag" in y.keys() else None, "xyz": y.xyz().astype(float).tolist()}


def pick_node(S, pick, nonroot=False):
    """the node (= position) of the current tree an operation of a chain is applied at"""
    n = len(S["pid"])
    k = pick % n
    if nonroot and n > 1 and S["pid"][k] == -1:
        k = (k + 1) % n
    return k


def tree_state(t, i):
    """what `snap` returns for the i-th tree of a chain case as built by Chain.fresh"""
    return {"id": list(range(t["n"])), "pid": list(t["pids"]), "type": list(t["types"]), "r": [float(np.float32(v)) for v in t["r"]],
            "tag": [1000.0 * (i + 1) + j for j in range(t["n"])], "xyz": [[float(c) for c in p] for p in t["xyz"]]}


def is_tree_state(S):
    """a state the next operation can be judged on: ids are positions, one root, every node reaches it, distinct keys"""
    n = same_len(S, ["pid", "id", "type", "r", "xyz"]) if isinstance(S, dict) else None
    if not n or S["id"] != list(range(n)) or len(set(S["r"])) != n or S["pid"].count(-1) != 1:
        return False
    root = S["pid"].index(-1)
    seen = {root}
    for i in range(n):
        path, j = [], i
        while j not in seen:
            if not (isinstance(j, int) and 0 <= j < n) or j in path:
                return False
            path.append(j); j = S["pid"][j]
        seen.update(path)
    return True


def key_edges(S):
    return {frozenset([S["r"][j], S["r"][p]]) for j, p in enumerate(S["pid"]) if p >= 0}


def judge_redirect(S, k, sort, R, what):
    """the property's re-rooting clause for input state S, new root k (a position of S), output state R; nodes are identified by their key"""
    n = len(S["pid"])
    if same_len(R, ["pid", "id", "type", "r", "xyz"]) is None:
        return [("chain-redirect-malformed-output", f"the per-node columns of the result differ in length ({what})")]
    if sorted(R["r"]) != sorted(S["r"]):
        lost = sorted(set(S["r"]) - set(R["r"]))
        return [("chain-redirect-nodes", f"{len(R['r'])} of {n} nodes after re-rooting, lost the nodes with keys {lost[:8]} ({what})")]
    out = []
    if R["id"] != list(range(n)):
        out.append(("chain-redirect-ids", f"ids are not 0..n-1 ({what})"))
    at = {key: j for j, key in enumerate(R["r"])}
    r0 = S["pid"].index(-1)
    want_type = list(S["type"])
    want_type[k], want_type[r0] = S["type"][r0], S["type"][k]
    for o in range(n):
        j = at[S["r"][o]]
        if R["xyz"][j] != S["xyz"][o] or (R.get("tag") or [None] * n)[j] != (S.get("tag") or [None] * n)[o]:
            out.append(("chain-redirect-attrs", f"position / extra column of the node with key {S['r'][o]} changed ({what})")); break
        if R["type"][j] != want_type[o]:
            out.append(("chain-redirect-types", f"type of the node with key {S['r'][o]} is {R['type'][j]}, expected {want_type[o]} (only old/new root exchanged; {what})")); break
    a_, b_ = key_edges(S), key_edges(R)
    if a_ != b_:
        out.append(("chain-redirect-edges", f"undirected edges changed: lost {[sorted(e) for e in a_ - b_][:4]}, added {[sorted(e) for e in b_ - a_][:4]} (keys; {what})"))
    roots = [R["r"][j] for j, p in enumerate(R["pid"]) if p == -1]
    if roots != [S["r"][k]]:
        out.append(("chain-redirect-root", f"roots after re-rooting at position {k} (key {S['r'][k]}): keys {roots} ({what})"))
    if sort and (well_formed(R["id"], R["pid"]) is not None or any(not (p < j) for j, p in enumerate(R["pid"]))):
        out.append(("chain-redirect-unsorted", f"sort=True but the result is not a sorted well-formed tree ({what})"))
    if not sort and R["r"] != S["r"]:
        out.append(("chain-redirect-nosort-moved", f"sort=False but nodes changed position ({what})"))
    return out[:3]


def judge_cat(S1, S2, a, b, translate, R, what):
    """the property's concatenation clause for input states S1, S2, junction positions a, b, output state R"""
    if same_len(R, ["pid", "id", "type", "r", "xyz"]) is None:
        return [("chain-cat-malformed-output", f"the per-node columns of the result differ in length ({what})")]
    shift = [S1["xyz"][a][i] - S2["xyz"][b][i] for i in range(3)] if translate else [0.0, 0.0, 0.0]
    pos = {key: S1["xyz"][j] for j, key in enumerate(S1["r"])}
    pos.update({key: [S2["xyz"][j][i] + shift[i] for i in range(3)] for j, key in enumerate(S2["r"])})
    ka, kb = S1["r"][a], S2["r"][b]
    merged = pos[kb] == pos[ka]
    want = set(S1["r"]) | {key for key in S2["r"] if not (merged and key == kb)}
    if sorted(R["r"]) != sorted(want):
        return [("chain-cat-nodes", f"result has {len(R['r'])} nodes, expected {len(want)}: lost keys {sorted(want - set(R['r']))[:8]}, "
                                    f"unexpected {sorted(set(R['r']) - want)[:8]} ({what}, merged={merged})")]
    out = []
    if well_formed(R["id"], R["pid"]) is not None:
        out.append(("chain-cat-not-wellformed", f"{well_formed(R['id'], R['pid'])} ({what})"))
    tag = {key: (S.get("tag") or [None] * len(S["r"]))[j] for S in (S1, S2) for j, key in enumerate(S["r"])}
    typ1 = dict(zip(S1["r"], S1["type"]))
    for j, key in enumerate(R["r"]):
        if R["xyz"][j] != pos[key]:
            out.append(("chain-cat-positions", f"the node with key {key} is at {R['xyz'][j]}, expected {pos[key]} ({what})")); break
        if (R.get("tag") or [None] * len(R["r"]))[j] != tag[key]:
            out.append(("chain-cat-attrs", f"the extra column of the node with key {key} changed ({what})")); break
        if key in typ1 and R["type"][j] != typ1[key]:
            out.append(("chain-cat-types", f"type of tree1's node with key {key} changed ({what})")); break
    sub = lambda key: ka if merged and key == kb else key
    E = key_edges(S1) | {frozenset([sub(u) for u in e]) for e in key_edges(S2)} | (set() if merged else {frozenset([ka, kb])})
    got = key_edges(R)
    if got != E:
        out.append(("chain-cat-edges", f"edges differ: missing {[sorted(e) for e in E - got][:4]}, extra {[sorted(e) for e in got - E][:4]} (keys; {what}, merged={merged})"))
    at = {key: j for j, key in enumerate(R["r"])}
    for j, p in enumerate(S1["pid"]):
        if R["pid"][at[S1["r"][j]]] != (-1 if p == -1 else at[S1["r"][p]]):
            out.append(("chain-cat-tree1-parents", f"the parent of tree1's node with key {S1['r'][j]} changed ({what})")); break
    return out[:3]


def op_name(op):
    return {"read": lambda: "read:" + op["call"], "sort": lambda: "sort_tree", "redirect": lambda: f"redirect({'sort' if op['sort'] else 'nosort'})",
            "cat": lambda: f"cat(as-{op['side']},{'translate' if op['translate'] else 'fixed'})"}[op["op"]]()


class Chain(Suite):
    """redirect_tree / cat_tree on trees with a history: the argument has been analysed through read-only public calls before, or is itself the
    result of earlier re-rootings / concatenations / sort_tree (a tree grown by several cat_tree calls and then re-rooted, a root moved step by
    step).  Every redirect_tree / cat_tree step is judged on its actual input (the state after the previous step); not sent to the Lean driver."""
    name = "c07.chain"

    def cases(self, rng, tier, widen):
        out = []
        big = tier == "thorough" or widen
        sizes = [2, 3, 4, 6, 9] + ([14, 25] if big else [])
        k = [0]

        def tree(i):
            k[0] += 1
            return lattice(rng, rng.choice(sizes if i == 0 else sizes[:4]), gen.pick_shape(rng, k[0]), base=(40 * i, 0, 0), key0=64.0 * i)

        def redirect(sort=None):
            return {"op": "redirect", "pick": rng.randrange(10 ** 6), "sort": rng.random() < 0.5 if sort is None else sort, "nonroot": rng.random() < 0.85}

        def cat(trees, side=None, translate=None):
            trees.append(tree(len(trees)))
            return {"op": "cat", "other": len(trees) - 1, "side": side or rng.choice(["first", "first", "second"]), "pick": rng.randrange(10 ** 6),
                    "opick": rng.randrange(10 ** 6), "translate": rng.random() < 0.6 if translate is None else translate, "nonroot": rng.random() < 0.85}

        def read():
            return {"op": "read", "call": rng.choice(READS), "pick": rng.randrange(10 ** 6)}

        # (a) the tree has been looked at before: every read-only call, then every kind of operation
        targets = ["redirect-sort", "redirect-nosort", "cat-first", "cat-second"]
        for rep in range(1 if not big else 3):
            for call in READS:
                for tg in targets:
                    trees = [tree(0)]
                    ops = [{"op": "read", "call": call, "pick": rng.randrange(10 ** 6)}]
                    ops.append(redirect(tg == "redirect-sort") if tg.startswith("redirect") else cat(trees, tg[4:]))
                    out.append({"class": f"used-before/{tg}", "trees": trees, "ops": ops})
        # (b) the tree is the product of earlier operations
        for rep in range(6 if not big else 24):
            trees = [tree(0)]                                     # the root moved several times (renumbering every time in half of the cases)
            allsort = rep % 2 == 0
            ops = [redirect(True if allsort else None) for _ in range(rng.randint(3, 5) if allsort else rng.randint(2, 5))]
            out.append({"class": "chain/redirects" + ("-sorted" if allsort else ""), "trees": trees, "ops": ops})
            trees = [tree(0)]                                     # a tree grown by several concatenations, then re-rooted
            ops = [cat(trees, "first" if rep % 3 else None) for _ in range(rng.randint(2, 3))] + [redirect()]
            out.append({"class": "chain/cat-grown→redirect", "trees": trees, "ops": ops})
            trees = [tree(0)]                                     # … then hung by one of its nodes onto another tree
            ops = [cat(trees, "first" if rep % 3 else None) for _ in range(rng.randint(2, 3))] + [cat(trees, "second", rep % 2 == 0)]
            out.append({"class": "chain/cat-grown→cat-second", "trees": trees, "ops": ops})
            trees = [tree(0)]                                     # anything, looked at in between
            ops = []
            for _ in range(rng.randint(3, 6)):
                c = rng.random()
                ops.append(redirect() if c < 0.4 else cat(trees) if c < 0.65 else {"op": "sort"} if c < 0.75 else read())
            ops.append(redirect() if rng.random() < 0.6 else cat(trees))
            out.append({"class": "chain/mixed", "trees": trees, "ops": ops})
        return out

    @staticmethod
    def fresh(case, i):
        t = gen.make_tree(case["trees"][i])
        t.ndata["tag"] = (1000.0 * (i + 1) + np.arange(case["trees"][i]["n"])).astype(np.float32)
        return t

    def run(self, case):
        from harness.framework import CaseTimeout
        from swcgeom.core.tree_utils import cat_tree, redirect_tree, sort_tree

        cur = self.fresh(case, 0)
        steps = []
        for op in case["ops"]:
            S = snap(cur)
            entry = {}
            try:
                if op["op"] == "read":
                    try:
                        do_read(cur, op["call"], op["pick"])
                    except CaseTimeout:
                        raise
                    except Exception as e:  # noqa: BLE001 - the analysis calls are not this property's subject
                        entry["read_exc"] = type(e).__name__
                    new = cur
                elif op["op"] == "sort":
                    new = sort_tree(cur)
                elif op["op"] == "redirect":
                    new = redirect_tree(cur, pick_node(S, op["pick"], op["nonroot"]), sort=op["sort"])
                else:
                    other = self.fresh(case, op["other"])
                    O = snap(other)
                    if op["side"] == "first":
                        new = cat_tree(cur, other, pick_node(S, op["pick"]), pick_node(O, op["opick"], op["nonroot"]), translate=op["translate"])
                    else:
                        new = cat_tree(other, cur, pick_node(O, op["opick"]), pick_node(S, op["pick"], op["nonroot"]), translate=op["translate"])
                    entry["unchanged"] = snap(other) == O
                entry["unchanged"] = entry.get("unchanged", True) and snap(cur) == S
                entry["state"] = snap(new)
            except CaseTimeout:
                raise
            except Exception as e:  # noqa: BLE001 - the oracle decides
                entry.update({"exc": type(e).__name__, "msg": str(e)[:300]})
                steps.append(entry)
                break
            steps.append(entry)
            cur = new
        return {"steps": steps}

    def lines(self, case, res):
        return []

    def oracle(self, case, res):
        try:
            return self._oracle(case, res)
        except Exception as e:  # noqa: BLE001 - an output the clauses cannot even be evaluated on
            return [("chain-malformed-output", f"a result in the chain cannot be read as a tree: {type(e).__name__}: {str(e)[:200]}")]

    def _oracle(self, case, res):
        if not isinstance(res, dict) or ("steps" not in res and "exc" not in res):
            return [("chain-malformed-output", f"result {str(res)[:80]}")]
        if "exc" in res:
            return [("chain-raises", f"{res['exc']}: {res.get('msg')}")]
        S = tree_state(case["trees"][0], 0)
        names = [op_name(op) for op in case["ops"]]
        for i, (op, entry) in enumerate(zip(case["ops"], res["steps"])):
            what = f"step {i + 1} of {' → '.join(names)}; its input tree: pids={S['pid']}, keys={S['r']}"
            judged = op["op"] in ("redirect", "cat")
            if "exc" in entry:
                return [(f"chain-{op['op']}-raises", f"{entry['exc']}: {entry.get('msg')} ({what})")] if judged else []
            R = entry.get("state")
            if judged:
                if not isinstance(R, dict):
                    return [(f"chain-{op['op']}-malformed-output", f"result {str(R)[:80]} ({what})")]
                if op["op"] == "redirect":
                    k = pick_node(S, op["pick"], op["nonroot"])
                    f = judge_redirect(S, k, op["sort"], R, what + f", new root at position {k}")
                else:
                    O = tree_state(case["trees"][op["other"]], op["other"])
                    (S1, a, S2, b) = (S, pick_node(S, op["pick"]), O, pick_node(O, op["opick"], op["nonroot"])) if op["side"] == "first" else \
                                     (O, pick_node(O, op["opick"]), S, pick_node(S, op["pick"], op["nonroot"]))
                    f = judge_cat(S1, S2, a, b, op["translate"], R, what + f"; the other tree: pids={O['pid']}; node1={a}, node2={b}, translate={op['translate']}")
                if not entry.get("unchanged", True):
                    f = f + [(f"chain-{op['op']}-mutates-input", f"an argument was modified ({what})")]
                if f:
                    return f[:3]
            if not is_tree_state(R):
                return []                              # an unjudged step (sort_tree, an analysis call) left something the next step cannot be judged on
            S = R
        return []

    def nontrivial(self, case, res):
        return len(res.get("steps", [])) == len(case["ops"]) >= 2 and sum(t["n"] for t in case["trees"]) >= 3


SUITES = [Redirect(), CatSuite(), PathSuite(), Chain()]
TECHNIQUE = ("Lean 4 theorems about the models of redirect_tree (root-path reversal: undirected edges preserved, unique new root, only two types exchanged) and "
             "cat_tree (row-by-row characterisation of the concatenated table: tree1 embedded, tree2 shifted and rigidly translated, junction link or merge, no other "
             "edge) composed with C05's sort theorems + differential correspondence + independent edge-set / rigid-motion oracle")
LEVEL_TEXT = ("Kernel-checked: re-rooting reverses exactly the parent pointers on the root path (so the undirected edge set is unchanged), makes the requested "
              "node the only root and exchanges only the two root types; concatenation builds a table whose rows are tree1's rows unchanged, tree2's rows with ids "
              "shifted and positions translated by one common vector, and whose only new edge is the junction (or, for coincident junction nodes, the merged node's "
              "children re-hung and the duplicate row deleted); the final numbering is C05's relabelling. In both cases the concatenated table is proved to be a tree table "
              "rooted at tree1's root (for the merged case: with the gap the deleted junction row leaves in the ids), so the final sort provably succeeds and returns a "
              "well-formed sorted tree with |tree1|+|tree2| (merged: −1) nodes.")
LEVEL_NOTE = "Trusted: Lean kernel; hand-written models tied by correspondence (all (tree,node) pairs for n ≤ 4/5); numpy concatenate/delete; float32 translation exact on lattice inputs."
