"""C06 — subtree extraction and pruning keep exactly the specified nodes."""
import warnings

import numpy as np

from harness import gen
from harness.framework import Suite

PID = "C06"
LEAN_MODS = ["SwcVerif.Props.C06"]
THEOREMS = [
    "C06.toSubTopology_spec", "C06.toSubTopology_ok_iff", "C06.attrs_preserved", "C06.subtree_nodes", "C06.propagate_marks",
    "C06.removedSet_all", "C06.removedSet_sound", "C06.toSubtree_kept", "C06.cutEnter_removed", "C06.cutLeave_removed",
    "C06.cutByType_kept", "C06.cutByOrder_rule", "C06.isFurcation_iff", "C06.cutShortTip_removed",
]
TRUSTED = ["hand-written models Model/Subtree.lean of to_sub_topology / propagate_removal / get_subtree_impl / to_subtree / cut_tree / CutByType / "
           "CutByFurcationOrder / CutShortTipBranch (tied by the c06.ops correspondence: new parents and new→old mapping compared exactly)"]
ASSUMPTIONS = [
    "the traversal loop is C04's machine; numpy fancy indexing `col[mapping]` is `mapping.map col`",
    "CutShortTipBranch: edge lengths are compared as exact numbers (generated trees have axis-aligned integer edges, so float sums are exact)",
]

RMKINDS = ["list", "list", "set", "array", "tuple", "generator", "chain", "map"]


def lattice_tree(rng, n, shape):
    pids = gen.renumber_root0(rng, gen.parents_sorted(rng, n, shape))
    n = len(pids)
    xyz = [None] * n
    elen = [0] * n
    # place parents before children
    order, kids = [], {}
    for i, p in enumerate(pids):
        kids.setdefault(p, []).append(i)
    st = [0]
    xyz[0] = [rng.randint(-5, 5), rng.randint(-5, 5), rng.randint(-5, 5)]
    while st:
        v = st.pop()
        for c in kids.get(v, []):
            ax = rng.randrange(3)
            L = rng.randint(1, 4)
            q = list(xyz[v]); q[ax] += rng.choice([-1, 1]) * L
            xyz[c] = q; elen[c] = L
            st.append(c)
    return {"n": n, "pids": pids, "types": [1] + [rng.choice([2, 3, 3, 4]) for _ in range(n - 1)], "xyz": [[float(c) for c in p] for p in xyz],
            "r": [(i + 1) / 8 for i in range(n)], "elen": elen}


def kids_of(pids):
    k = {}
    for i, p in enumerate(pids):
        k.setdefault(p, []).append(i)
    return k


def desc(kids, v):
    out, st = [], [v]
    while st:
        x = st.pop(); out.append(x); st.extend(kids.get(x, []))
    return out


def expected_kept(op, t):
    """the rule of each operation read literally → (root, kept set) or None when everything goes"""
    pids, n = t["pids"], t["n"]
    kids = kids_of(pids)
    nk = lambda v: len(kids.get(v, []))
    removed = set()
    root = 0
    k = op["op"]
    if k == "subtree":
        root = op["n"]
        return root, set(desc(kids, root))
    if k in ("tosub", "cutenter"):
        seeds = op["rm"]
    elif k == "cutdepth":
        depth = {0: 0}
        for v in desc(kids, 0):
            for c in kids.get(v, []):
                depth[c] = depth[v] + 1
        seeds = [v for v in range(n) if depth[v] >= op["d"]]
    elif k == "cutleave":
        h = {}
        for v in reversed(desc(kids, 0)):
            h[v] = max([h[c] + 1 for c in kids.get(v, [])], default=0)
        # desc order is not a topological order in general; recompute properly
        def height(v):
            return max([height(c) + 1 for c in kids.get(v, [])], default=0)
        seeds = [v for v in range(1, n) if height(v) <= op["h"]]
    elif k == "cuttype":
        keep = set()
        for v in range(n):
            if t["types"][v] == op["t"]:
                x = v
                while x != -1:
                    keep.add(x); x = pids[x]
        seeds = [v for v in range(n) if v not in keep]
    elif k == "cutorder":
        level = {0: 0}
        order = desc(kids, 0)
        for v in order:
            for c in kids.get(v, []):
                level[c] = level[v] + (1 if nk(c) > 1 else 0)
        seeds = [v for v in range(n) if level[v] >= op["m"]]
    elif k == "cuttip":
        seeds = []
        for f in range(n):
            if nk(f) < 2:
                continue
            for c in kids[f]:
                L, x, ok = t["elen"][c], c, True
                while nk(x) == 1:
                    x = kids[x][0]; L += t["elen"][x]
                if nk(x) != 0:
                    continue   # the chain reaches another furcation: not a terminal branch
                if L <= op["thre"]:
                    seeds.append(c)
    for s in seeds:
        removed.update(desc(kids, s))
    return 0, set(range(n)) - removed


class Ops(Suite):
    name = "c06.ops"

    def cases(self, rng, tier, widen):
        out = []
        big = tier == "thorough" or widen
        k = 0
        # exhaustively all (tree, node) pairs for small sorted trees
        import itertools
        for n in range(1, 6 if big else 5):
            for ps in itertools.product(*[range(i) for i in range(1, n)]):
                pids = [-1] + list(ps)
                t = {"n": n, "pids": pids, "types": [1] + [2 + (i % 3) for i in range(1, n)], "xyz": [[float(i), 0.0, 0.0] for i in range(n)],
                     "r": [(i + 1) / 8 for i in range(n)], "elen": [0] + [1] * (n - 1)}
                for v in range(n):
                    out.append({"class": f"all-n{n}/subtree", "tree": t, "op": {"op": "subtree", "n": v}})
                if n >= 2:
                    out.append({"class": f"all-n{n}/tosub", "tree": t, "op": {"op": "tosub", "rm": [rng.randrange(1, n)], "rmkind": rng.choice(RMKINDS)}})
        for n in gen.sizes(tier, widen):
            for _ in range(2 if not big else 6):
                shape = gen.pick_shape(rng, k); k += 1
                t = lattice_tree(rng, n, shape)
                nn = t["n"]
                ops = [{"op": "subtree", "n": rng.randrange(nn)}]
                if nn > 1:
                    ops += [{"op": "tosub", "rm": rng.sample(range(1, nn), rng.randint(0, min(4, nn - 1))), "rmkind": rng.choice(RMKINDS)},
                            {"op": "cutenter", "rm": rng.sample(range(1, nn), rng.randint(0, min(3, nn - 1)))},
                            {"op": "cutdepth", "d": rng.randint(1, 5)},
                            {"op": "cutleave", "h": rng.randint(0, 2)},
                            {"op": "cuttype", "t": rng.choice(sorted(set(t["types"])))},
                            {"op": "cutorder", "m": rng.randint(1, 3)},
                            {"op": "cuttip", "thre": rng.randint(0, 7)}]
                for op in ops:
                    case = {"class": f"{shape}/{op['op']}", "tree": t, "op": op, "mapkind": rng.choice(["list", "dict", None])}
                    # a third of the operations act on a tree DERIVED (re-rooted / sorted copy) from a tree on which every query and cut has
                    # been run before: the result depends on the tree given, not on what was asked of its ancestors
                    if nn >= 3 and rng.random() < 0.34 and op["op"] not in ("cuttip",):
                        case["derive"] = rng.choice(["sort", f"redirect:{rng.randrange(1, nn)}"])
                        case["class"] += "/derived"
                    out.append(case)
                    if nn >= 4 and op["op"] in ("cutorder", "cutleave", "cuttype") and "derive" not in case:
                        # the rules that ask nodes about their children (furcation order, tips): always also on a re-rooted copy
                        out.append(dict(case, derive=f"redirect:{rng.randrange(1, nn)}", **{"class": case["class"] + "/derived"}))
        return out

    def run(self, case):
        from swcgeom.core.tree_utils import cut_tree, get_subtree, to_subtree
        from swcgeom.transforms import CutByFurcationOrder, CutByType, CutShortTipBranch

        from swcgeom.core import Tree

        t = gen.make_tree(case["tree"])
        n0 = case["tree"]["n"]
        extra = {}
        if case.get("derive"):
            from swcgeom.core.tree_utils import redirect_tree, sort_tree

            # ask the original tree everything first
            with warnings.catch_warnings():
                warnings.simplefilter("ignore")
                CutByFurcationOrder(2)(t); CutByType(3)(t); CutShortTipBranch(thre=2)(t); t.get_branches(); t.get_tips(); t.get_furcations()
                [(t.node(i).is_furcation(), t.node(i).is_tip(), len(t.node(i).children())) for i in range(n0)]
            d = case["derive"]
            t = sort_tree(t) if d == "sort" else redirect_tree(t, int(d.split(":")[1]))
            extra["eff"] = {"pids": t.pid().tolist(), "types": t.type().tolist(), "xyz": t.xyz().astype(float).tolist()}
        # identity tag by position (the radius), plus two columns beyond the seven standard ones
        cols = {k: t.get_ndata(k).copy() for k in ["id", "type", "x", "y", "z", "pid"]}
        cols["r"] = ((np.arange(n0) + 1) / 8).astype(np.float32)
        cols["tag"] = (1000.0 + np.arange(n0)).astype(np.float32)
        cols["level"] = ((np.arange(n0) * 7) % 5).astype(np.int32)
        if case.get("derive"):
            t.ndata["r"] = cols["r"]; t.ndata["tag"] = cols["tag"]; t.ndata["level"] = cols["level"]      # same (derived, queried) object
        else:
            t = Tree(n0, **cols)
        before = {k: t.get_ndata(k).copy() for k in t.keys()}
        op = case["op"]
        k = op["op"]
        mk = case.get("mapkind")
        om = [] if mk == "list" else ({} if mk == "dict" else None)
        if k == "subtree":
            y = get_subtree(t, op["n"], out_mapping=om)
            y2 = t.node(op["n"]).subtree()
            extra["node_subtree_same"] = bool(np.array_equal(y.pid(), y2.pid()) and np.array_equal(y.r(), y2.r()))
        elif k == "tosub":
            # `removals: Iterable[int]`: lists, sets, arrays and one-shot iterables (generator, chain, map) alike
            rk = op.get("rmkind", "list")
            rm = list(op["rm"])
            import itertools
            arg = {"list": lambda: rm, "set": lambda: set(rm), "array": lambda: np.array(rm, dtype=np.int64), "tuple": lambda: tuple(rm),
                   "generator": lambda: (i for i in rm), "chain": lambda: itertools.chain(rm[:1], rm[1:]), "map": lambda: map(int, rm)}[rk]()
            y = to_subtree(t, arg, out_mapping=om)
        elif k == "cutenter":
            rm = set(op["rm"])
            y = cut_tree(t, enter=lambda n, pv: ((0 if pv is None else pv + 1), n.id in rm))
        elif k == "cutdepth":
            d = op["d"]
            y = cut_tree(t, enter=lambda n, pv: ((0 if pv is None else pv + 1), (0 if pv is None else pv + 1) >= d))
        elif k == "cutleave":
            h = op["h"]

            def leave(n, ks):
                ht = max([x + 1 for x in ks], default=0)
                return ht, (ht <= h and n.id != 0)

            y = cut_tree(t, leave=leave)
        elif k == "cuttype":
            y = CutByType(op["t"])(t)
        elif k == "cutorder":
            with warnings.catch_warnings():
                warnings.simplefilter("ignore")
                y = CutByFurcationOrder(op["m"])(t)
        else:
            y = CutShortTipBranch(thre=op["thre"])(t)
        res = {"pid": y.pid().tolist(), "id": y.id().tolist(), "r": [float(v) for v in y.r()], "type": y.type().tolist(),
               "xyz": y.xyz().astype(float).tolist(), "input_unchanged": bool(all(np.array_equal(before[c], t.get_ndata(c)) for c in before)),
               "keys": sorted(str(c) for c in y.keys()),
               "tag": [float(v) for v in y.get_ndata("tag")] if "tag" in y.keys() else None,
               "level": [int(v) for v in y.get_ndata("level")] if "level" in y.keys() else None}
        if om is not None and k in ("subtree", "tosub"):
            res["out_mapping"] = [int(om[i]) for i in range(len(om))] if isinstance(om, dict) else [int(v) for v in om]
        if k == "subtree" and op["n"] == 0 and case["tree"]["types"][0] == 1:
            res["neurites"] = [[float(v) for v in s.r()] for s in t.get_neurites()]
            res["dendrites"] = [[float(v) for v in s.r()] for s in t.get_dendrites()]
        if k == "cuttype":
            from swcgeom.core.tree_utils import is_binary_tree
            from swcgeom.transforms import CutAxonTree, CutDendriteTree

            res["axon_same"] = bool(np.array_equal(CutAxonTree()(t).r(), CutByType(2)(t).r()))
            res["dend_same"] = bool(np.array_equal(CutDendriteTree()(t).r(), CutByType(3)(t).r()))
            res["binary"] = [bool(is_binary_tree(t)), bool(is_binary_tree(t, exclude_soma=False))]
        res.update(extra)
        return res

    def _mapping(self, case, res):
        return [int(round(v * 8)) - 1 for v in res["r"]]

    def _tree(self, case, res):
        """the tree the operation was applied to (the derived one when there is a derivation step)"""
        t = case["tree"]
        if isinstance(res, dict) and "eff" in res:
            e = res["eff"]
            t = dict(t, pids=e["pids"], types=e["types"], xyz=e["xyz"])
            t["elen"] = [0 if p < 0 else int(round(sum(abs(a - b) for a, b in zip(e["xyz"][i], e["xyz"][p])))) for i, p in enumerate(e["pids"])]
        return t

    def lines(self, case, res):
        if "exc" in res:
            return []
        op = dict(case["op"])
        k = op.pop("op")
        t = self._tree(case, res)
        a = f"pids={gen.ints(t['pids'])}"
        if k == "subtree":
            a += f" n={op['n']}"
        elif k in ("tosub", "cutenter"):
            a += f" rm={gen.ints(op['rm'])}"
        elif k == "cutdepth":
            a += f" d={op['d']}"
        elif k == "cutleave":
            a += f" h={op['h']}"
        elif k == "cuttype":
            a += f" types={gen.ints(t['types'])} t={op['t']}"
        elif k == "cutorder":
            a += f" m={op['m']}"
        else:
            a += f" elen={gen.ints(t['elen'])} thre={op['thre']}"
        return [(f"{k} {a}", f"{gen.ints(res['pid']).replace('_', '')} / {gen.ints(self._mapping(case, res)).replace('_', '')}")]

    def oracle(self, case, res):
        t, op = self._tree(case, res), case["op"]
        if "exc" in res:
            return [(f"{op['op']}-raises", f"{op} on pids={t['pids']} raised {res['exc']}: {res.get('msg')}")]
        out = []
        root, kept = expected_kept(op, t)
        m = self._mapping(case, res)
        what = f"{op} on pids={t['pids']}"
        if sorted(m) != sorted(kept) or len(set(m)) != len(m):
            return [(f"{op['op']}-kept", f"{what}: survivors (old ids) {sorted(m)}, the rule designates {sorted(kept)}")]
        n2 = len(m)
        if res["id"] != list(range(n2)):
            out.append((f"{op['op']}-ids", f"{what}: ids {res['id'][:8]}"))
        new_of = {o: k for k, o in enumerate(m)}
        for k, o in enumerate(m):
            want = -1 if o == root else new_of.get(t["pids"][o], None)
            if res["pid"][k] != want:
                out.append((f"{op['op']}-parent", f"{what}: new node {k} (old {o}) has parent {res['pid'][k]}, expected {want}")); break
            if res["type"][k] != t["types"][o] or res["xyz"][k] != [float(c) for c in t["xyz"][o]]:
                out.append((f"{op['op']}-attrs", f"{what}: attributes of old node {o} changed")); break
        # every per-node column survives with its node — the two extra columns as well
        if res.get("tag") is None or res.get("level") is None:
            out.append((f"{op['op']}-extra-column-dropped", f"{what}: the result has columns {res.get('keys')}; the input also had 'tag' and 'level'"))
        elif res["tag"] != [1000.0 + o for o in m] or res["level"] != [(o * 7) % 5 for o in m]:
            out.append((f"{op['op']}-extra-column", f"{what}: extra columns of the survivors are {res['tag'][:6]}… / {res['level'][:6]}…, their nodes had {[1000.0 + o for o in m][:6]}… / {[(o * 7) % 5 for o in m][:6]}…"))
        if "out_mapping" in res and res["out_mapping"] != m:
            out.append((f"{op['op']}-mapping", f"{what}: reported mapping {res['out_mapping']}, actual new→old {m}"))
        if res.get("node_subtree_same") is False:
            out.append(("node-subtree", f"{what}: Tree.Node.subtree() differs from get_subtree"))
        if "neurites" in res:
            kids = kids_of(t["pids"])
            want = [sorted(desc(kids, c)) for c in kids.get(0, [])]
            got = [sorted(int(round(v * 8)) - 1 for v in s) for s in res["neurites"]]
            if sorted(want) != sorted(got):
                out.append(("neurites", f"get_neurites gives {got}, subtrees of the root's children are {want}"))
        if "dendrites" in res:
            kids = kids_of(t["pids"])
            want = [sorted(desc(kids, c)) for c in kids.get(0, []) if t["types"][c] in (3, 4)]
            got = [sorted(int(round(v * 8)) - 1 for v in s_) for s_ in res["dendrites"]]
            if sorted(want) != sorted(got):
                out.append(("dendrites", f"get_dendrites gives {got}, subtrees of the root's dendrite-typed children are {want}"))
        if res.get("axon_same") is False or res.get("dend_same") is False:
            out.append(("cuttype-kept", f"{what}: CutAxonTree / CutDendriteTree differ from CutByType(2) / CutByType(3)"))
        if "binary" in res:
            kids = kids_of(t["pids"])
            w1 = all(len(v) <= 2 for k_, v in kids.items() if k_ not in (-1, 0)); w2 = all(len(v) <= 2 for k_, v in kids.items() if k_ != -1)
            if res["binary"] != [w1, w2]:
                out.append(("is-binary-tree", f"is_binary_tree = {res['binary']} (root exempt / not), child counts say {[w1, w2]} (pids={t['pids']})"))
        if not res["input_unchanged"]:
            out.append((f"{op['op']}-mutates-input", f"{what} modified its input"))
        return out[:3]

    def nontrivial(self, case, res):
        return case["tree"]["n"] >= 3

    def klass(self, case, res):
        return case["class"].split("/")[-1] + ("/raised" if "exc" in res else "")


SUITES = [Ops()]
TECHNIQUE = ("Lean 4 theorems by structural induction (via C04's loop = recursion theorem) about the models of get_subtree / to_sub_topology / "
             "propagate_removal / cut_tree / CutByType / CutByFurcationOrder / CutShortTipBranch + differential correspondence (new parents and "
             "new→old mapping compared exactly) + an oracle that evaluates each rule literally")
LEVEL_TEXT = ("Kernel-checked for every tree shape and numbering: the kept rows are exactly the designated nodes, the compaction renumbers them 0..m-1 in order, "
              "every kept non-root row's new parent is the new id of its old parent, the new root has none, the mapping lists the old ids, every column is read "
              "through the mapping. Removal marks reach exactly the descendants of marked nodes.")
LEVEL_NOTE = "Trusted: Lean kernel; hand-written callback models tied by correspondence (exhaustive for all sorted trees with n ≤ 4/5); numpy fancy indexing."
