"""C06 — subtree extraction and pruning keep exactly the specified nodes."""
import warnings

import numpy as np

from harness import gen
from harness.framework import Suite

PID = "C06"
LEAN_MODS = ["SwcVerif.Props.C06", "SwcVerif.Props.C06Gen", "SwcVerif.Props.C06Cut", "SwcVerif.Props.C06ShortTip"]
TRANSLATE_ALGO = ["AlgoTraverse", "AlgoSubtree", "AlgoNode", "AlgoCut", "AlgoShortTip"]   # Gen/AlgoSubtree.lean is regenerated on every run from swc_utils/subtree.py (to_sub_topology,
# get_subtree_impl and its collecting lambda, propagate_removal and its closure); it calls the traversal generated into Gen/AlgoTraverse.lean;
# Gen/AlgoCut.lean from tree_utils.py (to_subtree, cut_tree in both overloads with the closures _enter / _leave that call the user's callback)
DRIVER_FILES = ["SwcVerif/Model/AlgoRunSubtree.lean", "SwcVerif/Model/AlgoRunCut.lean", "SwcVerif/Model/AlgoRunShortTip.lean"]
THEOREMS = [
    "C06.toSubTopology_spec", "C06.toSubTopology_ok_iff", "C06.attrs_preserved", "C06.subtree_nodes", "C06.propagate_marks",
    "C06.removedSet_all", "C06.removedSet_sound", "C06.toSubtree_kept", "C06.cutEnter_removed", "C06.cutLeave_removed",
    "C06.cutByType_kept", "C06.cutByOrder_rule", "C06.isFurcation_iff", "C06.cutShortTip_removed",
    # refinement: the definition generated from to_sub_topology on this run equals the model (KeyError included)
    "RefineSub.toSubTopology_refines", "C06.generated_toSubTopology_eq_model",
    # the generated get_subtree_impl (collecting lambda + generated traversal + fancy indexing + to_sub_topology) equals the model's getSubtree;
    # the generated propagate_removal (closure writing the id column through the traversal) marks exactly the descendants
    "RefineClosures.spec_wrap", "RefineClosures.spec_wrap_on", "RefineClosures.traverse_closures_on", "RefineClosures.spec_abs",
    "C06.generated_getSubtree_eq_model", "C06.propagate_closure", "C06.absMark_step", "C06.generated_propagateRemoval",
    # Gen/AlgoCut.lean (tree_utils.py): the generated to_subtree equals the model's toSubtree; the generated cut_tree (both overloads, closures
    # _enter / _leave calling the user's callback) equals the model's wrapper + to_subtree for EVERY stateful user callback, and Sub.cutTreeEnter /
    # Sub.cutTreeLeave for the callbacks the model takes
    "RefineCut.for1_loop", "RefineCut.markAll_inrange", "RefineCut.toSubtree_refines", "RefineCut.cutEnter_closure", "RefineCut.cutLeave_closure",
    "RefineCut.cutTreeEnter_refines", "RefineCut.cutTreeLeave_refines", "RefineCut.cutTreeEnter_refines_model", "RefineCut.cutTreeLeave_refines_model",
    "C06.generated_toSubtree_eq_model", "C06.generated_toSubtree_kept", "C06.generated_cutTreeEnter", "C06.generated_cutTreeEnter_eq_model",
    "C06.generated_cutTreeLeave", "C06.generated_cutTreeLeave_eq_model",
    # transforms/tree.py: CutByFurcationOrder._enter as translated is the model's callback; the pipeline cut_tree(x, enter=self._enter) equals Sub.cutByOrder
    "RefineCut.isFurcation_generated", "RefineCut.orderEnter_refines", "RefineCut.cutByOrder_refines",
    "C06.generated_orderEnter_eq_model", "C06.generated_cutByOrder_eq_model",
    # CutByType.__call__ as translated (the removals set, the leave closure, traversal, to_subtree) equals Sub.cutByType
    "RefineCut.typeLeave_closure", "RefineCut.typeLeaveL_step", "RefineCut.cutByType_refines", "C06.generated_cutByType_eq_model",
    # Gen/AlgoShortTip.lean (transforms/tree.py::CutShortTipBranch): the generated `_leave` per node (the while walk down the first children,
    # the loop over the children's values, the callback list), the whole traversal, and `__call__` = Sub.cutShortTip with the user callbacks
    # called once per reported branch
    "RefineShortTip.while_walk", "RefineShortTip.for2_step", "RefineShortTip.for2_loop", "RefineShortTip.tipLeave_node",
    "RefineShortTip.spec_tipLeave", "RefineShortTip.cbOk_top", "RefineShortTip.tipRemoved_eq", "RefineShortTip.cutShortTip_refines",
    "C06.generated_cutShortTip_eq_model", "C06.generated_cutShortTip_removed", "C06.generated_cutShortTip_calls", "C06.generated_tipLeave_node",
    # tree_utils_impl.py::to_subtree_impl over all columns: exact characterisation on every input; = model compaction + takeRows of every column
    "RefineShortTip.toSubtreeImpl_eq", "RefineShortTip.take_inrange", "RefineShortTip.toSubtreeImpl_refines", "C06.generated_toSubtreeImpl_eq_model",
    # to_subtree / get_subtree_impl / get_subtree / to_sub_tree over all columns (they call the translated to_subtree_impl): factorisation through the
    # topology-level translations on every input, then = model + takeRows of every column (+ the old→new dictionary), inputs unchanged
    "RefineShortTip.getSubtreeImplTree_eq", "RefineShortTip.getSubtreeTree_eq", "RefineShortTip.getSubtreeTree_refines",
    "RefineShortTip.for1T_loop", "RefineShortTip.toSubtreeTree_eq", "RefineShortTip.toSubtreeTree_refines",
    "RefineShortTip.depFor1_loop", "RefineShortTip.toSubTree_eq", "RefineShortTip.toSubtree_unfold", "RefineShortTip.toSubTree_refines",
    "C06.generated_toSubtreeTree_eq_model", "C06.generated_getSubtreeTree_eq_model", "C06.generated_toSubTree_eq_model",
]
TRUSTED = ["hand-written models Model/Subtree.lean of to_sub_topology / propagate_removal / get_subtree_impl / to_subtree / cut_tree / CutByType / "
           "CutByFurcationOrder / CutShortTipBranch (tied by the c06.ops correspondence: new parents and new→old mapping compared exactly; all of them are "
           "additionally proved equal to the definitions generated from the source on every run, Refine/Subtree.lean, Refine/Cut.lean, Refine/ShortTip.lean)"]
ASSUMPTIONS = [
    "the traversal loop is C04's machine; numpy fancy indexing `col[mapping]` is `mapping.map col`",
    "CutShortTipBranch: edge lengths are compared as exact numbers (generated trees have axis-aligned integer edges, so float sums are exact)",
]

RMKINDS = ["list", "list", "set", "array", "tuple", "generator", "chain", "map"]
# how a cut callback hands back its removal request: a python bool, a numpy bool, or whatever the comparison it makes yields ("asis": comparing
# node attributes - `n.type == 2`, `n.r > 0.5` - yields numpy bools, comparing python counters yields python bools)
FLAGS = ["py", "np", "asis"]
# how an integer / float parameter (start node, type, furcation order, length threshold) arrives: as a python number or as a numpy scalar
# (taken out of an array / a column / `np.arange`)
INT_KINDS = ["py", "int64", "int32", "py", "intp"]
FLOAT_KINDS = ["py", "float64", "float32"]
# the operations that report a new-to-old mapping through `out_mapping`
MAP_OPS = ("subtree", "tosub")


# per-node attributes beyond the seven SWC columns: `Tree(n, ..., key=array)` takes any array whose first axis is the node axis, `Node[key]` is its
# row - a scalar (ndim 1: eswc level / mode / timestamp), a vector (ndim 2: colour, direction, embedding) or a small matrix (ndim 3)
COL_TAILS = [[2], [3], [1], [4], [2, 2], [3, 2], [], [2, 1, 2], [3], [0]]
ND_TAILS = [t_ for t_ in COL_TAILS if t_ and 0 not in t_]
COL_DTYPES = ["float32", "float64", "int32", "int64", "float32", "uint8", "bool"]


def extra_cols(rng, k):
    """the specs of 2-3 extra per-node columns, at least one of them with ndim >= 2 (round-robin over the tails by k)"""
    specs = []
    flat = rng.random() < 0.4      # every column one value per node: with the standard columns a set of 1-D columns of mixed dtypes (seed C06_m17)
    for j in range(rng.randint(2, 3)):
        tail = [] if flat else (COL_TAILS[(k + j * 3) % len(COL_TAILS)] if j else ND_TAILS[k % len(ND_TAILS)])
        specs.append({"name": f"a{j}_" + ("x".join(map(str, tail)) or "s"), "tail": tail, "dtype": rng.choice(COL_DTYPES),
                      "mul": rng.choice([1, 1, 2, 3]), "off": rng.choice([0, 0.25, 1, 7, -3.5])})
    # ... and always one plain per-node label column of a 64-bit integer type (with the standard columns it makes a mixed int / float set of 1-D columns)
    specs.append({"name": "lab_s", "tail": [], "dtype": "int64", "mul": rng.choice([1, 3]), "off": rng.choice([0, 7])})
    return specs


def col_values(spec, n):
    """the column of a spec for n nodes: every component of every node holds a value of its own (node-major counter, scaled and shifted)"""
    size = int(np.prod(spec["tail"], dtype=int)) if spec["tail"] else 1
    a = np.arange(n * size, dtype=np.float64).reshape([n] + list(spec["tail"])) * spec["mul"] + spec["off"]
    if spec["dtype"] == "bool":
        return (np.floor(a) % 3 == 0) ^ (np.arange(n).reshape([n] + [1] * len(spec["tail"])) % 2 == 1)
    if spec["dtype"] == "uint8":
        return (np.floor(a) % 251).astype(np.uint8)
    if spec["dtype"] == "int64":
        # 64-bit labels no double can hold (segment ids, hashes; seed C06_m17: a gather through one float64 table rounds them)
        return a.astype(np.int64) + np.int64(2 ** 60 + 1)
    return a.astype(spec["dtype"])


def as_param(v, kind):
    return v if kind in (None, "py") else getattr(np, kind)(v)


def as_flag(x, flag):
    return bool(x) if flag == "py" else (np.bool_(x) if flag == "np" else x)


def attr_holds(pred, types, i):
    """the rule of a `cutattr` callback, on the effective tree: node i is designated iff its attribute compares so (r and tag are the
    position tags (i + 1) / 8 and 1000 + i that `run` gives every tree)"""
    a, v = pred["attr"], pred["v"]
    if a == "type":
        return types[i] == v
    if a == "r":
        return (i + 1) / 8 > v
    if a == "tag":
        return 1000 + i >= v
    raise ValueError(a)


def dump_container(om):
    """the caller's out_mapping container, whole: every key of a dict, every entry of a list"""
    if isinstance(om, dict):
        return {"dict": sorted([int(k), int(v)] for k, v in om.items())}
    return {"list": [int(v) for v in om]}


def container_of(kind, m):
    return {"dict": [[i, o] for i, o in enumerate(m)]} if kind == "dict" else {"list": list(m)}


def lattice_tree(rng, n, shape):
    pids = gen.renumber_root0(rng, gen.parents_sorted(rng, n, shape))
    n = len(pids)
    xyz = [None] * n
    elen = [0] * n
    # place parents before children
    order, kids = [], {}
    for i, p in enumerate(pids):
        kids.setdefault(p, []).append(i)
    st = [0]
    xyz[0] = [rng.randint(-5, 5), rng.randint(-5, 5), rng.randint(-5, 5)]
    while st:
        v = st.pop()
        for c in kids.get(v, []):
            ax = rng.randrange(3)
            L = rng.randint(1, 4)
            q = list(xyz[v]); q[ax] += rng.choice([-1, 1]) * L
            xyz[c] = q; elen[c] = L
            st.append(c)
    return {"n": n, "pids": pids, "types": [1] + [rng.choice([2, 3, 3, 4]) for _ in range(n - 1)], "xyz": [[float(c) for c in p] for p in xyz],
            "r": [(i + 1) / 8 for i in range(n)], "elen": elen}


def far_twig_tree(rng, e, f, n, shape):
    """a tree whose branching part hangs at the end of a long winding fibre: the path length from the root to it is about 2^e length units
    u = 2^-f (a projection axon, coordinates in nm), every coordinate and every edge length is a multiple of u below 2^24 u (exact in
    float32, axis-aligned edges: lengths, their sums and the comparison with a threshold at a half unit are exact); a few twigs sit at the
    root as well → (tree, K = the node the branching part hangs on)"""
    u = 2.0 ** -f
    base = lattice_tree(rng, n, shape)
    m = rng.choice([1, 1, 3, 5])
    K = max(2, 2 ** (e - 22))
    S = 2 ** e // K
    pos = [[rng.choice([0, 0, 1, -1]) * 2 ** rng.randint(10, 21) + rng.randint(-5, 5), rng.randint(-5, 5), rng.randint(-5, 5)]]
    pids, elen, types = [-1], [0], [1]
    for j in range(K):
        L = S - rng.randint(0, min(999, S // 2))
        q = list(pos[-1]); q[j % 3] += (1 if (j // 3) % 2 == 0 else -1) * L
        pos.append(q); pids.append(j); elen.append(L); types.append(2)
    b0 = base["xyz"][0]
    for i in range(1, base["n"]):
        pos.append([int(pos[K][c] + m * (base["xyz"][i][c] - b0[c])) for c in range(3)])
        pids.append(K + base["pids"][i]); elen.append(m * base["elen"][i]); types.append(base["types"][i])
    for _ in range(rng.randint(1, 2)):            # twigs of the same make at the root
        v = 0
        for _ in range(rng.randint(1, 3)):
            L = m * rng.randint(1, 4)
            q = list(pos[v]); q[rng.randrange(3)] += rng.choice([-1, 1]) * L
            pos.append(q); pids.append(v); elen.append(L); types.append(3); v = len(pids) - 1
    nn = len(pids)
    assert max(abs(c) for q in pos for c in q) < 2 ** 24
    return {"n": nn, "pids": pids, "types": types, "xyz": [[c * u for c in q] for q in pos], "r": [(i + 1) / 8 for i in range(nn)],
            "elen": [L * u for L in elen], "scale": 2 ** (f + 1)}, K


def tip_branches(t):
    """(furcation, first node, length) of every terminal branch"""
    kids = kids_of(t["pids"])
    out = []
    for fu, cs in kids.items():
        if fu < 0 or len(cs) < 2:
            continue
        for c in cs:
            L, x = t["elen"][c], c
            while len(kids.get(x, [])) == 1:
                x = kids[x][0]; L += t["elen"][x]
            if not kids.get(x):
                out.append((fu, c, L))
    return out


def build_input(case):
    """the Tree a case describes, built on the real library: the (possibly derived) tree with the position tags r / tag / level and the extra
    columns of the case → (tree, what the oracle must know about a derivation, extra column specs, a copy of every column before the call)"""
    from swcgeom.core import Tree
    from swcgeom.transforms import CutByFurcationOrder, CutByType, CutShortTipBranch

    t = gen.make_tree(case["tree"])
    n0 = case["tree"]["n"]
    extra = {}
    if case.get("derive"):
        from swcgeom.core.tree_utils import redirect_tree, sort_tree

        # ask the original tree everything first
        with warnings.catch_warnings():
            warnings.simplefilter("ignore")
            CutByFurcationOrder(2)(t); CutByType(3)(t); CutShortTipBranch(thre=2)(t); t.get_branches(); t.get_tips(); t.get_furcations()
            [(t.node(i).is_furcation(), t.node(i).is_tip(), len(t.node(i).children())) for i in range(n0)]
        d = case["derive"]
        t = sort_tree(t) if d == "sort" else redirect_tree(t, int(d.split(":")[1]))
        extra["eff"] = {"pids": t.pid().tolist(), "types": t.type().tolist(), "xyz": t.xyz().astype(float).tolist()}
    # identity tag by position (the radius), plus two columns beyond the seven standard ones
    cols = {k: t.get_ndata(k).copy() for k in ["id", "type", "x", "y", "z", "pid"]}
    cols["r"] = ((np.arange(n0) + 1) / 8).astype(np.float32)
    cols["tag"] = (1000.0 + np.arange(n0)).astype(np.float32)
    cols["level"] = ((np.arange(n0) * 7) % 5).astype(np.int32)
    specs = case.get("cols") or []
    for c in specs:
        cols[c["name"]] = col_values(c, n0)
    if case.get("derive"):
        for c in ["r", "tag", "level"] + [c["name"] for c in specs]:
            t.ndata[c] = cols[c]                                                                       # same (derived, queried) object
    elif case.get("names"):
        from swcgeom.core.swc_utils import SWCNames

        nm = case["names"]
        t = Tree(n0, **{nm.get(k, k): v for k, v in cols.items()}, names=SWCNames(**nm))
    else:
        t = Tree(n0, **cols)
    before = {k: t.get_ndata(k).copy() for k in t.keys()}
    return t, extra, specs, before


def kids_of(pids):
    k = {}
    for i, p in enumerate(pids):
        k.setdefault(p, []).append(i)
    return k


def desc(kids, v):
    out, st = [], [v]
    while st:
        x = st.pop(); out.append(x); st.extend(kids.get(x, []))
    return out


def expected_kept(op, t):
    """the rule of each operation read literally → (root, kept set) or None when everything goes"""
    pids, n = t["pids"], t["n"]
    kids = kids_of(pids)
    nk = lambda v: len(kids.get(v, []))
    removed = set()
    root = 0
    k = op["op"]
    if k == "subtree":
        root = op["n"]
        return root, set(desc(kids, root))
    if k in ("tosub", "cutenter"):
        seeds = op["rm"]
    elif k == "cutattr":
        seeds = [v for v in range(n) if attr_holds(op["pred"], t["types"], v)]
    elif k == "cutdepth":
        depth = {0: 0}
        for v in desc(kids, 0):
            for c in kids.get(v, []):
                depth[c] = depth[v] + 1
        seeds = [v for v in range(n) if depth[v] >= op["d"]]
    elif k == "cutleave":
        h = {}
        for v in reversed(desc(kids, 0)):
            h[v] = max([h[c] + 1 for c in kids.get(v, [])], default=0)
        # desc order is not a topological order in general; recompute properly
        def height(v):
            return max([height(c) + 1 for c in kids.get(v, [])], default=0)
        seeds = [v for v in range(1, n) if height(v) <= op["h"]]
    elif k == "cuttype":
        keep = set()
        for v in range(n):
            if t["types"][v] == op["t"]:
                x = v
                while x != -1:
                    keep.add(x); x = pids[x]
        seeds = [v for v in range(n) if v not in keep]
    elif k == "cutorder":
        level = {0: 0}
        order = desc(kids, 0)
        for v in order:
            for c in kids.get(v, []):
                level[c] = level[v] + (1 if nk(c) > 1 else 0)
        seeds = [v for v in range(n) if level[v] >= op["m"]]
    elif k == "cuttip":
        seeds = []
        for f in range(n):
            if nk(f) < 2:
                continue
            for c in kids[f]:
                L, x, ok = t["elen"][c], c, True
                while nk(x) == 1:
                    x = kids[x][0]; L += t["elen"][x]
                if nk(x) != 0:
                    continue   # the chain reaches another furcation: not a terminal branch
                if L <= op["thre"]:
                    seeds.append(c)
    for s in seeds:
        removed.update(desc(kids, s))
    return 0, set(range(n)) - removed


class Ops(Suite):
    name = "c06.ops"

    def cases(self, rng, tier, widen):
        out = []
        big = tier == "thorough" or widen
        k = 0
        # exhaustively all (tree, node) pairs for small sorted trees
        import itertools
        for n in range(1, 6 if big else 5):
            for ps in itertools.product(*[range(i) for i in range(1, n)]):
                pids = [-1] + list(ps)
                t = {"n": n, "pids": pids, "types": [1] + [2 + (i % 3) for i in range(1, n)], "xyz": [[float(i), 0.0, 0.0] for i in range(n)],
                     "r": [(i + 1) / 8 for i in range(n)], "elen": [0] + [1] * (n - 1)}
                for v in range(n):
                    out.append({"class": f"all-n{n}/subtree", "tree": t, "op": {"op": "subtree", "n": v}})
                if n >= 2:
                    out.append({"class": f"all-n{n}/tosub", "tree": t, "op": {"op": "tosub", "rm": [rng.randrange(1, n)], "rmkind": rng.choice(RMKINDS)}})
                    # a callback that decides from the node's attributes, in the enter and in the leave form
                    for form in ("enter", "leave"):
                        out.append({"class": f"all-n{n}/cutattr", "tree": t, "flag": "asis",
                                    "op": {"op": "cutattr", "form": form, "pred": self._pred(rng, t, False)}})
                # one out_mapping container used for two extractions in a row, the second result smaller than the first: every such pair
                kids = kids_of(pids)
                size = [len(desc(kids, v)) for v in range(n)]
                for a in range(n):
                    for b in range(n):
                        if size[a] > size[b]:
                            mk = ["dict", "list", "dict"][(a + b + n) % 3]
                            out.append({"class": f"all-n{n}/subtree/reuse-shrink", "tree": t, "mapkind": mk,
                                        "op": {"op": "subtree", "n": b, "via": rng.choice(["func", "node"])},
                                        "reuse": [{"op": "subtree", "n": a, "via": rng.choice(["func", "node"])}]})
        for n in gen.sizes(tier, widen):
            for _ in range(2 if not big else 6):
                shape = gen.pick_shape(rng, k); k += 1
                t = lattice_tree(rng, n, shape)
                nn = t["n"]
                ops = [{"op": "subtree", "n": rng.randrange(nn), "via": rng.choice(["func", "node"])}]
                if nn > 1:
                    ops += [{"op": "tosub", "rm": rng.sample(range(1, nn), rng.randint(0, min(4, nn - 1))), "rmkind": rng.choice(RMKINDS)},
                            {"op": "cutenter", "rm": rng.sample(range(1, nn), rng.randint(0, min(3, nn - 1)))},
                            {"op": "cutdepth", "d": rng.randint(1, 5)},
                            {"op": "cutleave", "h": rng.randint(0, 2)},
                            {"op": "cuttype", "t": rng.choice(sorted(set(t["types"])))},
                            {"op": "cutorder", "m": rng.randint(1, 3)},
                            {"op": "cuttip", "thre": rng.randint(0, 7)},
                            {"op": "cutattr", "form": "enter"}, {"op": "cutattr", "form": "leave"}]
                for op in ops:
                    case = {"class": f"{shape}/{op['op']}", "tree": t, "op": op, "mapkind": rng.choice(["list", "dict", None])}
                    # a third of the operations act on a tree DERIVED (re-rooted / sorted copy) from a tree on which every query and cut has
                    # been run before: the result depends on the tree given, not on what was asked of its ancestors
                    if nn >= 3 and rng.random() < 0.34 and op["op"] not in ("cuttip",):
                        case["derive"] = rng.choice(["sort", f"redirect:{rng.randrange(1, nn)}"])
                        case["class"] += "/derived"
                    if op["op"] == "cutattr":
                        op["pred"] = self._pred(rng, t, "derive" in case)
                    # the flavour of the values that cross the API: the removal flag a callback hands back (python bool / numpy bool / whatever
                    # its comparison yields) and the numeric parameters (python numbers / numpy scalars). Round-robin, so that every flavour
                    # meets every operation in every run.
                    if op["op"] in ("cutenter", "cutdepth", "cutleave", "cutattr"):
                        case["flag"] = FLAGS[(k + len(out)) % len(FLAGS)]
                    else:
                        kinds = FLOAT_KINDS if op["op"] == "cuttip" else INT_KINDS
                        case["pkind"] = kinds[(k + len(out)) % len(kinds)]
                    out.append(case)
                    if nn >= 4 and op["op"] in ("cutorder", "cutleave", "cuttype") and "derive" not in case:
                        # the rules that ask nodes about their children (furcation order, tips): always also on a re-rooted copy
                        out.append(dict(case, derive=f"redirect:{rng.randrange(1, nn)}", **{"class": case["class"] + "/derived"}))
                    if op["op"] in ("cutorder", "cutleave", "cutdepth", "cutenter", "cuttype") and nn >= 3:
                        # ... and the same request once more in the other flavour
                        if "flag" in case:
                            out.append(dict(case, flag="np" if case["flag"] == "py" else "py", **{"class": case["class"] + "/flavour"}))
                        else:
                            out.append(dict(case, pkind="int64" if case["pkind"] == "py" else "py", **{"class": case["class"] + "/flavour"}))
                # the caller's out_mapping container has been used before: the same dict / list receives the mapping of several extractions
                # and removals in a row (any of the three entry points), growing and SHRINKING results alike - what it holds after a call is
                # the mapping of that call's result and nothing else
                if nn >= 3:
                    kids = kids_of(t["pids"])
                    for mk in ("dict", "list", "dict"):
                        steps = []
                        for _ in range(rng.randint(2, 4)):
                            if rng.random() < 0.55:
                                steps.append({"op": "subtree", "n": rng.randrange(nn), "via": rng.choice(["func", "node"])})
                            else:
                                steps.append({"op": "tosub", "rm": rng.sample(range(1, nn), rng.randint(0, min(3, nn - 1))), "rmkind": rng.choice(RMKINDS)})
                        # guaranteed: the last result is smaller than the one before it
                        sz = lambda o: len(expected_kept(o, t)[1])
                        if sz(steps[-1]) >= sz(steps[-2]):
                            v = rng.randrange(1, nn)
                            whole = [{"op": "tosub", "rm": [], "rmkind": "list"}, {"op": "subtree", "n": 0, "via": rng.choice(["func", "node"])}]
                            if rng.random() < 0.5:
                                steps[-1] = {"op": "subtree", "n": v, "via": rng.choice(["func", "node"])}
                                steps[-2] = rng.choice(whole + [{"op": "subtree", "n": t["pids"][v], "via": rng.choice(["func", "node"])}])
                            else:
                                steps[-1] = {"op": "tosub", "rm": [v] + rng.sample(range(1, nn), rng.randint(0, 2)), "rmkind": rng.choice(RMKINDS)}
                                steps[-2] = rng.choice(whole)
                        sizes_ = [sz(o) for o in steps]
                        kind = "shrink" if sizes_[-1] < sizes_[-2] else "other"
                        case = {"class": f"{shape}/{steps[-1]['op']}/reuse-{kind}", "tree": t, "op": steps[-1], "reuse": steps[:-1], "mapkind": mk}
                        if rng.random() < 0.3:     # (on a derived tree the sizes are those of the derived tree: no guarantee there)
                            case["derive"] = rng.choice(["sort", f"redirect:{rng.randrange(1, nn)}"])
                            case["class"] = f"{shape}/{steps[-1]['op']}/reuse/derived"
                        out.append(case)
        # trees that carry additional per-node attributes of ANY dimensionality (vectors, small matrices, next to scalar ones), through every
        # operation and entry point: the survivors keep all their attributes, whatever their shape. (Own block with its own counter, after
        # everything else: the cases above are the same as before for a given seed.)
        k = 0
        for n in ([2, 3, 5, 6, 9, 14, 23] if not big else [2, 3, 4, 5, 6, 8, 11, 16, 24, 40, 70, 120]):
            for _ in range(1 if not big else 3):
                shape = gen.pick_shape(rng, k + 2); k += 1
                t = lattice_tree(rng, n, shape)
                nn = t["n"]
                cols = extra_cols(rng, k)
                nd = max(len(c["tail"]) for c in cols) + 1
                ops = [{"op": "subtree", "n": rng.randrange(nn), "via": rng.choice(["func", "node"])},
                       {"op": "subtree", "n": rng.randrange(nn), "via": rng.choice(["func", "node"])}]
                if nn > 1:
                    ops += [{"op": "tosub", "rm": rng.sample(range(1, nn), rng.randint(0, min(4, nn - 1))), "rmkind": rng.choice(RMKINDS)},
                            {"op": "tosub", "rm": rng.sample(range(1, nn), rng.randint(1, min(2, nn - 1))), "rmkind": rng.choice(RMKINDS)},
                            {"op": "cutenter", "rm": rng.sample(range(1, nn), rng.randint(0, min(3, nn - 1)))},
                            {"op": "cutdepth", "d": rng.randint(1, 5)},
                            {"op": "cutleave", "h": rng.randint(0, 2)},
                            {"op": "cuttype", "t": rng.choice(sorted(set(t["types"])))},
                            {"op": "cutorder", "m": rng.randint(1, 3)},
                            {"op": "cuttip", "thre": rng.randint(0, 7)},
                            {"op": "cutattr", "form": rng.choice(["enter", "leave"])}]
                for j, op in enumerate(ops):
                    case = {"class": f"{shape}/{op['op']}/cols-{nd}d", "tree": t, "op": op, "cols": cols, "mapkind": ["list", "dict", None][(k + j) % 3]}
                    if nn >= 3 and rng.random() < 0.25 and op["op"] != "cuttip":
                        case["derive"] = rng.choice(["sort", f"redirect:{rng.randrange(1, nn)}"])
                        case["class"] = f"{shape}/{op['op']}/derived/cols-{nd}d"
                    if op["op"] == "cutattr":
                        op["pred"] = self._pred(rng, t, "derive" in case)
                    if op["op"] in ("cutenter", "cutdepth", "cutleave", "cutattr"):
                        case["flag"] = FLAGS[(k + j) % len(FLAGS)]
                    else:
                        kinds = FLOAT_KINDS if op["op"] == "cuttip" else INT_KINDS
                        case["pkind"] = kinds[(k + j) % len(kinds)]
                    out.append(case)
        # trees built with their OWN column-name table (the public `names=` option of Tree): every operation on them. (Own block, after
        # everything else.)  `cutattr` / `cuttip` / `cuttype` read attributes through the node handles, which honour the table.
        k = 0
        for n in ([2, 3, 4, 6, 9] if not big else [2, 3, 4, 5, 6, 8, 11, 16, 24, 40]):
            shape = gen.pick_shape(rng, k + 5); k += 1
            t = lattice_tree(rng, n, shape)
            nn = t["n"]
            ops = [{"op": "subtree", "n": rng.randrange(nn), "via": ["func", "node"][k % 2]}]
            if nn > 1:
                ops += [{"op": "subtree", "n": rng.randrange(1, nn), "via": ["node", "func"][k % 2]},
                        {"op": "tosub", "rm": rng.sample(range(1, nn), rng.randint(1, min(2, nn - 1))), "rmkind": rng.choice(RMKINDS)},
                        {"op": "cutenter", "rm": rng.sample(range(1, nn), rng.randint(0, min(3, nn - 1)))},
                        {"op": "cutleave", "h": rng.randint(0, 2)},
                        {"op": "cuttype", "t": rng.choice(sorted(set(t["types"])))},
                        {"op": "cutorder", "m": rng.randint(1, 3)}]
            for j, op in enumerate(ops):
                case = {"class": f"{shape}/{op['op']}/own-names", "tree": t, "op": op, "names": gen.OWN_NAMES[(k + j) % len(gen.OWN_NAMES)],
                        "mapkind": ["list", "dict", None][(k + j) % 3]}
                if op["op"] in ("cutenter", "cutdepth", "cutleave"):
                    case["flag"] = FLAGS[(k + j) % len(FLAGS)]
                else:
                    case["pkind"] = INT_KINDS[(k + j) % len(INT_KINDS)]
                out.append(case)
        # CutShortTipBranch on terminal branches FAR from the root in path length (a long projection fibre / coordinates in small units): the
        # branching part hangs at path length ~2^e units behind a winding fibre, e round-robin from "tens of units" to "beyond the float32
        # mantissa"; all lengths are exact multiples of the unit, the thresholds sit half a unit beside the length of an actual terminal
        # branch (just short enough / just too long). (Own block, after everything else.)
        k = 0
        exps = [27, 21, 29, 25, 28, 12, 26, 24] if not big else [27, 21, 29, 25, 28, 12, 26, 24, 29, 17, 28, 23, 27, 8, 26, 29]
        for e in exps:
            shape = gen.pick_shape(rng, k + 1); k += 1
            f = rng.randint(0, 5)
            t, K = far_twig_tree(rng, e, f, rng.choice([6, 9, 14, 20]), shape)
            u = 2.0 ** -f
            brs = tip_branches(t)
            far = [b for b in brs if b[0] >= K] or brs
            thres = []
            for b in rng.sample(far, min(2, len(far))):
                thres += [b[2] - u / 2, b[2] + u / 2]
            thres.append((rng.randint(0, 12) + 0.5) * u)
            for j, th in enumerate(thres[:1] + thres[-2:] if not big else thres):
                pk = FLOAT_KINDS[(k + j) % len(FLOAT_KINDS)]
                if float(np.float32(th)) != th:      # the threshold handed over is the threshold meant: float32 only where it holds it exactly
                    pk = "float64"
                out.append({"class": f"{shape}/cuttip/far-twig-path2^{e}u", "tree": t, "op": {"op": "cuttip", "thre": th, "cb": (k + j) % 2 == 1},
                            "pkind": pk, "mapkind": None})
        return out

    @staticmethod
    def _pred(rng, t, derived):
        """a rule that a callback evaluates on the node's own attributes; it never designates the root (type 1, smallest r, smallest tag)"""
        n = t["n"]
        a = rng.choice(["r", "tag"] if derived else ["type", "r", "tag", "type"])
        if a == "type":
            return {"attr": "type", "v": rng.choice([2, 3, 4])}
        if a == "r":
            return {"attr": "r", "v": rng.choice([rng.randint(1, n) / 8, rng.randint(1, n) / 8 + 1 / 16])}
        return {"attr": "tag", "v": 1000 + rng.randint(1, n)}

    def run(self, case):
        from swcgeom.core.tree_utils import cut_tree, get_subtree, to_subtree
        from swcgeom.transforms import CutByFurcationOrder, CutByType, CutShortTipBranch

        from swcgeom.core import Tree

        t, extra, specs, before = build_input(case)
        op = case["op"]
        k = op["op"]
        mk = case.get("mapkind") if k in MAP_OPS else None
        om = [] if mk == "list" else ({} if mk == "dict" else None)
        pk, flag = case.get("pkind"), case.get("flag", "asis")
        import itertools

        def extract(o, om, pk=None):
            if o["op"] == "subtree":
                v = as_param(o["n"], pk)
                return t.node(v).subtree(out_mapping=om) if o.get("via") == "node" else get_subtree(t, v, out_mapping=om)
            # `removals: Iterable[int]`: lists, sets, arrays and one-shot iterables (generator, chain, map) alike
            rk = o.get("rmkind", "list")
            rm = list(o["rm"])
            arg = {"list": lambda: rm, "set": lambda: set(rm), "array": lambda: np.array(rm, dtype=np.int64), "tuple": lambda: tuple(rm),
                   "generator": lambda: (i for i in rm), "chain": lambda: itertools.chain(rm[:1], rm[1:]), "map": lambda: map(int, rm)}[rk]()
            return to_subtree(t, arg, out_mapping=om)

        # the same container has received the mappings of these calls before
        if case.get("reuse") and om is not None:
            extra["steps"] = []
            for o in case["reuse"]:
                ys = extract(o, om)
                extra["steps"].append({"m": [int(round(float(v) * 8)) - 1 for v in ys.r()], "container": dump_container(om)})
        if k == "subtree":
            y = extract(op, om, pk)
            # the other entry point, with a container of its own
            om2 = None if om is None else type(om)()
            y2 = extract(dict(op, via="func" if op.get("via") == "node" else "node"), om2)
            extra["node_subtree_same"] = bool(np.array_equal(y.pid(), y2.pid()) and np.array_equal(y.r(), y2.r()))
            if om2 is not None:
                extra["container2"] = dump_container(om2)
        elif k == "tosub":
            y = extract(op, om)
            # the gather behind it, called directly on the marked topology `to_subtree` builds, with a pre-filled list as `out_mapping`
            # (compared with the GENERATED to_subtree_impl over the columns id / pid / type / r, op gsubimpl)
            from swcgeom.core.swc_utils import REMOVAL as REMOVAL_, propagate_removal
            from swcgeom.core.tree_utils_impl import to_subtree_impl
            try:
                marked = t.id().copy()
                for i in op["rm"]:
                    marked[i] = REMOVAL_
                sub = propagate_removal((marked, t.pid()))
                sub0 = (sub[0].copy(), sub[1].copy())
                cols0 = {c: np.array(t.get_ndata(c), copy=True) for c in t.keys()}
                om3 = [7, 7]
                n3, nd3, src3, nm3 = to_subtree_impl(t, sub, out_mapping=om3)
                extra["impl"] = {"sub_ids": sub0[0].tolist(), "sub_pids": sub0[1].tolist(), "n": int(n3),
                                 "id": nd3[t.names.id].tolist(), "pid": nd3[t.names.pid].tolist(), "type": nd3[t.names.type].tolist(),
                                 "r8": [int(round(float(v) * 8)) for v in nd3[t.names.r]], "mapping": [int(v) for v in om3],
                                 "in_types": t.type().tolist(), "in_r8": [int(round(float(v) * 8)) for v in t.r()],
                                 "in_ids": t.id().tolist(), "in_pids": t.pid().tolist(),
                                 "same": bool(src3 == t.source and nm3 is t.names and sorted(nd3.keys()) == sorted(t.keys())
                                              and all(np.array_equal(cols0[c], t.get_ndata(c)) for c in cols0)
                                              and np.array_equal(sub0[0], sub[0]) and np.array_equal(sub0[1], sub[1]))}
            except Exception as e:  # noqa: BLE001
                extra["impl"] = {"exc": type(e).__name__}
            # the deprecated wrapper `to_sub_tree` on the marked (not yet propagated) topology (compared with the GENERATED to_sub_tree, op gtosubdep)
            try:
                from swcgeom.core.tree_utils import to_sub_tree
                with warnings.catch_warnings():
                    warnings.simplefilter("ignore")
                    y4, idmap4 = to_sub_tree(t, (marked.copy(), t.pid().copy()))
                extra["dep"] = {"marked": [int(v) for v in marked], "id": y4.id().tolist(), "pid": y4.pid().tolist(), "type": y4.type().tolist(),
                                "r8": [int(round(float(v) * 8)) for v in y4.r()], "n": int(y4.number_of_nodes()),
                                "idmap": [[int(a), int(b)] for a, b in idmap4.items()],
                                "same": bool(y4.source == t.source and y4.names is t.names and all(np.array_equal(cols0[c], t.get_ndata(c)) for c in cols0))}
            except Exception as e:  # noqa: BLE001
                extra["dep"] = {"exc": type(e).__name__}
        elif k == "cutenter":
            rm = set(op["rm"])
            y = cut_tree(t, enter=lambda n, pv: ((0 if pv is None else pv + 1), as_flag(int(n.id) in rm, flag)))
        elif k == "cutdepth":
            d = op["d"]
            y = cut_tree(t, enter=lambda n, pv: ((0 if pv is None else pv + 1), as_flag((0 if pv is None else pv + 1) >= d, flag)))
        elif k == "cutleave":
            h = op["h"]

            def leave(n, ks):
                ht = max([x + 1 for x in ks], default=0)
                return ht, as_flag(ht <= h and int(n.id) != 0, flag)

            y = cut_tree(t, leave=leave)
        elif k == "cutattr":
            # the removal request is computed from the node's own attributes (numpy scalars), as `n.type == 2`, `n.r > 0.5`, `n["tag"] >= 1003`
            pr = op["pred"]
            v = pr["v"]
            rule = {"type": lambda n: n.type == v, "r": lambda n: n.r > v, "tag": lambda n: n["tag"] >= v}[pr["attr"]]
            if op["form"] == "enter":
                y = cut_tree(t, enter=lambda n, pv: (None, as_flag(rule(n), flag)))
            else:
                y = cut_tree(t, leave=lambda n, ks: (1 + sum(ks), as_flag(rule(n), flag)))
        elif k == "cuttype":
            y = CutByType(as_param(op["t"], pk))(t)
        elif k == "cutorder":
            with warnings.catch_warnings():
                warnings.simplefilter("ignore")
                y = CutByFurcationOrder(as_param(op["m"], pk))(t)
        else:
            # every other case hands `__init__` a user callback that records the branches it is called with (compared with the callback state of
            # the GENERATED `__call__`, op gcuttip)
            tip_seen = [] if op.get("cb", (op["thre"] + t.number_of_nodes()) % 2 == 1) else None
            tip_kw = {} if tip_seen is None else {"callback": lambda br: tip_seen.append([int(i) for i in br.idx])}
            y = CutShortTipBranch(thre=as_param(op["thre"], pk), **tip_kw)(t)
        if k in ("tosub", "subtree"):
            # the whole input / result tables for the GENERATED to_subtree / get_subtree over all columns (ops gtosubfull / ggetsubfull)
            extra["full"] = {"pids": t.pid().tolist(), "types": t.type().tolist(), "r8": [int(round(float(v) * 8)) for v in t.r()],
                             "ids_are_positions": bool(np.array_equal(t.id(), np.arange(t.number_of_nodes()))),
                             "out": {"id": y.id().tolist(), "pid": y.pid().tolist(), "type": y.type().tolist(), "r8": [int(round(float(v) * 8)) for v in y.r()],
                                     "n": int(y.number_of_nodes()), "same": bool(y.source == t.source and y.names is t.names)}}
        res = {"pid": y.pid().tolist(), "id": y.id().tolist(), "r": [float(v) for v in y.r()], "type": y.type().tolist(),
               "xyz": y.xyz().astype(float).tolist(), "input_unchanged": bool(all(np.array_equal(before[c], t.get_ndata(c)) for c in before)),
               "keys": sorted(str(c) for c in y.keys()),
               "tag": [float(v) for v in y.get_ndata("tag")] if "tag" in y.keys() else None,
               "level": [int(v) for v in y.get_ndata("level")] if "level" in y.keys() else None}
        if specs:
            # every additional column of the result, whole: its shape and its values
            res["cols"] = {c["name"]: ({"shape": list(np.shape(y.get_ndata(c["name"]))), "vals": np.asarray(y.get_ndata(c["name"])).tolist()}
                                       if c["name"] in y.keys() else None) for c in specs}
        if om is not None:
            res["container"] = dump_container(om)
        if k == "subtree" and op["n"] == 0 and case["tree"]["types"][0] == 1:
            res["neurites"] = [[float(v) for v in s.r()] for s in t.get_neurites()]
            res["dendrites"] = [[float(v) for v in s.r()] for s in t.get_dendrites()]
        if k == "cuttip":
            res["tipcb"] = tip_seen
        if k == "cuttype":
            from swcgeom.core.tree_utils import is_binary_tree
            from swcgeom.transforms import CutAxonTree, CutDendriteTree

            res["axon_same"] = bool(np.array_equal(CutAxonTree()(t).r(), CutByType(2)(t).r()))
            res["dend_same"] = bool(np.array_equal(CutDendriteTree()(t).r(), CutByType(3)(t).r()))
            res["binary"] = [bool(is_binary_tree(t)), bool(is_binary_tree(t, exclude_soma=False))]
        res.update(extra)
        return res

    def _mapping(self, case, res):
        return [int(round(v * 8)) - 1 for v in res["r"]]

    def _tree(self, case, res):
        """the tree the operation was applied to (the derived one when there is a derivation step)"""
        t = case["tree"]
        if isinstance(res, dict) and "eff" in res:
            e = res["eff"]
            t = dict(t, pids=e["pids"], types=e["types"], xyz=e["xyz"])
            t["elen"] = [0 if p < 0 else int(round(sum(abs(a - b) for a, b in zip(e["xyz"][i], e["xyz"][p])))) for i, p in enumerate(e["pids"])]
        return t

    def lines(self, case, res):
        if "exc" in res:
            return []
        op = dict(case["op"])
        k = op.pop("op")
        t = self._tree(case, res)
        a = f"pids={gen.ints(t['pids'])}"
        if k == "subtree":
            a += f" n={op['n']}"
        elif k in ("tosub", "cutenter"):
            a += f" rm={gen.ints(op['rm'])}"
        elif k == "cutattr":
            # the model of a cut whose callback designates a given set of nodes: on entering (cutenter), or - for the leave form, where the
            # removal marks are propagated to the descendants afterwards - the removal of that set (tosub)
            k = "cutenter" if op["form"] == "enter" else "tosub"
            a += f" rm={gen.ints([v for v in range(t['n']) if attr_holds(op['pred'], t['types'], v)])}"
        elif k == "cutdepth":
            a += f" d={op['d']}"
        elif k == "cutleave":
            a += f" h={op['h']}"
        elif k == "cuttype":
            a += f" types={gen.ints(t['types'])} t={op['t']}"
        elif k == "cutorder":
            a += f" m={op['m']}"
        else:
            # (lengths in multiples of half the tree's length unit: the model compares exact numbers)
            sc = t.get("scale", 1)
            a += f" elen={gen.ints([round(x * sc) for x in t['elen']])} thre={round(op['thre'] * sc) if sc != 1 else op['thre']}"
        want = f"{gen.ints(res['pid']).replace('_', '')} / {gen.ints(self._mapping(case, res)).replace('_', '')}"
        out = [(f"{k} {a}", want)]
        # the same operation through the definitions GENERATED on this run from get_subtree_impl / propagate_removal / to_sub_topology
        # (their closures and the traversal they call included)
        if k in ("subtree", "tosub") and case["op"]["op"] in ("subtree", "tosub"):
            out.append((f"g{k} {a}", want))
        # ... and through the definitions GENERATED from tree_utils.py: to_subtree as a whole, cut_tree in both overloads with its closures
        # `_enter` / `_leave` calling the user's callback (the callback is encoded as for the model ops; the generated op runs it statefully)
        if case["op"]["op"] == "tosub":
            out.append((f"gtosubtree {a}", want))
            dep = res.get("dep")
            if dep and "exc" not in dep and res.get("full", {}).get("ids_are_positions"):
                fu = res["full"]
                out.append((f"gtosubdep pids={gen.ints(fu['pids'])} types={gen.ints(fu['types'])} xs={gen.ints(fu['r8'])} subids={gen.ints(dep['marked'])}",
                            " / ".join(gen.ints(dep[c]).replace("_", "") for c in ("id", "pid", "type", "r8")) + f" /  / {dep['n']} / "
                            + ("same" if dep["same"] and dep["idmap"] == [[v - 1, j] for j, v in enumerate(dep["r8"])] else "CHANGED") + " / "
                            # the old→new dictionary, stated independently: the old id of result row j is its position tag r·8 − 1
                            + ";".join(f"{v - 1}:{j}" for j, v in enumerate(dep["r8"]))))
            im = res.get("impl")
            if im and "exc" not in im:
                out.append((f"gsubimpl ids={gen.ints(im['in_ids'])} pids={gen.ints(im['in_pids'])} types={gen.ints(im['in_types'])} xs={gen.ints(im['in_r8'])} "
                            f"subids={gen.ints(im['sub_ids'])} subpids={gen.ints(im['sub_pids'])}",
                            " / ".join(gen.ints(im[c]).replace("_", "") for c in ("id", "pid", "type", "r8", "mapping")) + f" / {im['n']} / "
                            + ("same" if im["same"] else "CHANGED")))
        fu = res.get("full")
        if fu and fu["ids_are_positions"] and case["op"]["op"] in ("tosub", "subtree") and not case.get("reuse"):
            o = fu["out"]
            exp = (" / ".join(gen.ints(o[c]).replace("_", "") for c in ("id", "pid", "type", "r8")) + " / "
                   + gen.ints(self._mapping(case, res)).replace("_", "") + f" / {o['n']} / " + ("same" if o["same"] and res["input_unchanged"] else "CHANGED"))
            fa = f"pids={gen.ints(fu['pids'])} types={gen.ints(fu['types'])} xs={gen.ints(fu['r8'])}"
            out.append((f"gtosubfull {fa} rm={gen.ints(op['rm'])}", exp) if case["op"]["op"] == "tosub" else (f"ggetsubfull {fa} n={op['n']}", exp))
        if case["op"]["op"] in ("cutenter", "cutdepth", "cutleave"):
            out.append((f"g{k} {a}", want))
        elif case["op"]["op"] in ("cuttype", "cutorder"):
            # CutByType.__call__ (its `leave` closure over the `removals` set) and CutByFurcationOrder (its `_enter` handed to the generated cut_tree)
            out.append((f"g{k} {a}", want))
        elif case["op"]["op"] == "cutattr":
            out.append((f"{'gcutenter' if op['form'] == 'enter' else 'gcutleaveset'} {a}", want))
        elif case["op"]["op"] == "cuttip":
            # CutShortTipBranch.__call__ as GENERATED on this run (its `_leave` handed to the generated traversal, the recording lambda on the
            # callback list, the generated to_subtree); with a user callback its calls (the branches, in order) are compared as well
            seen = res.get("tipcb")
            out.append((f"gcuttip {a} cb={0 if seen is None else 1}",
                        want + " / " + ";".join(gen.ints(b).replace("_", "") for b in (seen or []))))
        return out

    def oracle(self, case, res):
        try:
            return self._oracle(case, res)
        except Exception as e:  # noqa: BLE001 - a result that cannot even be read (wrong sizes, None where a column should be) is a finding
            return [(f"{case['op']['op']}-malformed-result", f"{case['op']} on pids={case['tree']['pids']}: the result cannot be judged "
                     f"({type(e).__name__}: {e}): {str(res)[:300]}")]

    def _oracle(self, case, res):
        if not isinstance(res, dict):
            return [(f"{case['op']['op']}-malformed-result", f"{case['op']}: result {res!r}")]
        t, op = self._tree(case, res), case["op"]
        if "exc" in res:
            cols = f" (extra columns {[(c['name'], c['tail'], c['dtype']) for c in case['cols']]})" if case.get("cols") else ""
            return [(f"{op['op']}-raises", f"{op} on pids={t['pids']}{cols} raised {res['exc']}: {res.get('msg')}")]
        out = []
        root, kept = expected_kept(op, t)
        m = self._mapping(case, res)
        flav = "".join(f" [{k_}: {case[k_]}]" for k_ in ("flag", "pkind") if case.get(k_) not in (None, "py"))
        what = f"{op}{flav} on pids={t['pids']}"
        if sorted(m) != sorted(kept) or len(set(m)) != len(m):
            return [(f"{op['op']}-kept", f"{what}: survivors (old ids) {sorted(m)}, the rule designates {sorted(kept)}")]
        n2 = len(m)
        for c in ("pid", "type", "xyz"):
            if not isinstance(res[c], list) or len(res[c]) != n2:
                return [(f"{op['op']}-attrs", f"{what}: column {c} of the result has {len(res[c]) if isinstance(res[c], list) else res[c]} rows, the result has {n2} nodes")]
        if res["id"] != list(range(n2)):
            out.append((f"{op['op']}-ids", f"{what}: ids {res['id'][:8]}"))
        new_of = {o: k for k, o in enumerate(m)}
        for k, o in enumerate(m):
            want = -1 if o == root else new_of.get(t["pids"][o], None)
            if res["pid"][k] != want:
                out.append((f"{op['op']}-parent", f"{what}: new node {k} (old {o}) has parent {res['pid'][k]}, expected {want}")); break
            if res["type"][k] != t["types"][o] or res["xyz"][k] != [float(c) for c in t["xyz"][o]]:
                out.append((f"{op['op']}-attrs", f"{what}: attributes of old node {o} changed")); break
        # every per-node column survives with its node — the two extra columns as well
        if res.get("tag") is None or res.get("level") is None:
            out.append((f"{op['op']}-extra-column-dropped", f"{what}: the result has columns {res.get('keys')}; the input also had 'tag' and 'level'"))
        elif res["tag"] != [1000.0 + o for o in m] or res["level"] != [(o * 7) % 5 for o in m]:
            out.append((f"{op['op']}-extra-column", f"{what}: extra columns of the survivors are {res['tag'][:6]}… / {res['level'][:6]}…, their nodes had {[1000.0 + o for o in m][:6]}… / {[(o * 7) % 5 for o in m][:6]}…"))
        # ... and so does every additional attribute of any shape: row k of the result's column is the row of old node m[k], component by component
        for c in case.get("cols") or []:
            got = (res.get("cols") or {}).get(c["name"])
            if got is None:
                out.append((f"{op['op']}-extra-column-dropped", f"{what}: the result has columns {res.get('keys')}; the input also had '{c['name']}' "
                            f"(shape (n, {c['tail']}), {c['dtype']})")); break
            src = col_values(c, t["n"])
            want = [src[o].tolist() for o in m]
            if got["shape"] != [n2] + c["tail"] or got["vals"] != want:
                bad = next((k for k in range(n2) if not isinstance(got["vals"], list) or k >= len(got["vals"]) or got["vals"][k] != want[k]), None)
                out.append((f"{op['op']}-extra-column", f"{what}: attribute '{c['name']}' ({c['dtype']}, one {c['tail'] or 'scalar'} per node) comes back with shape "
                            f"{got['shape']}" + ("" if bad is None else f"; new node {bad} (old {m[bad]}) has "
                            f"{got['vals'][bad] if isinstance(got['vals'], list) and bad < len(got['vals']) else None}, it had {want[bad]}"))); break
        # the reported mapping is the WHOLE content of the caller's container: new id -> old id for the nodes of this result, and no other entry -
        # whatever the container held before (the results of earlier calls)
        mk = case.get("mapkind")
        for key, label in (("container", ""), ("container2", " (other entry point)")):
            if key in res and res[key] != container_of(mk, m):
                hist = f" after {case['reuse']} had filled the same {mk}" if case.get("reuse") and key == "container" else ""
                out.append((f"{op['op']}-mapping", f"{what}{hist}: reported mapping{label} {res[key]}, actual new→old {container_of(mk, m)}"))
        for i, st in enumerate(res.get("steps", [])):
            if st["container"] != container_of(mk, st["m"]):
                out.append((f"{case['reuse'][i]['op']}-mapping", f"call {i} of {case['reuse']} into one {mk} on pids={t['pids']}: reported mapping "
                            f"{st['container']}, actual new→old {container_of(mk, st['m'])}"))
                break
        if res.get("node_subtree_same") is False:
            out.append(("node-subtree", f"{what}: Tree.Node.subtree() differs from get_subtree"))
        if "neurites" in res:
            kids = kids_of(t["pids"])
            want = [sorted(desc(kids, c)) for c in kids.get(0, [])]
            got = [sorted(int(round(v * 8)) - 1 for v in s) for s in res["neurites"]]
            if sorted(want) != sorted(got):
                out.append(("neurites", f"get_neurites gives {got}, subtrees of the root's children are {want}"))
        if "dendrites" in res:
            kids = kids_of(t["pids"])
            want = [sorted(desc(kids, c)) for c in kids.get(0, []) if t["types"][c] in (3, 4)]
            got = [sorted(int(round(v * 8)) - 1 for v in s_) for s_ in res["dendrites"]]
            if sorted(want) != sorted(got):
                out.append(("dendrites", f"get_dendrites gives {got}, subtrees of the root's dendrite-typed children are {want}"))
        if res.get("axon_same") is False or res.get("dend_same") is False:
            out.append(("cuttype-kept", f"{what}: CutAxonTree / CutDendriteTree differ from CutByType(2) / CutByType(3)"))
        if "binary" in res:
            kids = kids_of(t["pids"])
            w1 = all(len(v) <= 2 for k_, v in kids.items() if k_ not in (-1, 0)); w2 = all(len(v) <= 2 for k_, v in kids.items() if k_ != -1)
            if res["binary"] != [w1, w2]:
                out.append(("is-binary-tree", f"is_binary_tree = {res['binary']} (root exempt / not), child counts say {[w1, w2]} (pids={t['pids']})"))
        if not res["input_unchanged"]:
            out.append((f"{op['op']}-mutates-input", f"{what} modified its input"))
        return out[:3]

    def nontrivial(self, case, res):
        return case["tree"]["n"] >= 3

    def klass(self, case, res):
        return case["class"].split("/")[-1] + ("/raised" if "exc" in res else "")


class SubTopo(Suite):
    """`swc_utils.to_sub_topology` called directly on marked tables: the compaction step behind every extraction / cut, against the
    hand-written model AND the definition generated from the source on this run (translator cross-check)."""
    name = "c06.subtopo"

    def cases(self, rng, tier, widen):
        out = []
        big = tier == "thorough" or widen
        for k in range(240 if big else 60):
            n = rng.choice([1, 2, 3, 5, 8, 13, 30])
            pids = gen.parents_sorted(rng, n, gen.pick_shape(rng, k))
            n = len(pids)
            ids = list(range(n))
            kind = k % 4
            marked = set()
            if kind == 0 and n > 1:          # whole subtrees removed (what propagate_removal produces): always succeeds
                for v in rng.sample(range(1, n), rng.randint(1, min(3, n - 1))):
                    marked.add(v)
                for i in range(n):
                    if pids[i] in marked:
                        marked.add(i)
            elif kind == 1 and n > 2:        # arbitrary marks: a kept row may lose its parent (KeyError)
                marked = set(rng.sample(range(1, n), rng.randint(1, n - 1)))
            elif kind == 2:                  # a sub table in extraction order (ids are old ids in enter order, first pid -1)
                perm = list(range(n)); rng.shuffle(perm)
                ids = [perm[i] for i in range(n)]
                pids = [-1 if p == -1 else perm[p] for p in pids]
            sub_id = [-2 if i in marked else ids[i] for i in range(n)]
            out.append({"class": ["subtrees", "arbitrary", "relabelled", "nothing"][kind], "ids": sub_id, "pids": pids})
        return out

    def run(self, case):
        from swcgeom.core.swc_utils import to_sub_topology

        ids = np.array(case["ids"], dtype=np.int32); pids = np.array(case["pids"], dtype=np.int32)
        before = (ids.copy(), pids.copy())
        (new_id, new_pid), mapping = to_sub_topology((ids, pids))
        return {"new_id": [int(v) for v in new_id], "new_pid": [int(v) for v in new_pid], "mapping": [int(v) for v in mapping],
                "inputs_unchanged": bool(np.array_equal(before[0], ids) and np.array_equal(before[1], pids))}

    def lines(self, case, res):
        a = f"ids={gen.ints(case['ids'])} pids={gen.ints(case['pids'])}"
        want = "E" if res.get("exc") == "KeyError" else (None if "exc" in res else f"{gen.ints(res['new_pid']).replace('_', '')} / {gen.ints(res['mapping']).replace('_', '')}")
        if want is None:
            return []
        return [("subtopo " + a, want), ("gsubtopo " + a, want)]

    def oracle(self, case, res):
        ids, pids = case["ids"], case["pids"]
        kept = [k for k in range(len(ids)) if ids[k] != -2]
        kept_ids = [ids[k] for k in kept]
        orphan = [ids[k] for k in kept if pids[k] != -1 and pids[k] not in kept_ids]
        if "exc" in res:
            if res["exc"] == "KeyError" and orphan:
                return []                    # a kept row whose parent was dropped: the documented misuse, rejected loudly
            return [("subtopo-raises", f"to_sub_topology raised {res['exc']}: {res.get('msg')} on ids={ids} pids={pids}")]
        out = []
        if orphan:
            out.append(("subtopo-orphan-accepted", f"kept rows {orphan} lost their parent but a table was returned (ids={ids} pids={pids})"))
            return out
        if res["mapping"] != kept_ids or res["new_id"] != list(range(len(kept))):
            out.append(("subtopo-mapping", f"mapping {res['mapping']} / new ids {res['new_id']}, kept old ids are {kept_ids}"))
        want = [-1 if pids[k] == -1 else kept_ids.index(pids[k]) for k in kept]
        if res["new_pid"] != want:
            out.append(("subtopo-parents", f"new parents {res['new_pid']}, the kept rows' parents renumbered are {want} (ids={ids} pids={pids})"))
        if not res["inputs_unchanged"]:
            out.append(("subtopo-mutates-input", "to_sub_topology modified its argument"))
        return out


# the type of the root of a reconstruction: a soma (1) in whole-neuron files; undefined (0) where the tracing tool writes no types; an axon / dendrite
# type (2 / 3 / 4) in neurite-only tracings and in re-rooted trees; a custom type (>= 5) with a lab's own type table. `type_check=False` is the option
# that get_neurites / get_dendrites offer for all roots but the first.
ROOT_KINDS = [("soma", [1]), ("undefined", [0]), ("axon", [2]), ("basal", [3]), ("apical", [4]), ("custom", [5, 6, 7, 8, 12, 60])]
ROOT_KIND_OF = {v: k for k, vs in ROOT_KINDS for v in vs}
# how the option arrives: left at its default, or spelled out (keyword / positional; python bool / numpy bool)
TC_FORMS = [("default", None), ("kw", True), ("kw", False), ("pos", True), ("pos", False), ("kw-np", False), ("kw-np", True)]


def dump_tree(y, specs):
    """a result tree, whole: every standard column, the position tags and every extra column with its shape"""
    d = {"pid": y.pid().tolist(), "id": y.id().tolist(), "r": [float(v) for v in y.r()], "type": y.type().tolist(),
         "xyz": y.xyz().astype(float).tolist(), "keys": sorted(str(c) for c in y.keys()),
         "tag": [float(v) for v in y.get_ndata("tag")] if "tag" in y.keys() else None,
         "level": [int(v) for v in y.get_ndata("level")] if "level" in y.keys() else None}
    if specs:
        d["cols"] = {c["name"]: ({"shape": list(np.shape(y.get_ndata(c["name"]))), "vals": np.asarray(y.get_ndata(c["name"])).tolist()}
                                 if c["name"] in y.keys() else None) for c in specs}
    return d


class Neurites(Suite):
    """`Tree.get_neurites` / `Tree.get_dendrites`: the subtrees at the root's children (all of them / the dendrite-typed ones), each judged as
    the extraction it is (nodes, parents, root, every attribute), on trees with ANY root type, the same tree object asked several times with
    every spelling of the `type_check` option."""
    name = "c06.neurites"
    repeat = 8

    def cases(self, rng, tier, widen):
        out = []
        big = tier == "thorough" or widen
        k = 0

        def calls():
            # every question (neurites / dendrites) with the check left at its default, switched on and switched off, in a random order
            cs = []
            for which in ("neurites", "dendrites"):
                forms = [TC_FORMS[0], rng.choice([f for f in TC_FORMS if f[1] is True]), rng.choice([f for f in TC_FORMS if f[1] is False])]
                cs += [{"which": which, "form": f, "tc": v} for f, v in forms]
            rng.shuffle(cs)
            return cs

        def retype(t, kind_i):
            """any root type; the root's children of every kind (dendrite-typed or not, soma-typed and custom ones included)"""
            kind, vals = ROOT_KINDS[kind_i % len(ROOT_KINDS)]
            types = [rng.choice(vals)] + [rng.choice([2, 3, 3, 4, 4, 0, 1, 5, 7]) for _ in range(t["n"] - 1)]
            ch = [i for i, p in enumerate(t["pids"]) if p == 0]
            if len(ch) >= 2:      # at least one dendrite and one other neurite below the root
                a, b = rng.sample(ch, 2)
                types[a] = rng.choice([3, 4]); types[b] = rng.choice([2, 0, 5, 1])
            return dict(t, types=types)

        # every small tree, with the root types in turn
        import itertools
        for n in range(1, 6 if big else 5):
            for ps in itertools.product(*[range(i) for i in range(1, n)]):
                t = {"n": n, "pids": [-1] + list(ps), "types": [1] * n, "xyz": [[float(i), 0.0, 0.0] for i in range(n)],
                     "r": [(i + 1) / 8 for i in range(n)], "elen": [0] + [1] * (n - 1)}
                t = retype(t, k); k += 1
                out.append({"class": f"all-n{n}", "tree": t, "op": {"op": "neurites"}, "calls": calls()})
        # generated trees of every shape (numbered freely below the root), every root kind with every shape over the run; a share of them
        # re-rooted / sorted copies of a queried tree (the root of a re-rooted tree is whatever the chosen node was), a share with extra columns
        ns = [2, 3, 4, 6, 9, 14, 23] if not big else [2, 3, 4, 5, 6, 8, 11, 16, 24, 40, 70, 120]
        for rep in range(6 if not big else 12):
            for j, n in enumerate(ns):
                shape = gen.SHAPES[1 + (k + rep) % (len(gen.SHAPES) - 1)]
                t = retype(lattice_tree(rng, n, shape), k + rep * 5); k += 1
                case = {"class": shape, "tree": t, "op": {"op": "neurites"}, "calls": calls()}
                if t["n"] >= 3 and (j + rep) % 4 == 0:
                    case["derive"] = rng.choice(["sort", f"redirect:{rng.randrange(1, t['n'])}", f"redirect:{rng.randrange(1, t['n'])}"])
                    case["class"] += "/derived"
                if (j + rep) % 3 == 0:
                    case["cols"] = extra_cols(rng, k)
                    case["class"] += "/cols"
                out.append(case)
        return out

    def run(self, case):
        t, extra, specs, before = build_input(case)
        res = {"calls": []}
        for c in case["calls"]:
            fn = t.get_neurites if c["which"] == "neurites" else t.get_dendrites
            form, tc = c["form"], c["tc"]
            try:
                if form == "default":
                    ys = fn()
                elif form == "pos":
                    ys = fn(tc)
                else:
                    ys = fn(type_check=np.bool_(tc) if form == "kw-np" else tc)
                res["calls"].append({"trees": [dump_tree(y, specs) for y in ys]})
            except Exception as e:  # noqa: BLE001 - judged by the oracle, call by call
                res["calls"].append({"exc": type(e).__name__, "msg": str(e)[:200]})
        res["input_unchanged"] = bool(all(np.array_equal(before[c], t.get_ndata(c)) for c in before))
        res.update(extra)
        return res

    _tree = Ops._tree

    @staticmethod
    def _starts(t, which):
        kids = kids_of(t["pids"])
        return [c for c in kids.get(0, []) if which == "neurites" or t["types"][c] in (3, 4)]

    @staticmethod
    def _spell(c):
        return f"get_{c['which']}({'' if c['form'] == 'default' else ('type_check=' if c['form'] != 'pos' else '') + str(c['tc'])})"

    def lines(self, case, res):
        # every subtree handed out is an extraction at one of the root's children: the same tie as `subtree` (model and generated definition)
        if "exc" in res:
            return []
        t = self._tree(case, res)
        out, seen = [], set()
        for c, r in zip(case["calls"], res["calls"]):
            for y in r.get("trees", []):
                m = [int(round(v * 8)) - 1 for v in y["r"]]
                if not m or m[0] not in self._starts(t, c["which"]):
                    continue
                ln = (f"subtree pids={gen.ints(t['pids'])} n={m[0]}", f"{gen.ints(y['pid']).replace('_', '')} / {gen.ints(m).replace('_', '')}")
                if ln not in seen:
                    seen.add(ln); out += [ln, ("g" + ln[0], ln[1])]
        return out

    def oracle(self, case, res):
        try:
            return self._oracle(case, res)
        except Exception as e:  # noqa: BLE001
            return [("neurites-malformed-result", f"get_neurites / get_dendrites on pids={case['tree']['pids']}: the result cannot be judged "
                     f"({type(e).__name__}: {e}): {str(res)[:300]}")]

    def _oracle(self, case, res):
        if not isinstance(res, dict) or ("exc" not in res and not isinstance(res.get("calls"), list)):
            return [("neurites-malformed-result", f"result {str(res)[:300]}")]
        t = self._tree(case, res)
        if "exc" in res:
            return [("neurites-raises", f"building / deriving the tree pids={t['pids']} ({case.get('derive')}) raised {res['exc']}: {res.get('msg')}")]
        out = []
        kids = kids_of(t["pids"])
        where = f"pids={t['pids']} types={t['types']}" + (f" (derived: {case['derive']})" if case.get("derive") else "")
        judge = Ops()
        for i, (c, r) in enumerate(zip(case["calls"], res["calls"])):
            which = c["which"]
            what = f"{self._spell(c)} (call {i + 1} of {[self._spell(x) for x in case['calls']]} on one tree) on {where}"
            checked = c["tc"] is None or bool(c["tc"])
            if "exc" in r:
                if checked and t["types"][0] != 1:
                    continue      # the root is not typed as soma and the check is on: the refusal is the check's business, not this property's
                out.append((f"{which}-raises", f"{what} raised {r['exc']}: {r.get('msg')}"))
                continue
            starts = self._starts(t, which)
            want = sorted(sorted(desc(kids, s)) for s in starts)
            got = [[int(round(v * 8)) - 1 for v in y["r"]] for y in r["trees"]]
            if sorted(sorted(g) for g in got) != want or any(len(set(g)) != len(g) for g in got):
                rule = "the root's children" if which == "neurites" else "the root's dendrite-typed (3 / 4) children"
                out.append((which, f"{what} gives the node sets {[sorted(g) for g in got]}, the subtrees at {rule} {starts} are {want}"))
                continue
            # each of them is the extraction at its child: nodes, parents, root without parent, every attribute of every survivor
            for y, g in zip(r["trees"], got):
                s = next(s_ for s_ in starts if s_ in g and len(g) == len(desc(kids, s_)))
                sub = judge.oracle({"tree": t, "op": {"op": "subtree", "n": s}, "cols": case.get("cols")}, dict(y, input_unchanged=True))
                out += [(which + key[len("subtree"):] if key.startswith("subtree") else f"{which}-{key}", f"{what}: {msg}") for key, msg in sub]
                if sub:
                    break
            if len(out) >= 3:
                break
        if not res.get("input_unchanged"):
            out.append(("neurites-mutates-input", f"get_neurites / get_dendrites modified the tree {where}"))
        return out[:3]

    def nontrivial(self, case, res):
        return case["tree"]["n"] >= 3 and len(kids_of(case["tree"]["pids"]).get(0, [])) >= 1

    def klass(self, case, res):
        ty = self._tree(case, res)["types"][0] if isinstance(res, dict) else case["tree"]["types"][0]
        return "root-" + ROOT_KIND_OF.get(ty, "custom") + ("/derived" if case.get("derive") else "") + ("/raised" if isinstance(res, dict) and "exc" in res else "")


SUITES = [Ops(), SubTopo(), Neurites()]
TECHNIQUE = ("Lean 4 theorems by structural induction (via C04's loop = recursion theorem) about the models of get_subtree / to_sub_topology / "
             "propagate_removal / cut_tree / CutByType / CutByFurcationOrder / CutShortTipBranch + differential correspondence (new parents and "
             "new→old mapping compared exactly) + an oracle that evaluates each rule literally; to_sub_topology (the compaction / parent remap / mapping step behind every extraction "
             "and cut) is TRANSLATED from the current source on every run (harness/translate_algo.py → Gen/AlgoSubtree.lean) and proved equal to its model, KeyError included "
             "(RefineSub.toSubTopology_refines); get_subtree_impl with its collecting lambda and propagate_removal with its marking closure are translated too "
             "(closures as state-passing callbacks of the generated traversal) and proved: the generated get_subtree_impl EQUALS the model's getSubtree, the generated "
             "propagate_removal marks exactly the descendants of marked nodes and changes nothing else (C06.generated_getSubtree_eq_model, C06.generated_propagateRemoval)")
LEVEL_TEXT = ("Kernel-checked for every tree shape and numbering: the kept rows are exactly the designated nodes, the compaction renumbers them 0..m-1 in order, "
              "every kept non-root row's new parent is the new id of its old parent, the new root has none, the mapping lists the old ids, every column is read "
              "through the mapping. Removal marks reach exactly the descendants of marked nodes.")
LEVEL_NOTE = "Trusted: Lean kernel; the imperative translator and its semantics library Model/Py.lean for to_sub_topology / get_subtree_impl / propagate_removal (cross-checked by running the generated definitions, ops gsubtopo / gsubtree / gtosub), and for to_subtree / cut_tree with its closures _enter / _leave calling the user's callback / CutByType.__call__ / CutByFurcationOrder._enter (Gen/AlgoCut.lean, proved equal to Sub.toSubtree / cutTreeEnter / cutTreeLeave / cutByType / cutByOrder in Refine/Cut.lean, ops gtosubtree / gcutenter / gcutdepth / gcutleave / gcutleaveset / gcuttype / gcutorder), and for CutShortTipBranch._leave / __call__ with its recording lambda on the callback list (Gen/AlgoShortTip.lean + Model/PyShortTip.lean, proved equal to Sub.cutShortTip with the user callbacks called once per reported branch in Refine/ShortTip.lean, op gcuttip; glue: self.thre / n.distance(child) are parameters, a Tree.Branch is the list of its node handles, integer edge lengths), and for to_subtree_impl / to_subtree / get_subtree_impl / get_subtree / to_sub_tree over all columns (a tree and the ndata dictionary are their column variables id / pid / type / x, source and names opaque; proved equal to the models + takeRows in Refine/ShortTip.lean, ops gsubimpl / gtosubfull / ggetsubfull / gtosubdep); numpy fancy indexing `col[mapping]` = Py.take."
