"""C12 — geometric transforms apply the stated affine map about the stated centre."""
import math

import numpy as np

from harness import gen
from harness.framework import Suite

PID = "C12"
TRANSLATE = True
# regenerated on every run from transforms/geometry.py (the transform classes: constructors, __call__, apply, TranslateOrigin.transform), utils/transforms.py
# (the matrix builders, a second time, through the imperative translator), core/swc.py (xyz / xyzw) and transforms/base.py (Transforms.__call__)
TRANSLATE_ALGO = ["AlgoAffine", "AlgoRodrigues"]
DRIVER_FILES = ["SwcVerif/Model/AlgoRunAffine.lean", "SwcVerif/Model/PyAffine.lean", "SwcVerif/Model/AlgoRunRodrigues.lean", "SwcVerif/Model/PyRodrigues.lean"]
LEAN_MODS = ["SwcVerif.Props.C12", "SwcVerif.Props.C12Gen", "SwcVerif.Props.C12Rodrigues"]
THEOREMS = [
    "C12.translate_moves", "C12.translate_origin_root", "C12.scale_origin", "C12.scale_about_root",
    "C12.scale_root_fixed", "C12.rotate_root_fixed", "C12.rotate_axis_isometry", "C12.rotate_axis_isometry_origin",
    "C12.rotate_axis_right_handed", "C12.rodrigues_apply", "C12.rodrigues_fixes_axis", "C12.rodrigues_isometry",
    "C12.rodrigues_z", "C12.inverse_restores", "C12.default_centres",
    # the control flow of the transform classes as translated (Gen/AlgoAffine.lean): refinement against Gen/Matrices.lean ...
    "RefineAffine.translate3d_refines", "RefineAffine.scale3d_refines", "RefineAffine.rotate3d_x_refines", "RefineAffine.rotate3d_y_refines",
    "RefineAffine.rotate3d_z_refines", "RefineAffine.dot2_eq_mmul", "RefineAffine.xyz_refines", "RefineAffine.xyzw_refines",
    "RefineAffine.apply_refines", "RefineAffine.root_index", "RefineAffine.call_origin", "RefineAffine.call_root",
    "RefineAffine.call_root_refines", "RefineAffine.call_origin_refines", "RefineAffine.call_affine", "RefineAffine.translate_origin_refines",
    "RefineAffine.affine_init_eq", "RefineAffine.translate_init_default", "RefineAffine.translate_init_center", "RefineAffine.scale_init_eq",
    "RefineAffine.rotate_x_init_eq", "RefineAffine.rotate_y_init_eq", "RefineAffine.rotate_z_init_eq", "RefineAffine.rotate_init_eq",
    "RefineAffine.transforms_call_refines",
    # ... and the C12 theorems transported to the generated classes on whole trees
    "C12.callFn_affine", "C12.generated_translate_moves", "C12.generated_translate_origin", "C12.generated_scale",
    "C12.generated_scale_root_fixed", "C12.generated_rotate_axis", "C12.generated_rotate", "C12.rotMap_axis_rigid",
    "C12.rotMap_rodrigues_rigid", "C12.generated_pipeline", "C12.generated_two_steps", "C12.generated_inverse_restores",
    # rotate3d (Rodrigues) / _to_homogeneous / model_view_transformation / orthographic_projection_simple as translated (Gen/AlgoRodrigues.lean)
    "RefineRodrigues.rotate3d_refines", "RefineRodrigues.rotate3d_short", "RefineRodrigues.ortho_simple_refines",
    "RefineRodrigues.to_homogeneous2_fill", "RefineRodrigues.to_homogeneous2_pass", "RefineRodrigues.to_homogeneous2_error",
    "RefineRodrigues.model_view_refines", "C12.generated_rotate_rodrigues", "C12.rodrigues_generated_rigid", "C12.rodrigues_generated_z",
    "C12.model_view_position", "C12.viewRot_orthonormal",
]
TRUSTED = ["imperative translator harness/translate_algo.py + algo_specs/18_affine.py (Gen/AlgoAffine.lean regenerated from transforms/geometry.py, utils/transforms.py, "
           "core/swc.py::xyz/xyzw, transforms/base.py::Transforms.__call__ on every run; its trusted glue is listed in the header of 18_affine.py: a tree is its seven "
           "columns, `y = x.copy()` copies them, `np.cos/np.sin(theta)` are parameters, `rotate3d(n, theta)` is a parameter instantiated with Gen.Mat.rotate3d; "
           "cross-checked by running the generated classes on whole trees: driver ops gaffine / gpipe)",
           "translator harness/translate.py (Gen/Matrices.lean regenerated from utils/transforms.py and transforms/geometry.py on every run; "
           "cross-checked by evaluating the generated matrices at Float against the Python functions)"]
ASSUMPTIONS = [
    "numpy dot/transpose/division semantics of AffineTransform.apply (recognised verbatim by the translator, modelled as mapply)",
    "cos/sin enter only through c²+s²=1; float32 rounding is outside the theorems (compared with tolerance)",
]


AXIS_PATTERNS = [[0], [1], [2], [0, 1], [0, 2], [1, 2], [0, 1, 2]]


def _boundary_factors(rng, k=None):
    """a factor triple with at least one factor from {0, -1, negative}; the other axes carry ordinary factors. With a running
    index k the degenerate axes cycle through every axis pattern and every second triple has an exact 0 on each of them."""
    ordinary = lambda: rng.choice([0.5, 2.0, 1.0, 3.0, rng.randint(1, 40) / 8])
    boundary = lambda: rng.choice([0.0, 0.0, 0.0, -1.0, -rng.randint(1, 40) / 8])
    which = rng.choice(AXIS_PATTERNS) if k is None else AXIS_PATTERNS[k % len(AXIS_PATTERNS)]
    zero = k is not None and (k // len(AXIS_PATTERNS)) % 2 == 0
    return [(0.0 if zero else boundary()) if i in which else ordinary() for i in range(3)]


# the spelling of a number: the factors / offsets are dyadic, so every spelling denotes the same real number
NUMS = ["float", "int", "float32", "float64"]


def _spell(v, num):
    if num == "int" and float(v) == int(v):
        return int(v)
    if num == "float32":
        return np.float32(v)
    if num == "float64":
        return np.float64(v)
    return float(v)


# ---- trees that carry their own column-name table (the public `names=SWCNames(...)` option) ----------------------------------
FIELDS = ["id", "type", "x", "y", "z", "r", "pid"]
NAME_FAMILIES = ["all", "coords", "permuted", "topo"]


def _names(rng, family):
    """a column-name table as {field: column name}: every column renamed / only the coordinates / the default coordinate names
    permuted among the coordinates / only the non-coordinate columns renamed"""
    style = rng.choice(["upper", "prefix", "suffix", "word"])
    word = {"id": "node", "type": "label", "x": "px", "y": "py", "z": "pz", "r": "radius", "pid": "parent"}
    tag = rng.choice(["n", "swc", "col", "v"])
    ren = {"upper": lambda f: f.upper(), "prefix": lambda f: f"{tag}_{f}", "suffix": lambda f: f"{f}_{tag}", "word": lambda f: word[f]}[style]
    nm = {f: f for f in FIELDS}
    if family in ("all", "coords"):
        for f in (FIELDS if family == "all" else ["x", "y", "z"]):
            nm[f] = ren(f)
    elif family == "topo":
        for f in ["id", "type", "r", "pid"]:
            nm[f] = ren(f)
    else:
        perm = rng.choice([["y", "x", "z"], ["z", "y", "x"], ["x", "z", "y"], ["y", "z", "x"], ["z", "x", "y"]])
        nm["x"], nm["y"], nm["z"] = perm
        if rng.random() < 0.5:
            for f in ["id", "type", "r", "pid"]:
                nm[f] = ren(f)
    return nm


def _make_tree(t, names=None, route="ctor"):
    """the real Tree of a tree case, optionally with a user supplied names table (constructor or data-frame route)"""
    if not names:
        return gen.make_tree(t)
    from swcgeom.core import Tree
    from swcgeom.core.swc_utils import SWCNames

    nm = SWCNames(**names)
    n = t["n"]
    xyz = np.array(t["xyz"], dtype=np.float32).reshape(n, 3)
    cols = {nm.id: np.arange(n, dtype=np.int32), nm.type: np.array(t["types"], dtype=np.int32),
            nm.x: xyz[:, 0].copy(), nm.y: xyz[:, 1].copy(), nm.z: xyz[:, 2].copy(),
            nm.r: np.array(t["r"], dtype=np.float32), nm.pid: np.array(t["pids"], dtype=np.int32)}
    if route == "dataframe":
        import pandas as pd

        return Tree.from_data_frame(pd.DataFrame(cols), names=nm)
    return Tree(n, names=nm, **cols)


# ---- row orders: "all trees" includes trees whose root (the node with parent -1) is NOT stored in the first row ----------------------
# An SWC file lists its nodes in any order (read_swc without sort_nodes keeps the file order and only warns), Tree(n, pid=…) accepts
# any numbering.  "The root" of the property text is the node without parent, wherever it is stored.
ROW_ORDERS = ["root-last", "root-middle", "root-second", "reversed"]
ROW_ROUTES = ["ctor", "swc-file", "dataframe"]


def _root_row(t):
    """the row of the root (the first row whose parent is -1; 0 for every root-first numbering)"""
    try:
        return list(t["pids"]).index(-1)
    except ValueError:
        return 0


def _reorder(rng, t, order):
    """the same tree with its rows stored in another order (ids = rows, parents renumbered with them): the root in the last row / a
    middle row / the second row, the other rows shuffled; or the whole table reversed (every child before its parent)"""
    n = t["n"]
    if n < 2:
        return t
    r0 = _root_row(t)
    rest = [i for i in range(n) if i != r0]
    if order == "reversed":
        rows = list(range(n - 1, -1, -1))
        if rows[0] == r0:
            rows = rows[1:] + rows[:1]
    else:
        rng.shuffle(rest)
        j = {"root-last": n - 1, "root-second": 1}.get(order, max(1, n // 2))
        rows = rest[:j] + [r0] + rest[j:]
    new = {old: k for k, old in enumerate(rows)}          # old row -> new row
    out = dict(t)
    out["pids"] = [-1 if t["pids"][old] == -1 else new[t["pids"][old]] for old in rows]
    for f in ("types", "xyz", "r"):
        out[f] = [t[f][old] for old in rows]
    return out


def _make_tree_route(t, route):
    """the real Tree of a tree case through a construction route: the constructor, a data frame, or an SWC file whose lines are in
    the row order of the case (read with the default options, i.e. without sort_nodes).  In the file the root has the id 1 and the
    other nodes 2, 3, … in line order, so the file is a consistent SWC table whose lines are merely not sorted by id."""
    if route == "dataframe":
        return _make_tree(t, {f: f for f in FIELDS}, "dataframe")
    if route != "swc-file":
        return gen.make_tree(t)
    import os
    import tempfile
    import warnings

    from swcgeom.core import Tree

    f32 = lambda v: repr(float(np.float32(v)))
    r0 = _root_row(t)
    fid = {i: 1 if i == r0 else (i + 2 if i < r0 else i + 1) for i in range(t["n"])}
    body = "".join(f"{fid[i]} {t['types'][i]} {f32(t['xyz'][i][0])} {f32(t['xyz'][i][1])} {f32(t['xyz'][i][2])} {f32(t['r'][i])} "
                   f"{fid[t['pids'][i]] if t['pids'][i] >= 0 else -1}\n" for i in range(t["n"]))
    fd, path = tempfile.mkstemp(suffix=".swc")
    try:
        with os.fdopen(fd, "w") as fh:
            fh.write("# id type x y z r pid\n" + body)
        with warnings.catch_warnings():
            warnings.simplefilter("ignore")
            return Tree.from_swc(path)
    finally:
        os.unlink(path)


# ---- placements: where the tree sits in the coordinate frame ---------------------------------------------------------------------
# "all trees" includes trees whose root / nodes have coordinates that are EXACTLY 0 without the root being the origin: planar (2D)
# tracings with one coordinate 0 on every node, a soma put on a coordinate plane or a coordinate axis, a tree moved along one
# axis after TranslateOrigin.  A random coordinate generator never yields them.
PLACEMENTS = ["planar", "root-on-plane", "root-on-axis", "axis-shifted", "root-at-origin-planar", "negzero"]


def _zero_axes(k, count):
    """the `count` axes (1 or 2) that carry the exact zero, cycling with the running index k through all choices"""
    pats = [p for p in AXIS_PATTERNS if len(p) == count]
    return pats[k % len(pats)]


def _place(rng, t, placement, k=0):
    """the tree case t moved / flattened into the placement; returns (tree case, label of the zero axes)"""
    t = dict(t)
    P = [list(p) for p in t["xyz"]]
    nz = lambda v: v if v != 0 else rng.choice([-1, 1]) * rng.randint(1, 4000) / 8.0
    if placement == "planar":                      # a 2D tracing: one coordinate is 0 on EVERY node
        ax = _zero_axes(k, 1)
        P = [[0.0 if i in ax else nz(p[i]) for i in range(3)] for p in P]
    elif placement == "root-at-origin-planar":     # a 2D tracing centred on its root: the root IS the origin (the centre modes agree)
        ax = _zero_axes(k, 1)
        P = [[0.0 if i in ax else p[i] - P[0][i] for i in range(3)] for p in P]
    elif placement == "root-on-plane":             # the root on a coordinate plane, the tree anywhere
        ax = _zero_axes(k, 1)
        P[0] = [0.0 if i in ax else nz(P[0][i]) for i in range(3)]
    elif placement == "root-on-axis":              # the root on a coordinate axis
        ax = _zero_axes(k, 2)
        P[0] = [0.0 if i in ax else nz(P[0][i]) for i in range(3)]
    elif placement == "axis-shifted":              # root moved to the origin, then the whole tree moved along one or two axes
        ax = _zero_axes(k // 3, 1 + (k % 2))
        sh = [0.0 if i in ax else rng.choice([-1, 1]) * rng.randint(1, 400) / 4.0 for i in range(3)]
        P = [[p[i] - P[0][i] + sh[i] for i in range(3)] for p in P]
    else:                                          # negzero: the zero coordinates of the root are spelled -0.0 (what x * 0 gives for x < 0)
        ax = _zero_axes(k, 1 + (k // 3) % 2)
        P[0] = [-0.0 if i in ax else nz(P[0][i]) for i in range(3)]
    # positions stay pairwise distinct (see gen.tree_case)
    seen = set()
    for j, p in enumerate(P):
        while tuple(p) in seen:
            i = rng.choice([i for i in range(3) if placement not in ("planar", "root-at-origin-planar") or i not in ax])
            p[i] += rng.choice([-1, 1]) * rng.randint(1, 64) / 8.0
        seen.add(tuple(p))
    t["xyz"] = P
    return t, "".join("xyz"[i] for i in ax)


# ---- angle families: "all angles" includes angles of many turns (accumulated animation / registration angles) -------------------
ANGLE_FAMILIES = ["turns", "near-quarter", "decade"]


def _angle(rng, family, k=0):
    """an angle of the family: `turns` = m whole turns plus an ordinary angle; `near-quarter` = q quarter turns (q up to 10^5)
    plus / minus an offset of 10^-1 … 10^-4 rad; `decade` = an arbitrary angle of magnitude 10^e rad, e = 1 … 5.  The running
    index k cycles through the decades, so every decade occurs in every run."""
    e = 1 + k % 5
    sgn = rng.choice([1.0, -1.0])
    if family == "turns":
        return sgn * (2 * math.pi * rng.randint(10 ** (e - 1), 10 ** e) + rng.uniform(-3.1, 3.1))
    if family == "near-quarter":
        return sgn * (math.pi / 2 * rng.randint(10 ** (e - 1), 10 ** e)) + rng.choice([1.0, -1.0]) * 10 ** -rng.uniform(1, 4)
    return sgn * rng.uniform(0.1, 1.0) * 10 ** e


def _unit_axis(rng):
    ax = [rng.uniform(-1, 1) for _ in range(3)]
    nrm = math.sqrt(sum(a * a for a in ax)) or 1.0
    ax = [a / nrm for a in ax]
    if rng.random() < 0.3:
        ax = rng.choice([[1.0, 0.0, 0.0], [0.0, 1.0, 0.0], [0.0, 0.0, 1.0], [-1.0, 0.0, 0.0], [0.0, -1.0, 0.0], [0.0, 0.0, -1.0]])
    return ax


# the element type of a user supplied 4x4 matrix (np.eye / np.linalg.inv give float64, the utils builders float32)
MDTYPES = ["float64", "float32"]


def _matrix12(rng):
    """a general invertible affine map as 12 numbers (rows of [A | t]): diagonal factors, a triangular shear, a translation —
    all dyadic, so the float32 and the float64 spelling denote the same map"""
    d = [rng.choice([0.5, 2.0, 1.0, 1.5]) for _ in range(3)]
    sh = lambda: rng.choice([0.0, 0.25, -0.25, 0.5, -0.5])
    A = [[d[0], sh(), sh()], [0.0, d[1], sh()], [0.0, 0.0, d[2]]]
    if rng.random() < 0.5:
        A = [list(r) for r in zip(*A)]
    t = [rng.randint(-40, 40) / 4 for _ in range(3)]
    return [v for i in range(3) for v in A[i] + [t[i]]]


# … and of a matrix written with whole-number literals (np.array([[0, -1, 0, 0], [1, 0, 0, 0], …]) is an INTEGER array): axis
# permutations, mirrors, quarter turns, whole-number factors / offsets.  The dtype is a spelling, the stated map is the same.
INT_MDTYPES = ["int64", "int32", "int16"]
PERMS3 = [[0, 1, 2], [1, 0, 2], [0, 2, 1], [2, 1, 0], [1, 2, 0], [2, 0, 1]]


def _matrix12_int(rng):
    """a signed axis permutation (mirror / quarter turn / axis swap) with whole-number factors and a whole-number translation, as 12 numbers"""
    perm = rng.choice(PERMS3)
    d = [rng.choice([1, -1, 1, -1, 2, -2, 3]) for _ in range(3)]
    t = [rng.choice([0, rng.randint(-40, 40)]) for _ in range(3)]
    return [float(v) for i in range(3) for v in [d[i] if perm[i] == j else 0 for j in range(3)] + [t[i]]]


def _inverse(kind, a, center="origin"):
    """(kind, parameters) of the inverse transform about the same kind of centre, None when the stated map has none (or none of the same
    kind).  A root-centred affine map p -> A(p-c)+t+c moves the root to c+t; its inverse about THAT root is q -> A^-1(q-c')-t+c'."""
    if kind == "translate":
        return kind, [-v for v in a]
    if kind == "scale":
        return (kind, [1 / v for v in a]) if all(v != 0 for v in a) else None
    if kind in ("rotx", "roty", "rotz"):
        return kind, [-a[0]]
    if kind == "rot":
        return kind, list(a[:3]) + [-a[3]]
    if kind == "affine_m":
        M = np.vstack([np.array(a, dtype=np.float64).reshape(3, 4), [0, 0, 0, 1.0]])
        Mi = np.linalg.inv(M)
        if center == "root":
            Mi[:3, 3] = -M[:3, 3]
        return kind, Mi[:3].flatten().tolist()
    return None


def _kinds(rng, k=None):
    th = rng.choice([0.0, math.pi / 2, -math.pi / 3, rng.uniform(-3.1, 3.1), rng.uniform(-3.1, 3.1)])
    ax = [rng.uniform(-1, 1) for _ in range(3)]
    nrm = math.sqrt(sum(a * a for a in ax)) or 1.0
    ax = [a / nrm for a in ax]
    if rng.random() < 0.3:
        ax = rng.choice([[1.0, 0.0, 0.0], [0.0, 1.0, 0.0], [0.0, 0.0, 1.0], [-1.0, 0.0, 0.0], [0.0, -1.0, 0.0], [0.0, 0.0, -1.0]])
    return [
        ("translate", [rng.randint(-40, 40) / 4 for _ in range(3)]),
        ("scale", [rng.choice([0.5, 2.0, 1.0, 3.0, 0.25, rng.randint(1, 40) / 8]) for _ in range(3)]),
        # boundary factors: "all scale factors" includes 0 (flattening onto a coordinate plane / axis through the centre),
        # negative ones (mirroring) and -1; at least one axis is degenerate, every axis pattern occurs (see _boundary_factors)
        ("scale", _boundary_factors(rng, k)),
        ("rotx", [th]), ("roty", [th]), ("rotz", [th]),
        ("rot", ax + [th]),
        ("translate_origin", []),
        # a general affine matrix (scaling followed by a translation) applied about the chosen centre
        ("affine", [rng.choice([0.5, 2.0, 1.5]) for _ in range(3)] + [rng.randint(-40, 40) / 4 for _ in range(3)]),
        # the same kind of matrix multiplied by a constant (last row [0, 0, 0, w]): homogeneous coordinates, the same map
        ("affine_h", [rng.choice([0.5, 2.0, 1.5]) for _ in range(3)] + [rng.randint(-40, 40) / 4 for _ in range(3)] + [rng.choice([2.0, 0.25, 4.0])]),
        # a user supplied matrix with a shear part, given as a float64 or a float32 array
        ("affine_m", _matrix12(rng)),
    ]


def _expected(kind, a, center, root, P):
    """the stated map, computed directly in float64"""
    P = np.asarray(P, dtype=np.float64)
    c0 = np.asarray(root, dtype=np.float64) if center == "root" else np.zeros(3)
    if kind == "translate":
        return P + np.asarray(a)
    if kind == "translate_origin":
        return P - np.asarray(root, dtype=np.float64)
    Q = P - c0
    if kind in ("affine", "affine_h"):
        R = Q * np.asarray(a[:3]) + np.asarray(a[3:6])
    elif kind == "affine_m":
        M = np.asarray(a, dtype=np.float64).reshape(3, 4)
        R = Q @ M[:, :3].T + M[:, 3]
    elif kind == "scale":
        R = Q * np.asarray(a)
    else:
        if kind == "rot":
            n, th = np.asarray(a[:3]), a[3]
        else:
            n = {"rotx": np.array([1.0, 0, 0]), "roty": np.array([0, 1.0, 0]), "rotz": np.array([0, 0, 1.0])}[kind]
            th = a[0]
        # Rodrigues, right-handed
        R = Q * math.cos(th) + np.cross(n, Q) * math.sin(th) + np.outer(Q @ n, n) * (1 - math.cos(th))
    return R + c0


def _transform(kind, a, center, num="float", mdtype="float64"):
    from swcgeom.transforms import Rotate, RotateX, RotateY, RotateZ, Scale, Translate, TranslateOrigin

    kw = {} if center == "default" else {"center": center}
    if kind in ("translate", "scale"):
        a = [_spell(v, num) for v in a]
    if kind == "translate":
        return Translate(*a, **kw)
    if kind == "affine":
        from swcgeom.transforms import AffineTransform
        from swcgeom.utils import scale3d, translate3d

        return AffineTransform(translate3d(*a[3:]) @ scale3d(*a[:3]), **kw)
    if kind == "affine_h":
        from swcgeom.transforms import AffineTransform
        from swcgeom.utils import scale3d, translate3d

        return AffineTransform(a[6] * (translate3d(*a[3:6]) @ scale3d(*a[:3])), **kw)
    if kind == "affine_m":
        from swcgeom.transforms import AffineTransform

        A = np.array(a, dtype=np.float64).reshape(3, 4)
        if mdtype.startswith("int") and not np.array_equal(A, np.round(A)):
            mdtype = "float64"          # only whole numbers can be written as an integer array
        M = np.eye(4, dtype=mdtype)
        M[:3] = A
        return AffineTransform(M, **kw)
    if kind == "translate_origin":
        return TranslateOrigin()
    if kind == "scale":
        return Scale(*a, **kw)
    if kind == "rotx":
        return RotateX(a[0], **kw)
    if kind == "roty":
        return RotateY(a[0], **kw)
    if kind == "rotz":
        return RotateZ(a[0], **kw)
    return Rotate(np.array(a[:3]), a[3], **kw)


def _num(v):
    return repr(float(v))


def _tree_args(t):
    """the columns of a tree case as protocol arguments (coordinates / radii are float32 values, written exactly)"""
    f32 = lambda vs: ",".join(_num(np.float32(v)) for v in vs)
    return (f"pids={','.join(str(p) for p in t['pids'])} types={','.join(str(p) for p in t['types'])} "
            f"xs={f32(p[0] for p in t['xyz'])} ys={f32(p[1] for p in t['xyz'])} zs={f32(p[2] for p in t['xyz'])} rs={f32(t['r'])}")


def _gen_step(kind, a, center):
    """`kind/a,…/center` of the driver ops gaffine / gpipe; the user matrices are written as their 16 entries"""
    if kind == "affine":
        kind, a = "affine_m", [a[0], 0, 0, a[3], 0, a[1], 0, a[4], 0, 0, a[2], a[5], 0, 0, 0, 1]
    elif kind == "affine_h":
        w = a[6]
        kind, a = "affine_m", [w * v for v in [a[0], 0, 0, a[3], 0, a[1], 0, a[4], 0, 0, a[2], a[5], 0, 0, 0, 1]]
    elif kind == "affine_m":
        a = list(a) + [0, 0, 0, 1]
    return kind, ",".join(_num(v) for v in a), center


def _tree_out(xyz, ids, pids, types, r):
    return [float(v) for p in xyz for v in p] + [float(v) for v in list(ids) + list(pids) + list(types)] + [float(v) for v in r]


class Affine(Suite):
    name = "c12.affine"

    def cases(self, rng, tier, widen):
        out = []
        big = tier == "thorough" or widen
        reps = 8 if big else 2
        named_reps = 4 if big else 1     # per size: trees with their own column names (guaranteed share, every family in the quick tier)
        k = kn = 0
        for n in [1, 2, 3, 5, 9, 20] + ([60, 200] if big else []):
            for rep in range(reps + named_reps):
                t = gen.tree_case(rng, n, gen.pick_shape(rng, k), numbering=rng.choice(["sorted", "root0"]), coords="dyadic"); k += 1
                if rng.random() < 0.15:  # root at the origin (where a wrong centre goes unnoticed)
                    off = t["xyz"][0][:]
                    t["xyz"] = [[p[i] - off[i] for i in range(3)] for p in t["xyz"]]
                names, route, fam = None, "ctor", "default"
                if rep >= reps:
                    fam = NAME_FAMILIES[kn % len(NAME_FAMILIES)]
                    names, route = _names(rng, fam), ["ctor", "dataframe"][(kn // len(NAME_FAMILIES)) % 2]; kn += 1
                for kind, a in _kinds(rng, k):
                    center = rng.choice(["root", "origin", "default", "soma"]) if kind != "translate_origin" else "default"
                    cls = kind
                    if kind == "scale" and any(v <= 0 for v in a):
                        cls = "scale-flat" if any(v == 0 for v in a) else "scale-mirror"
                    c = {"class": f"{cls}/{center}" + ("" if names is None else f"/names-{fam}"), "tree": t, "kind": kind, "a": a, "center": center,
                         "warm": rng.random() < 0.5, "num": rng.choice(NUMS) if kind in ("translate", "scale") else "float"}
                    if kind == "affine_m":
                        c["mdtype"] = rng.choice(MDTYPES)
                        c["class"] = f"{cls}-{c['mdtype']}/{center}" + ("" if names is None else f"/names-{fam}")
                    if names is not None:
                        # the warm-up neuron of a reused transform object has the same names table or the default one
                        c.update(names=names, route=route, warm_names=rng.choice(["same", "default"]))
                    out.append(c)
        # "all angles": angles of many turns — every rotation kind, every family (see _angle), every decade 10 … 10^5 rad in every run
        ka = 0
        for rep in range(3 if big else 1):
            for fam in ANGLE_FAMILIES:
                for _e in range(5):
                    t = gen.tree_case(rng, rng.choice([2, 3, 5, 9]), gen.pick_shape(rng, ka), numbering="sorted", coords="dyadic")
                    for kind in ("rotx", "roty", "rotz", "rot"):
                        th = _angle(rng, fam, ka)
                        center = rng.choice(["root", "origin", "default", "soma"])
                        out.append({"class": f"{kind}-angle-{fam}/{center}", "tree": t, "kind": kind, "a": ([] if kind != "rot" else _unit_axis(rng)) + [th],
                                    "center": center, "warm": False, "num": "float"})
                    ka += 1
        # "all trees": every placement of the tree in the coordinate frame (see _place) x every kind, the centre modes cycling so
        # that every kind meets every placement about the root (spelled root / soma / left out) and about the origin in every run
        kp = 0
        CENTRES = ["root", "default", "soma", "origin"]
        for rep in range(6 if big else 2):
            for pl in PLACEMENTS:
                n = [3, 5, 2, 9, 1, 20][kp % 6] if not big else rng.choice([1, 2, 3, 5, 9, 20, 60])
                t0 = gen.tree_case(rng, n, gen.pick_shape(rng, kp + 1), numbering=rng.choice(["sorted", "root0"]), coords="dyadic")
                t, _axes = _place(rng, t0, pl, kp)
                for j, (kind, a) in enumerate(_kinds(rng, kp)):
                    center = CENTRES[(kp + j) % 4] if kind != "translate_origin" else "default"
                    cls = kind
                    if kind == "scale" and any(v <= 0 for v in a):
                        cls = "scale-flat" if any(v == 0 for v in a) else "scale-mirror"
                    c = {"class": f"{cls}/{center}/place-{pl}", "tree": t, "kind": kind, "a": a, "center": center, "placement": pl,
                         "warm": rng.random() < 0.3, "num": rng.choice(NUMS) if kind in ("translate", "scale") else "float"}
                    if kind == "affine_m":
                        c["mdtype"] = rng.choice(MDTYPES)
                    out.append(c)
                kp += 1
        # "all matrices": a matrix written with whole-number literals is an integer array (see _matrix12_int) — every integer dtype
        # and, for comparison, float64, x every spelling of the centre, in every run
        ki = 0
        for rep in range(4 if big else 2):
            for md in INT_MDTYPES + ["float64"]:
                for center in CENTRES:
                    n = [3, 5, 2, 9, 20][ki % 5] if not big else rng.choice([1, 2, 3, 5, 9, 20, 60])
                    t = gen.tree_case(rng, n, gen.pick_shape(rng, ki), numbering=rng.choice(["sorted", "root0"]), coords="dyadic"); ki += 1
                    out.append({"class": f"affine_m-{md}/{center}/whole-number-matrix", "tree": t, "kind": "affine_m", "a": _matrix12_int(rng),
                                "center": center, "mdtype": md, "warm": rng.random() < 0.3, "num": "float"})
        # "all trees": every row order (see _reorder) x every construction route x every kind; the centre modes cycle so that every kind
        # meets every row order about the root (spelled root / soma / left out) and about the origin in every run
        kr = 0
        for rep in range(6 if big else 2):
            for order in ROW_ORDERS:
                n = [5, 3, 9, 2, 20, 4][kr % 6] if not big else rng.choice([2, 3, 5, 9, 20, 60])
                t0 = gen.tree_case(rng, n, gen.pick_shape(rng, kr + 2), numbering=rng.choice(["sorted", "root0"]), coords="dyadic")
                t = _reorder(rng, t0, order)
                rt = ROW_ROUTES[(kr + kr // len(ROW_ORDERS)) % len(ROW_ROUTES)]
                for j, (kind, a) in enumerate(_kinds(rng, kr)):
                    center = CENTRES[(kr + j) % 4] if kind != "translate_origin" else "default"
                    cls = kind
                    if kind == "scale" and any(v <= 0 for v in a):
                        cls = "scale-flat" if any(v == 0 for v in a) else "scale-mirror"
                    c = {"class": f"{cls}/{center}/rows-{order}/{rt}", "tree": t, "kind": kind, "a": a, "center": center, "rows": order,
                         "tree_route": rt, "warm": rng.random() < 0.3, "num": rng.choice(NUMS) if kind in ("translate", "scale") else "float"}
                    if kind == "affine_m":
                        c["mdtype"] = rng.choice(MDTYPES)
                    out.append(c)
                kr += 1
        return out

    def run(self, case):
        names, route, num = case.get("names"), case.get("route", "ctor"), case.get("num", "float")
        md = case.get("mdtype", "float64")
        t = _make_tree_route(case["tree"], case["tree_route"]) if case.get("tree_route") else _make_tree(case["tree"], names, route)
        before = {k: v.copy() for k, v in t.ndata.items()}
        tr = _transform(case["kind"], case["a"], case["center"], num, md)
        # the inverse transform is built BEFORE the forward one is applied: transform objects are values, several are alive at once
        kind, a = case["kind"], case["a"]
        inv = None
        if kind == "translate":
            inv = _transform(kind, [-v for v in a], case["center"], num)
        elif _inverse(kind, a, self._center(case)) is not None:                   # a scaling with a zero factor has no inverse
            # (the inverse of a whole-number matrix is written as an integer array when it is one, see _transform)
            inv = _transform(kind, _inverse(kind, a, self._center(case))[1], case["center"], "float", md)
        if kind == "rot":
            _transform(kind, [a[1], a[2], a[0], a[3] * 0.5 + 0.3], case["center"])      # … and an unrelated rotation after it
        if case.get("warm"):
            # the same transform object used on another neuron first (transform objects are reusable:
            # `Transforms(...)`, population maps); it must not remember anything about that neuron
            w = dict(case["tree"]); w["xyz"] = [[p[0] + 17.0, p[1] - 9.0, p[2] + 4.0] for p in w["xyz"]]
            tr(_make_tree(w, names if case.get("warm_names") == "same" else None, route))
        y = tr(t)
        via_classmethod = None
        if case["kind"] in ("translate", "scale") and case["center"] != "default":
            # the one-shot spelling `Cls.transform(tree, …)`
            from swcgeom.transforms import Scale, Translate

            z = (Translate if case["kind"] == "translate" else Scale).transform(t, *[_spell(v, num) for v in case["a"]], center=case["center"])
            via_classmethod = bool(np.array_equal(z.xyz(), y.xyz()))
        res = {"xyz": y.xyz().astype(np.float64).tolist(), "pid": y.pid().tolist(), "type": y.type().tolist(),
               "r": y.r().astype(np.float64).tolist(), "id": y.id().tolist(),
               "input_changed": any(not np.array_equal(before[k], t.ndata[k]) for k in before), "via_classmethod": via_classmethod}
        if case.get("tree_route"):
            # the id / parent / type columns of the tree as built (a file read keeps the ids of the file relative to the root's id)
            res["built"] = {"id": t.id().tolist(), "pid": t.pid().tolist(), "type": t.type().tolist()}
        if inv is not None:
            res["back"] = inv(y).xyz().astype(np.float64).tolist()
        return res

    def _center(self, case):
        c = case["center"]
        if c == "default":
            return "root" if case["kind"] in ("scale", "rotx", "roty", "rotz", "rot") else "origin"      # AffineTransform, Translate: origin
        return "root" if c in ("root", "soma") else "origin"

    def lines(self, case, res):
        if "exc" in res or case["kind"] in ("translate_origin", "affine", "affine_h", "affine_m"):
            return self.gen_lines(case, res)
        t = case["tree"]
        root = t["xyz"][_root_row(t)]
        out = []
        idxs = sorted({0, t["n"] - 1, t["n"] // 2})
        for i in idxs:
            p = t["xyz"][i]
            line = (f"affine kind={case['kind']} a={','.join(repr(float(v)) for v in case['a'])} center={self._center(case)} "
                    f"root={','.join(repr(float(v)) for v in root)} p={','.join(repr(float(v)) for v in p)}")
            out.append((line, {"approx": res["xyz"][i], "rtol": 2e-5, "atol": 2e-3}))
        return out + self.gen_lines(case, res)

    def gen_lines(self, case, res):
        """the GENERATED class (constructor with this centre argument — `default` = left out —, then `__call__` / `apply`) run on the whole tree
        by the driver: every coordinate, and ids / parents / types / radii"""
        t = case["tree"]
        if "exc" in res or case.get("names") or (res.get("built") or {}).get("id", list(range(t["n"]))) != list(range(t["n"])):
            return []          # the driver's trees are numbered by row
        kind, a, center = _gen_step(case["kind"], case["a"], case["center"])
        return [(f"gaffine kind={kind} a={a} center={center} {_tree_args(t)}",
                 {"approx": _tree_out(res["xyz"], res["id"], res["pid"], res["type"], res["r"]), "rtol": 2e-5, "atol": 2e-3})]

    def oracle(self, case, res):
        try:
            return self._oracle(case, res)
        except Exception as e:  # noqa: BLE001 - an output the clauses cannot even be evaluated on (wrong sizes, None, ragged) is a finding
            return [(f"{case.get('kind')}-malformed-output", f"{case.get('kind')}{case.get('a')} center={case.get('center')}: the result cannot be "
                     f"compared with the stated map ({type(e).__name__}: {str(e)[:200]})")]

    def _oracle(self, case, res):
        t = case["tree"]
        if not isinstance(res, dict):
            return [(f"{case['kind']}-malformed-output", f"result is {type(res).__name__}")]
        if "exc" in res:
            return [(f"{case['kind']}-raises", f"{case['kind']}({case['a']}, center={case['center']}) raised {res['exc']}: {res.get('msg')}")]
        out = []
        how = (f" [factors spelled as {case['num']}]" if case.get("num", "float") != "float" else "") + \
              (f" [tree with column names {case['names']} built by {case.get('route')}]" if case.get("names") else "")
        P = np.array(t["xyz"], dtype=np.float64)
        rr = _root_row(t)                  # the root is the node without parent, in whatever row it is stored
        how += f" [root stored in row {rr} of {t['n']}, tree built by {case.get('tree_route')}]" if rr else ""
        exp = _expected(case["kind"], case["a"], self._center(case), t["xyz"][rr], P)
        got = np.array(res["xyz"])
        tol = 2e-3 + 2e-5 * np.abs(exp).max()
        if got.shape != exp.shape or not np.allclose(got, exp, atol=tol, rtol=0):
            i = int(np.argmax(np.abs(got - exp).sum(axis=1))) if got.shape == exp.shape else -1
            out.append((f"{case['kind']}-wrong-map/{self._center(case)}",
                        f"{case['kind']}{case['a']} center={case['center']}: node {i} at {P[i].tolist()} (root {P[rr].tolist()}) went to "
                        f"{got[i].tolist() if i >= 0 else got.shape}, stated map gives {exp[i].tolist() if i >= 0 else exp.shape}{how}"))
        # "the chosen centre (… the root when requested) stays fixed under scaling and rotation": the root is the node without parent
        if (case["kind"] in ("scale", "rotx", "roty", "rotz", "rot") and self._center(case) == "root" and got.shape == exp.shape
                and not np.allclose(got[rr], P[rr], atol=2e-3 + 2e-5 * np.abs(P[rr]).max(), rtol=0)):
            out.append((f"{case['kind']}-centre-moved/root", f"{case['kind']}{case['a']} center={case['center']}: the root at {P[rr].tolist()} is the "
                        f"centre and must stay fixed, it went to {got[rr].tolist()}{how}"))
        b = res.get("built") or {"id": list(range(t["n"])), "pid": t["pids"], "type": t["types"]}
        if res["pid"] != b["pid"] or res["type"] != b["type"] or res["id"] != b["id"]:
            out.append(("topology-or-type-changed", "parent relation / types / ids changed by a geometric transform"))
        if not np.allclose(res["r"], np.array(t["r"], dtype=np.float32).astype(np.float64)):
            out.append(("radii-changed", "radii changed by a geometric transform"))
        if res["input_changed"]:
            out.append(("input-modified", "the input tree was modified"))
        if res.get("via_classmethod") is False:
            out.append((f"{case['kind']}-wrong-map/{self._center(case)}", f"{case['kind']}.transform(tree, …) differs from {case['kind']}(…)(tree)"))
        if "back" in res and not np.allclose(np.array(res["back"]), P, atol=5e-3 + 4e-5 * np.abs(P).max(), rtol=0):
            out.append((f"{case['kind']}-inverse", "transform followed by its inverse does not restore the coordinates"))
        return out

    def nontrivial(self, case, res):
        return case["tree"]["n"] >= 2 and any(abs(v) > 0 for v in case["tree"]["xyz"][_root_row(case["tree"])])


# ---- pipelines: a transform is applied to "all trees", in particular to the OUTPUT of another transform ---------------------------
STEP_KINDS = ["translate", "scale", "rotx", "roty", "rotz", "rot", "affine_m/float64", "affine_m/float32", "affine_m/int", "translate_origin"]
STEP_COMBOS = [(k, c) for k in STEP_KINDS for c in (["origin", "root"] if k != "translate_origin" else ["default"])]


def _step(rng, combo, default_ok=True):
    """one step {kind, a, center[, mdtype]} of a pipeline; `root` is spelled root / soma / (where it is the default) left out,
    `origin` is spelled origin / (where it is the default) left out"""
    k, c = combo
    kind, _, md = k.partition("/")
    root_default = kind in ("scale", "rotx", "roty", "rotz", "rot")
    if c == "root":
        center = rng.choice(["root", "soma"] + (["default"] if root_default and default_ok else []))
    elif c == "origin":
        center = rng.choice(["origin"] + ([] if root_default or not default_ok else ["default"]))
    else:
        center = "default"
    th = rng.choice([math.pi / 2, -math.pi / 3, rng.uniform(-3.1, 3.1), rng.uniform(-3.1, 3.1)])
    a = {"translate": lambda: [rng.randint(-40, 40) / 4 for _ in range(3)],
         "scale": lambda: [rng.choice([0.5, 2.0, 1.0, 3.0, 0.25, -1.0, rng.randint(1, 40) / 8]) for _ in range(3)],
         "rotx": lambda: [th], "roty": lambda: [th], "rotz": lambda: [th], "rot": lambda: _unit_axis(rng) + [th],
         "affine_m": lambda: _matrix12_int(rng) if md == "int" else _matrix12(rng), "translate_origin": lambda: []}[kind]()
    st = {"kind": kind, "a": a, "center": center}
    if md:
        st["mdtype"] = rng.choice(INT_MDTYPES) if md == "int" else md
    return st


def _step_center(st):
    c = st["center"]
    if c == "default":
        return "root" if st["kind"] in ("scale", "rotx", "roty", "rotz", "rot") else "origin"
    return "root" if c in ("root", "soma") else "origin"


class Pipeline(Suite):
    """several transforms one after the other: every step must apply ITS stated map about ITS stated centre to the tree
    it is given — whatever produced that tree — and the inverse steps in reverse order restore the original coordinates"""
    name = "c12.pipeline"
    repeat = 15

    def cases(self, rng, tier, widen):
        out = []
        big = tier == "thorough" or widen
        m = len(STEP_COMBOS)
        k = 0
        # every ordered pair (first step, second step) of kind x centre mode occurs in every run; a share of the pipelines has a third step
        for rep in range(3 if big else 1):
            for i, c1 in enumerate(STEP_COMBOS):
                for j, c2 in enumerate(STEP_COMBOS):
                    n = [2, 3, 5, 9][k % 4] if not big else rng.choice([2, 3, 5, 9, 20, 60])
                    t = gen.tree_case(rng, n, gen.pick_shape(rng, k), numbering=rng.choice(["sorted", "root0"]), coords="dyadic"); k += 1
                    steps = [_step(rng, c1), _step(rng, c2)]
                    if rng.random() < 0.25:
                        steps.append(_step(rng, rng.choice(STEP_COMBOS)))
                    cm = ">".join(_step_center(s) for s in steps)
                    out.append({"class": f"pipeline/{cm}", "tree": t, "steps": steps})
        # "a tree moved along one axis after TranslateOrigin": TranslateOrigin, a translation with one or two components exactly 0,
        # then every kind about the root — and the same last step on trees of every placement (see _place)
        kp = 0
        for rep in range(3 if big else 1):
            for c3 in STEP_COMBOS:
                if c3[1] != "root":
                    continue
                n = [3, 5, 9, 2][kp % 4] if not big else rng.choice([2, 3, 5, 9, 20, 60])
                t = gen.tree_case(rng, n, gen.pick_shape(rng, kp + 1), numbering=rng.choice(["sorted", "root0"]), coords="dyadic")
                ax = _zero_axes(kp // 2, 1 + kp % 2)
                sh = [0.0 if i in ax else rng.choice([-1, 1]) * rng.randint(1, 160) / 4 for i in range(3)]
                steps = [{"kind": "translate_origin", "a": [], "center": "default"}, {"kind": "translate", "a": sh, "center": "origin"}, _step(rng, c3)]
                out.append({"class": "pipeline/axis-shift>root", "tree": t, "steps": steps})
                pl = PLACEMENTS[kp % len(PLACEMENTS)]
                tp, _axes = _place(rng, t, pl, kp)
                steps = [_step(rng, c3), _step(rng, rng.choice(STEP_COMBOS))]
                out.append({"class": f"pipeline/place-{pl}/" + ">".join(_step_center(st) for st in steps), "tree": tp, "steps": steps})
                kp += 1
        # trees whose root is not stored in the first row (see _reorder): every kind x centre mode as first step, any second step
        kr = 0
        for rep in range(3 if big else 1):
            for c1 in STEP_COMBOS:
                n = [3, 5, 9, 2][kr % 4] if not big else rng.choice([2, 3, 5, 9, 20, 60])
                t = gen.tree_case(rng, n, gen.pick_shape(rng, kr + 2), numbering=rng.choice(["sorted", "root0"]), coords="dyadic")
                order, rt = ROW_ORDERS[kr % len(ROW_ORDERS)], ROW_ROUTES[(kr // len(ROW_ORDERS)) % len(ROW_ROUTES)]
                steps = [_step(rng, c1), _step(rng, rng.choice(STEP_COMBOS))]
                out.append({"class": f"pipeline/rows-{order}/{rt}/" + ">".join(_step_center(st) for st in steps), "tree": _reorder(rng, t, order),
                            "tree_route": rt, "steps": steps})
                kr += 1
        return out

    def run(self, case):
        t = _make_tree_route(case["tree"], case.get("tree_route", "ctor"))
        before = {k: v.copy() for k, v in t.ndata.items()}
        steps = case["steps"]
        trs = [_transform(s["kind"], s["a"], s["center"], "float", s.get("mdtype", "float64")) for s in steps]
        invs = [_inverse(s["kind"], s["a"], _step_center(s)) for s in steps]
        invs = None if any(v is None for v in invs) else \
            [_transform(v[0], v[1], s["center"], "float", s.get("mdtype", "float64")) for v, s in zip(invs, steps)]
        cur, after = t, []
        for tr in trs:
            cur = tr(cur)
            after.append(cur.xyz().astype(np.float64).tolist())
        built = {"id": t.id().tolist(), "pid": t.pid().tolist(), "type": t.type().tolist()}
        res = {"after": after, "built": built, "pid": cur.pid().tolist(), "type": cur.type().tolist(), "id": cur.id().tolist(),
               "r": cur.r().astype(np.float64).tolist(),
               "input_changed": any(not np.array_equal(before[k], t.ndata[k]) for k in before)}
        if invs is not None:
            for tr in reversed(invs):
                cur = tr(cur)
            res["back"] = cur.xyz().astype(np.float64).tolist()
        # the same steps through the library's own composition `Transforms(*steps)(tree)` (compared with the GENERATED `Transforms.__call__`)
        from swcgeom.transforms import Transforms

        comp = Transforms(*trs)(t)
        res["composed"] = {"xyz": comp.xyz().astype(np.float64).tolist(), "pid": comp.pid().tolist(), "type": comp.type().tolist(),
                           "id": comp.id().tolist(), "r": comp.r().astype(np.float64).tolist()}
        return res

    def lines(self, case, res):
        """the GENERATED `Transforms.__call__` on the generated classes of the steps, run on the whole tree by the driver, against the real
        `Transforms(*steps)(tree)`"""
        if "exc" in res or not res.get("after") or "composed" not in res:
            return []
        t, c = case["tree"], res["composed"]
        if case.get("tree_route") and (res.get("built") or {}).get("id") != list(range(t["n"])):
            return []          # the driver's trees are numbered by row
        steps = ";".join("/".join(_gen_step(s["kind"], s["a"], s["center"])) for s in case["steps"])
        big = max([1.0] + [abs(v) for g in res["after"] for p in g for v in p])
        return [(f"gpipe steps={steps} {_tree_args(t)}",
                 {"approx": _tree_out(c["xyz"], c["id"], c["pid"], c["type"], c["r"]), "rtol": 1e-4, "atol": 5e-3 + 1e-5 * big})]

    def oracle(self, case, res):
        try:
            return self._oracle(case, res)
        except Exception as e:  # noqa: BLE001
            return [("pipeline-malformed-output", f"the result cannot be compared with the stated maps ({type(e).__name__}: {str(e)[:200]})")]

    def _oracle(self, case, res):
        t, steps = case["tree"], case["steps"]
        desc = " then ".join(f"{s['kind']}{s['a']} center={s['center']}" + (f" [{s['mdtype']} matrix]" if "mdtype" in s else "") for s in steps)
        if not isinstance(res, dict):
            return [("pipeline-malformed-output", f"result is {type(res).__name__}")]
        if "exc" in res:
            return [("pipeline-raises", f"{desc} raised {res['exc']}: {res.get('msg')}")]
        out = []
        P0 = np.array(t["xyz"], dtype=np.float64)
        # the root is the node without parent: row 0 in both numberings of gen.tree_case, another row after _reorder
        rr = _root_row(t)
        desc += f" [root stored in row {rr} of {t['n']}, tree built by {case.get('tree_route')}]" if rr else ""
        prev, big = P0, np.abs(P0).max()
        if len(res["after"]) != len(steps):
            return [("pipeline-malformed-output", f"{len(res['after'])} results for {len(steps)} steps")]
        for i, (s, g) in enumerate(zip(steps, res["after"])):
            got = np.array(g, dtype=np.float64)
            c = _step_center(s)
            # the stated map of THIS step applied to the tree this step was given (the observed output of the step before)
            exp = _expected(s["kind"], s["a"], c, prev[rr], prev)
            big = max(big, np.abs(exp).max())
            tol = 2e-3 + 2e-5 * max(np.abs(exp).max(), np.abs(prev).max())
            if got.shape != exp.shape or not np.all(np.isfinite(got)) or not np.allclose(got, exp, atol=tol, rtol=0):
                j = int(np.argmax(np.abs(got - exp).sum(axis=1))) if got.shape == exp.shape else -1
                out.append((f"{s['kind']}-wrong-map/{c}",
                            f"step {i + 1} of [{desc}]: node {j} at {prev[j].tolist() if j >= 0 else '?'} (root {prev[rr].tolist()}) went to "
                            f"{got[j].tolist() if j >= 0 else got.shape}, stated map gives {exp[j].tolist() if j >= 0 else exp.shape}"
                            + (f" [the tree is the output of {steps[i - 1]['kind']} center={steps[i - 1]['center']}]" if i else "")))
                break
            prev = got
        b = res.get("built") if case.get("tree_route") else None
        b = b or {"id": list(range(t["n"])), "pid": t["pids"], "type": t["types"]}
        if res["pid"] != b["pid"] or res["type"] != b["type"] or res["id"] != b["id"]:
            out.append(("topology-or-type-changed", f"parent relation / types / ids changed by [{desc}]"))
        r0 = np.array(t["r"], dtype=np.float32).astype(np.float64)
        if np.shape(res["r"]) != r0.shape or not np.allclose(res["r"], r0):
            out.append(("radii-changed", f"radii changed by [{desc}]"))
        if res["input_changed"]:
            out.append(("input-modified", f"the input tree was modified by [{desc}]"))
        if not out and "back" in res and not np.allclose(np.array(res["back"], dtype=np.float64), P0, atol=5e-3 + 4e-5 * big * 4, rtol=0):
            out.append(("pipeline-inverse", f"[{desc}] followed by the inverse steps in reverse order does not restore the coordinates"))
        return out

    def nontrivial(self, case, res):
        return case["tree"]["n"] >= 2 and any(abs(v) > 0 for v in case["tree"]["xyz"][_root_row(case["tree"])])


# ---- reuse: ONE transform object applied several times; every tree it returned keeps the coordinates of the stated map ------------------
REUSE_MODES = ["other-trees", "same-tree", "chain", "sizes"]


class Reuse(Suite):
    """a transform object is a value that is applied to many trees (`Transforms(...)`, population maps, augmentation loops, t(t(x))).
    Every returned tree must carry the stated map of the tree it was made from — also when it is read AFTER the object has been used
    again — and the inverse of an earlier result restores that result's input.
    modes: `other-trees` = k different trees with the same number of nodes, `same-tree` = the same tree k times, `chain` = the object
    applied to its own output k times (four quarter turns), `sizes` = trees with different numbers of nodes"""
    name = "c12.reuse"

    def cases(self, rng, tier, widen):
        out = []
        big = tier == "thorough" or widen
        k = 0
        for rep in range(3 if big else 1):
            for combo in STEP_COMBOS:
                for mode in REUSE_MODES:
                    n = [2, 3, 5, 9, 20][k % 5] if not big else rng.choice([1, 2, 3, 5, 9, 20, 60])
                    calls = 2 + k % 3; k += 1
                    ns = [n] * calls if mode != "sizes" else [n + i for i in range(calls)]
                    m = 1 if mode in ("same-tree", "chain") else calls
                    trees = [gen.tree_case(rng, ns[i], gen.pick_shape(rng, k + i), numbering=rng.choice(["sorted", "root0"]), coords="dyadic")
                             for i in range(m)]
                    st = _step(rng, combo)
                    out.append({"class": f"reuse-{mode}/{st['kind']}/{_step_center(st)}", "mode": mode, "calls": calls, "trees": trees, "step": st})
        return out

    def run(self, case):
        st, mode = case["step"], case["mode"]
        tr = _transform(st["kind"], st["a"], st["center"], "float", st.get("mdtype", "float64"))
        iv = _inverse(st["kind"], st["a"], _step_center(st))
        inv = None if iv is None else _transform(iv[0], iv[1], st["center"], "float", st.get("mdtype", "float64"))
        made = [gen.make_tree(t) for t in case["trees"]]
        f64 = lambda a: np.asarray(a).astype(np.float64).tolist()
        ins, outs, given, now = [], [], [], []
        for i in range(case["calls"]):
            x = (made[0] if i == 0 or mode == "same-tree" else outs[-1] if mode == "chain" else made[i])
            given.append(f64(x.xyz()))
            y = tr(x)
            ins.append(x); outs.append(y)
            now.append(f64(y.xyz()))
        # … everything below is read after the LAST call
        res = {"given": given, "now": now, "late": [f64(y.xyz()) for y in outs], "inputs_late": [f64(x.xyz()) for x in ins],
               "pid": [y.pid().tolist() for y in outs], "type": [y.type().tolist() for y in outs], "r": [f64(y.r()) for y in outs]}
        if inv is not None:
            res["back0"] = f64(inv(outs[0]).xyz())
        return res

    def _tree_of(self, case, i):
        return case["trees"][0 if case["mode"] in ("same-tree", "chain") else i]

    def oracle(self, case, res):
        try:
            return self._oracle(case, res)
        except Exception as e:  # noqa: BLE001
            return [("reuse-malformed-output", f"the results cannot be compared with the stated map ({type(e).__name__}: {str(e)[:200]})")]

    def _oracle(self, case, res):
        st, mode, k = case["step"], case["mode"], case["calls"]
        c = _step_center(st)
        desc = f"{st['kind']}{st['a']} center={st['center']}" + (f" [{st['mdtype']} matrix]" if "mdtype" in st else "") + \
               f", one object called {k} times ({mode}, {[t['n'] for t in case['trees']]} nodes)"
        if not isinstance(res, dict):
            return [("reuse-malformed-output", f"result is {type(res).__name__}")]
        if "exc" in res:
            return [("reuse-raises", f"{desc} raised {res['exc']}: {res.get('msg')}")]
        if any(len(res[f]) != k for f in ("given", "now", "late", "inputs_late", "pid", "type", "r")):
            return [("reuse-malformed-output", f"{desc}: not {k} results")]
        out = []
        for i in range(k):
            t = self._tree_of(case, i)
            rr = _root_row(t)
            G = np.array(res["given"][i], dtype=np.float64)
            if i == 0 or mode != "chain":        # the tree as constructed (a chain continues with what the call before returned)
                P = np.array(t["xyz"], dtype=np.float32).astype(np.float64)
                if G.shape != P.shape or not np.array_equal(G, P):
                    out.append(("input-modified", f"{desc}: the tree given to call {i + 1} no longer has the coordinates it was built with"))
                    break
            exp = _expected(st["kind"], st["a"], c, G[rr], G)
            tol = 2e-3 + 2e-5 * max(np.abs(exp).max(), np.abs(G).max())
            bad = lambda a: a.shape != exp.shape or not np.all(np.isfinite(a)) or not np.allclose(a, exp, atol=tol, rtol=0)
            now, late = np.array(res["now"][i], dtype=np.float64), np.array(res["late"][i], dtype=np.float64)
            if bad(now):
                out.append((f"{st['kind']}-wrong-map/{c}", f"{desc}: call {i + 1} on {G.tolist()} returned {now.tolist()}, stated map gives {exp.tolist()}"))
                break
            if bad(late):
                out.append((f"{st['kind']}-result-changed-by-later-call/{c}",
                            f"{desc}: the tree returned by call {i + 1} had the stated coordinates {now.tolist()}; read again after call {k} "
                            f"it has {late.tolist()} (stated map of its input {G.tolist()} is {exp.tolist()})"))
                break
            L = np.array(res["inputs_late"][i], dtype=np.float64)
            if L.shape != G.shape or not np.array_equal(L, G):
                out.append(("input-modified", f"{desc}: the tree given to call {i + 1} was {G.tolist()}, after call {k} it is {L.tolist()}"))
                break
            r0 = np.array(t["r"], dtype=np.float32).astype(np.float64)
            if res["pid"][i] != t["pids"] or res["type"][i] != t["types"]:
                out.append(("topology-or-type-changed", f"{desc}: parent relation / types of result {i + 1} changed"))
            if np.shape(res["r"][i]) != r0.shape or not np.allclose(res["r"][i], r0):
                out.append(("radii-changed", f"{desc}: radii of result {i + 1} changed"))
        if not out and "back0" in res:
            G = np.array(res["given"][0], dtype=np.float64)
            big = max(np.abs(G).max(), np.abs(np.array(res["now"][0])).max())
            B = np.array(res["back0"], dtype=np.float64)
            if B.shape != G.shape or not np.allclose(B, G, atol=5e-3 + 8e-5 * big, rtol=0):
                out.append((f"{st['kind']}-inverse", f"{desc}: the inverse applied (after call {k}) to the result of call 1 does not restore {G.tolist()}: {B.tolist()}"))
        return out

    def nontrivial(self, case, res):
        return case["calls"] >= 2 and case["trees"][0]["n"] >= 2


class Matrices(Suite):
    """cross-check of the translator: generated matrices at Float == the Python matrix functions"""
    name = "c12.matrices"

    def cases(self, rng, tier, widen):
        out = []
        for _ in range(12 if tier == "quick" else 60):
            for kind, a in _kinds(rng):
                if kind not in ("translate_origin", "affine", "affine_h", "affine_m"):
                    out.append({"class": kind, "kind": kind, "a": a})
        # angles of many turns (see _angle): every builder x family x decade
        ka = 0
        for rep in range(1 if tier == "quick" else 4):
            for fam in ANGLE_FAMILIES:
                for _e in range(5):
                    for kind in ("rotx", "roty", "rotz", "rot"):
                        out.append({"class": f"{kind}-angle-{fam}", "kind": kind, "a": ([] if kind != "rot" else _unit_axis(rng)) + [_angle(rng, fam, ka)]})
                    ka += 1
        return out

    def run(self, case):
        from swcgeom.utils import rotate3d, rotate3d_x, rotate3d_y, rotate3d_z, scale3d, translate3d

        k, a = case["kind"], case["a"]
        m = {"scale": lambda: scale3d(*a), "translate": lambda: translate3d(*a), "rotx": lambda: rotate3d_x(a[0]),
             "roty": lambda: rotate3d_y(a[0]), "rotz": lambda: rotate3d_z(a[0]), "rot": lambda: rotate3d(a[:3], a[3])}[k]()
        m = np.asarray(m, dtype=np.float64)
        return {"shape": list(m.shape), "m": m.flatten().tolist()}

    def lines(self, case, res):
        if "exc" in res:
            return []
        out = [(f"mat kind={case['kind']} a={','.join(repr(float(v)) for v in case['a'])}", {"approx": res["m"], "rtol": 1e-6, "atol": 1e-6})]
        if case["kind"] == "rot":
            # the GENERATED `rotate3d` (imperative translator, Gen/AlgoRodrigues.lean) on the same axis and angle
            out.append((f"grod n={','.join(repr(float(v)) for v in case['a'][:3])} theta={float(case['a'][3])!r}",
                        {"approx": res["m"], "rtol": 1e-6, "atol": 1e-6}))
        return out

    def oracle(self, case, res):
        if "exc" in res:
            return [(f"{case['kind']}-matrix-raises", f"matrix function for {case['kind']}{case['a']} raised {res['exc']}: {res.get('msg')}")]
        if not isinstance(res, dict) or res.get("shape") != [4, 4] or len(res.get("m") or []) != 16:
            return [(f"{case['kind']}-matrix-shape", f"shape {res.get('shape') if isinstance(res, dict) else type(res).__name__}")]
        # the matrix IS the stated map: M·(p, 1) = stated map of p for the origin and the three unit points, last row (0, 0, 0, 1)
        try:
            M = np.array(res["m"], dtype=np.float64).reshape(4, 4)
            pts = np.vstack([np.zeros(3), np.eye(3)])
            exp = _expected(case["kind"], case["a"], "origin", [0.0, 0.0, 0.0], pts)
            got = (np.hstack([pts, np.ones((4, 1))]) @ M.T)
            ok = np.allclose(got[:, :3], exp, atol=1e-5, rtol=1e-6) and np.allclose(got[:, 3], 1.0, atol=1e-6) and np.allclose(M[3], [0, 0, 0, 1], atol=1e-6)
        except Exception as e:  # noqa: BLE001
            return [(f"{case['kind']}-matrix-shape", f"matrix cannot be evaluated ({type(e).__name__}: {str(e)[:120]})")]
        if not ok:
            return [(f"{case['kind']}-matrix-wrong-map", f"utils matrix for {case['kind']}{case['a']} maps 0, e1, e2, e3 to {got[:, :3].tolist()}, "
                     f"the stated map gives {exp.tolist()}")]
        return []


class Camera(Suite):
    """the generated `_to_homogeneous`, `model_view_transformation`, `orthographic_projection_simple` (Gen/AlgoRodrigues.lean) against the
    real functions; data are small dyadic numbers (exact in float32)"""
    name = "c12.camera"

    def cases(self, rng, tier, widen):
        out = [{"class": "ortho", "kind": "ortho"}]
        d = lambda: rng.randint(-64, 64) / 8
        for k in range(8 if tier == "quick" else 40):
            cols = [3, 3, 4, 3, 2, 5][k % 6]
            out.append({"class": f"hom-{cols}", "kind": "hom", "rows": [[d() for _ in range(cols)] for _ in range(rng.randint(1, 5))],
                        "w": float(k % 2)})
            vec = lambda: [d(), d(), rng.choice([1, 2, 3]) / 2]
            out.append({"class": "mview", "kind": "mview", "pos": [d(), d(), d()], "look": vec(), "up": vec()})
        out.append({"class": "mview-short", "kind": "mview", "pos": [1.0, 2.0], "look": [0.0, 0.0, 1.0], "up": [0.0, 1.0, 0.0]})
        return out

    def run(self, case):
        from swcgeom.utils import transforms as T

        if case["kind"] == "ortho":
            m = T.orthographic_projection_simple()
        elif case["kind"] == "hom":
            m = T._to_homogeneous(np.array(case["rows"], dtype=np.float64), case["w"])
        else:
            m = T.model_view_transformation(tuple(case["pos"]), tuple(case["look"]), tuple(case["up"]))
        m = np.asarray(m, dtype=np.float64)
        return {"shape": list(m.shape), "m": m.flatten().tolist()}

    def lines(self, case, res):
        exc = "exc" in res
        fl = lambda v: ",".join(repr(float(x)) for x in v)
        if case["kind"] == "ortho":
            return [("gortho", "E" if exc else {"approx": res["m"], "rtol": 0, "atol": 0})]
        if case["kind"] == "hom":
            line = f"ghom rows={';'.join(fl(r) for r in case['rows'])} w={case['w']!r}"
            return [(line, "E" if exc else {"approx": res["shape"] + res["m"], "rtol": 1e-12, "atol": 1e-12})]
        ng, nt = float(np.linalg.norm(case["look"])), float(np.linalg.norm(case["up"]))
        line = f"gmview pos={fl(case['pos'])} look={fl(case['look'])} up={fl(case['up'])} ng={ng!r} nt={nt!r}"
        return [(line, "E" if exc else {"approx": res["m"], "rtol": 1e-5, "atol": 1e-5})]

    def oracle(self, case, res):
        if "exc" in res:
            ok = (case["kind"] == "hom" and len(case["rows"][0]) not in (3, 4)) or case["class"] == "mview-short"
            return [] if ok else [(f"{case['kind']}-raises", f"{case['kind']} raised {res['exc']}: {res.get('msg')}")]
        M = np.array(res["m"], dtype=np.float64).reshape(res["shape"])
        if case["kind"] == "mview":
            # the camera position goes to the origin
            got = M @ np.array(case["pos"] + [1.0])
            if not np.allclose(got, [0, 0, 0, 1], atol=1e-4 * (1 + np.abs(case["pos"]).max())):
                return [("mview-position", f"model_view_transformation({case['pos']}, {case['look']}, {case['up']}) maps the camera position to {got.tolist()}")]
        if case["kind"] == "hom" and len(case["rows"][0]) == 3:
            exp = np.hstack([np.array(case["rows"]), np.full((len(case["rows"]), 1), case["w"])])
            if M.shape != exp.shape or not np.array_equal(M, exp):
                return [("hom-fill", f"_to_homogeneous({case['rows']}, {case['w']}) = {M.tolist()}")]
        return []


SUITES = [Affine(), Pipeline(), Reuse(), Matrices(), Camera()]

TECHNIQUE = "Lean 4 theorems (ring / linear_combination over an ordered field) about matrices and the centre conjugation REGENERATED from the Python source by an AST translator on every run + Float cross-check of the generated terms + direct oracle of the stated map"
LEVEL_TEXT = ("Kernel-checked for all vectors, scale factors, unit axes and angles (through c²+s²=1) and all node / root positions: the generated "
              "matrices and the generated conjugation translate by the vector, scale root-relative offsets per axis, fix the chosen centre, are "
              "isometries, fix the axis, turn right-handedly, and compose with their inverses to the identity. A change to a matrix entry, a sign, "
              "the order of the conjugation or a default centre changes the generated Lean and breaks a named theorem.")
LEVEL_NOTE = ("Trusted: Lean kernel, Mathlib tactics (axioms propext/Classical.choice/Quot.sound), the ~400-line translator (cross-checked numerically), "
              "numpy linear algebra; float32 rounding is outside the theorems.")
