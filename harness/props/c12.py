"""C12 — geometric transforms apply the stated affine map about the stated centre."""
import math

import numpy as np

from harness import gen
from harness.framework import Suite

PID = "C12"
TRANSLATE = True
LEAN_MODS = ["SwcVerif.Props.C12"]
THEOREMS = [
    "C12.translate_moves", "C12.translate_origin_root", "C12.scale_origin", "C12.scale_about_root",
    "C12.scale_root_fixed", "C12.rotate_root_fixed", "C12.rotate_axis_isometry", "C12.rotate_axis_isometry_origin",
    "C12.rotate_axis_right_handed", "C12.rodrigues_apply", "C12.rodrigues_fixes_axis", "C12.rodrigues_isometry",
    "C12.rodrigues_z", "C12.inverse_restores", "C12.default_centres",
]
TRUSTED = ["translator harness/translate.py (Gen/Matrices.lean regenerated from utils/transforms.py and transforms/geometry.py on every run; "
           "cross-checked by evaluating the generated matrices at Float against the Python functions)"]
ASSUMPTIONS = [
    "numpy dot/transpose/division semantics of AffineTransform.apply (recognised verbatim by the translator, modelled as mapply)",
    "cos/sin enter only through c²+s²=1; float32 rounding is outside the theorems (compared with tolerance)",
]


AXIS_PATTERNS = [[0], [1], [2], [0, 1], [0, 2], [1, 2], [0, 1, 2]]


def _boundary_factors(rng, k=None):
    """a factor triple with at least one factor from {0, -1, negative}; the other axes carry ordinary factors. With a running
    index k the degenerate axes cycle through every axis pattern and every second triple has an exact 0 on each of them."""
    ordinary = lambda: rng.choice([0.5, 2.0, 1.0, 3.0, rng.randint(1, 40) / 8])
    boundary = lambda: rng.choice([0.0, 0.0, 0.0, -1.0, -rng.randint(1, 40) / 8])
    which = rng.choice(AXIS_PATTERNS) if k is None else AXIS_PATTERNS[k % len(AXIS_PATTERNS)]
    zero = k is not None and (k // len(AXIS_PATTERNS)) % 2 == 0
    return [(0.0 if zero else boundary()) if i in which else ordinary() for i in range(3)]


# the spelling of a number: the factors / offsets are dyadic, so every spelling denotes the same real number
NUMS = ["float", "int", "float32", "float64"]


def _spell(v, num):
    if num == "int" and float(v) == int(v):
        return int(v)
    if num == "float32":
        return np.float32(v)
    if num == "float64":
        return np.float64(v)
    return float(v)


# ---- trees that carry their own column-name table (the public `names=SWCNames(...)` option) ----------------------------------
FIELDS = ["id", "type", "x", "y", "z", "r", "pid"]
NAME_FAMILIES = ["all", "coords", "permuted", "topo"]


def _names(rng, family):
    """a column-name table as {field: column name}: every column renamed / only the coordinates / the default coordinate names
    permuted among the coordinates / only the non-coordinate columns renamed"""
    style = rng.choice(["upper", "prefix", "suffix", "word"])
    word = {"id": "node", "type": "label", "x": "px", "y": "py", "z": "pz", "r": "radius", "pid": "parent"}
    tag = rng.choice(["n", "swc", "col", "v"])
    ren = {"upper": lambda f: f.upper(), "prefix": lambda f: f"{tag}_{f}", "suffix": lambda f: f"{f}_{tag}", "word": lambda f: word[f]}[style]
    nm = {f: f for f in FIELDS}
    if family in ("all", "coords"):
        for f in (FIELDS if family == "all" else ["x", "y", "z"]):
            nm[f] = ren(f)
    elif family == "topo":
        for f in ["id", "type", "r", "pid"]:
            nm[f] = ren(f)
    else:
        perm = rng.choice([["y", "x", "z"], ["z", "y", "x"], ["x", "z", "y"], ["y", "z", "x"], ["z", "x", "y"]])
        nm["x"], nm["y"], nm["z"] = perm
        if rng.random() < 0.5:
            for f in ["id", "type", "r", "pid"]:
                nm[f] = ren(f)
    return nm


def _make_tree(t, names=None, route="ctor"):
    """the real Tree of a tree case, optionally with a user supplied names table (constructor or data-frame route)"""
    if not names:
        return gen.make_tree(t)
    from swcgeom.core import Tree
    from swcgeom.core.swc_utils import SWCNames

    nm = SWCNames(**names)
    n = t["n"]
    xyz = np.array(t["xyz"], dtype=np.float32).reshape(n, 3)
    cols = {nm.id: np.arange(n, dtype=np.int32), nm.type: np.array(t["types"], dtype=np.int32),
            nm.x: xyz[:, 0].copy(), nm.y: xyz[:, 1].copy(), nm.z: xyz[:, 2].copy(),
            nm.r: np.array(t["r"], dtype=np.float32), nm.pid: np.array(t["pids"], dtype=np.int32)}
    if route == "dataframe":
        import pandas as pd

        return Tree.from_data_frame(pd.DataFrame(cols), names=nm)
    return Tree(n, names=nm, **cols)


def _kinds(rng, k=None):
    th = rng.choice([0.0, math.pi / 2, -math.pi / 3, rng.uniform(-3.1, 3.1), rng.uniform(-3.1, 3.1)])
    ax = [rng.uniform(-1, 1) for _ in range(3)]
    nrm = math.sqrt(sum(a * a for a in ax)) or 1.0
    ax = [a / nrm for a in ax]
    if rng.random() < 0.3:
        ax = rng.choice([[1.0, 0.0, 0.0], [0.0, 1.0, 0.0], [0.0, 0.0, 1.0], [-1.0, 0.0, 0.0], [0.0, -1.0, 0.0], [0.0, 0.0, -1.0]])
    return [
        ("translate", [rng.randint(-40, 40) / 4 for _ in range(3)]),
        ("scale", [rng.choice([0.5, 2.0, 1.0, 3.0, 0.25, rng.randint(1, 40) / 8]) for _ in range(3)]),
        # boundary factors: "all scale factors" includes 0 (flattening onto a coordinate plane / axis through the centre),
        # negative ones (mirroring) and -1; at least one axis is degenerate, every axis pattern occurs (see _boundary_factors)
        ("scale", _boundary_factors(rng, k)),
        ("rotx", [th]), ("roty", [th]), ("rotz", [th]),
        ("rot", ax + [th]),
        ("translate_origin", []),
        # a general affine matrix (scaling followed by a translation) applied about the chosen centre
        ("affine", [rng.choice([0.5, 2.0, 1.5]) for _ in range(3)] + [rng.randint(-40, 40) / 4 for _ in range(3)]),
        # the same kind of matrix multiplied by a constant (last row [0, 0, 0, w]): homogeneous coordinates, the same map
        ("affine_h", [rng.choice([0.5, 2.0, 1.5]) for _ in range(3)] + [rng.randint(-40, 40) / 4 for _ in range(3)] + [rng.choice([2.0, 0.25, 4.0])]),
    ]


def _expected(kind, a, center, root, P):
    """the stated map, computed directly in float64"""
    P = np.asarray(P, dtype=np.float64)
    c0 = np.asarray(root, dtype=np.float64) if center == "root" else np.zeros(3)
    if kind == "translate":
        return P + np.asarray(a)
    if kind == "translate_origin":
        return P - np.asarray(root, dtype=np.float64)
    Q = P - c0
    if kind in ("affine", "affine_h"):
        R = Q * np.asarray(a[:3]) + np.asarray(a[3:6])
    elif kind == "scale":
        R = Q * np.asarray(a)
    else:
        if kind == "rot":
            n, th = np.asarray(a[:3]), a[3]
        else:
            n = {"rotx": np.array([1.0, 0, 0]), "roty": np.array([0, 1.0, 0]), "rotz": np.array([0, 0, 1.0])}[kind]
            th = a[0]
        # Rodrigues, right-handed
        R = Q * math.cos(th) + np.cross(n, Q) * math.sin(th) + np.outer(Q @ n, n) * (1 - math.cos(th))
    return R + c0


def _transform(kind, a, center, num="float"):
    from swcgeom.transforms import Rotate, RotateX, RotateY, RotateZ, Scale, Translate, TranslateOrigin

    kw = {} if center == "default" else {"center": center}
    if kind in ("translate", "scale"):
        a = [_spell(v, num) for v in a]
    if kind == "translate":
        return Translate(*a, **kw)
    if kind == "affine":
        from swcgeom.transforms import AffineTransform
        from swcgeom.utils import scale3d, translate3d

        return AffineTransform(translate3d(*a[3:]) @ scale3d(*a[:3]), **kw)
    if kind == "affine_h":
        from swcgeom.transforms import AffineTransform
        from swcgeom.utils import scale3d, translate3d

        return AffineTransform(a[6] * (translate3d(*a[3:6]) @ scale3d(*a[:3])), **kw)
    if kind == "translate_origin":
        return TranslateOrigin()
    if kind == "scale":
        return Scale(*a, **kw)
    if kind == "rotx":
        return RotateX(a[0], **kw)
    if kind == "roty":
        return RotateY(a[0], **kw)
    if kind == "rotz":
        return RotateZ(a[0], **kw)
    return Rotate(np.array(a[:3]), a[3], **kw)


class Affine(Suite):
    name = "c12.affine"

    def cases(self, rng, tier, widen):
        out = []
        big = tier == "thorough" or widen
        reps = 8 if big else 2
        named_reps = 4 if big else 1     # per size: trees with their own column names (guaranteed share, every family in the quick tier)
        k = kn = 0
        for n in [1, 2, 3, 5, 9, 20] + ([60, 200] if big else []):
            for rep in range(reps + named_reps):
                t = gen.tree_case(rng, n, gen.pick_shape(rng, k), numbering=rng.choice(["sorted", "root0"]), coords="dyadic"); k += 1
                if rng.random() < 0.15:  # root at the origin (where a wrong centre goes unnoticed)
                    off = t["xyz"][0][:]
                    t["xyz"] = [[p[i] - off[i] for i in range(3)] for p in t["xyz"]]
                names, route, fam = None, "ctor", "default"
                if rep >= reps:
                    fam = NAME_FAMILIES[kn % len(NAME_FAMILIES)]
                    names, route = _names(rng, fam), ["ctor", "dataframe"][(kn // len(NAME_FAMILIES)) % 2]; kn += 1
                for kind, a in _kinds(rng, k):
                    center = rng.choice(["root", "origin", "default", "soma"]) if kind != "translate_origin" else "default"
                    cls = kind
                    if kind == "scale" and any(v <= 0 for v in a):
                        cls = "scale-flat" if any(v == 0 for v in a) else "scale-mirror"
                    c = {"class": f"{cls}/{center}" + ("" if names is None else f"/names-{fam}"), "tree": t, "kind": kind, "a": a, "center": center,
                         "warm": rng.random() < 0.5, "num": rng.choice(NUMS) if kind in ("translate", "scale") else "float"}
                    if names is not None:
                        # the warm-up neuron of a reused transform object has the same names table or the default one
                        c.update(names=names, route=route, warm_names=rng.choice(["same", "default"]))
                    out.append(c)
        return out

    def run(self, case):
        names, route, num = case.get("names"), case.get("route", "ctor"), case.get("num", "float")
        t = _make_tree(case["tree"], names, route)
        before = {k: v.copy() for k, v in t.ndata.items()}
        tr = _transform(case["kind"], case["a"], case["center"], num)
        # the inverse transform is built BEFORE the forward one is applied: transform objects are values, several are alive at once
        kind, a = case["kind"], case["a"]
        inv = None
        if kind == "translate":
            inv = _transform(kind, [-v for v in a], case["center"], num)
        elif kind == "scale" and all(v != 0 for v in a):      # a scaling with a zero factor has no inverse
            inv = _transform(kind, [1 / v for v in a], case["center"])
        elif kind in ("rotx", "roty", "rotz"):
            inv = _transform(kind, [-a[0]], case["center"])
        elif kind == "rot":
            inv = _transform(kind, a[:3] + [-a[3]], case["center"])
            _transform(kind, [a[1], a[2], a[0], a[3] * 0.5 + 0.3], case["center"])      # … and an unrelated rotation after it
        if case.get("warm"):
            # the same transform object used on another neuron first (transform objects are reusable:
            # `Transforms(...)`, population maps); it must not remember anything about that neuron
            w = dict(case["tree"]); w["xyz"] = [[p[0] + 17.0, p[1] - 9.0, p[2] + 4.0] for p in w["xyz"]]
            tr(_make_tree(w, names if case.get("warm_names") == "same" else None, route))
        y = tr(t)
        via_classmethod = None
        if case["kind"] in ("translate", "scale") and case["center"] != "default":
            # the one-shot spelling `Cls.transform(tree, …)`
            from swcgeom.transforms import Scale, Translate

            z = (Translate if case["kind"] == "translate" else Scale).transform(t, *[_spell(v, num) for v in case["a"]], center=case["center"])
            via_classmethod = bool(np.array_equal(z.xyz(), y.xyz()))
        res = {"xyz": y.xyz().astype(np.float64).tolist(), "pid": y.pid().tolist(), "type": y.type().tolist(),
               "r": y.r().astype(np.float64).tolist(), "id": y.id().tolist(),
               "input_changed": any(not np.array_equal(before[k], t.ndata[k]) for k in before), "via_classmethod": via_classmethod}
        if inv is not None:
            res["back"] = inv(y).xyz().astype(np.float64).tolist()
        return res

    def _center(self, case):
        c = case["center"]
        if c == "default":
            return "root" if case["kind"] in ("scale", "rotx", "roty", "rotz", "rot") else "origin"      # AffineTransform, Translate: origin
        return "root" if c in ("root", "soma") else "origin"

    def lines(self, case, res):
        if "exc" in res or case["kind"] in ("translate_origin", "affine", "affine_h"):
            return []
        t = case["tree"]
        root = t["xyz"][0]
        out = []
        idxs = sorted({0, t["n"] - 1, t["n"] // 2})
        for i in idxs:
            p = t["xyz"][i]
            line = (f"affine kind={case['kind']} a={','.join(repr(float(v)) for v in case['a'])} center={self._center(case)} "
                    f"root={','.join(repr(float(v)) for v in root)} p={','.join(repr(float(v)) for v in p)}")
            out.append((line, {"approx": res["xyz"][i], "rtol": 2e-5, "atol": 2e-3}))
        return out

    def oracle(self, case, res):
        t = case["tree"]
        if "exc" in res:
            return [(f"{case['kind']}-raises", f"{case['kind']}({case['a']}, center={case['center']}) raised {res['exc']}: {res.get('msg')}")]
        out = []
        how = (f" [factors spelled as {case['num']}]" if case.get("num", "float") != "float" else "") + \
              (f" [tree with column names {case['names']} built by {case.get('route')}]" if case.get("names") else "")
        P = np.array(t["xyz"], dtype=np.float64)
        exp = _expected(case["kind"], case["a"], self._center(case), t["xyz"][0], P)
        got = np.array(res["xyz"])
        tol = 2e-3 + 2e-5 * np.abs(exp).max()
        if got.shape != exp.shape or not np.allclose(got, exp, atol=tol, rtol=0):
            i = int(np.argmax(np.abs(got - exp).sum(axis=1))) if got.shape == exp.shape else -1
            out.append((f"{case['kind']}-wrong-map/{self._center(case)}",
                        f"{case['kind']}{case['a']} center={case['center']}: node {i} at {P[i].tolist()} (root {P[0].tolist()}) went to "
                        f"{got[i].tolist() if i >= 0 else got.shape}, stated map gives {exp[i].tolist() if i >= 0 else exp.shape}{how}"))
        if res["pid"] != t["pids"] or res["type"] != t["types"] or res["id"] != list(range(t["n"])):
            out.append(("topology-or-type-changed", "parent relation / types / ids changed by a geometric transform"))
        if not np.allclose(res["r"], np.array(t["r"], dtype=np.float32).astype(np.float64)):
            out.append(("radii-changed", "radii changed by a geometric transform"))
        if res["input_changed"]:
            out.append(("input-modified", "the input tree was modified"))
        if res.get("via_classmethod") is False:
            out.append((f"{case['kind']}-wrong-map/{self._center(case)}", f"{case['kind']}.transform(tree, …) differs from {case['kind']}(…)(tree)"))
        if "back" in res and not np.allclose(np.array(res["back"]), P, atol=5e-3 + 4e-5 * np.abs(P).max(), rtol=0):
            out.append((f"{case['kind']}-inverse", "transform followed by its inverse does not restore the coordinates"))
        return out

    def nontrivial(self, case, res):
        return case["tree"]["n"] >= 2 and any(abs(v) > 0 for v in case["tree"]["xyz"][0])


class Matrices(Suite):
    """cross-check of the translator: generated matrices at Float == the Python matrix functions"""
    name = "c12.matrices"

    def cases(self, rng, tier, widen):
        out = []
        for _ in range(12 if tier == "quick" else 60):
            for kind, a in _kinds(rng):
                if kind not in ("translate_origin", "affine", "affine_h"):
                    out.append({"class": kind, "kind": kind, "a": a})
        return out

    def run(self, case):
        from swcgeom.utils import rotate3d, rotate3d_x, rotate3d_y, rotate3d_z, scale3d, translate3d

        k, a = case["kind"], case["a"]
        m = {"scale": lambda: scale3d(*a), "translate": lambda: translate3d(*a), "rotx": lambda: rotate3d_x(a[0]),
             "roty": lambda: rotate3d_y(a[0]), "rotz": lambda: rotate3d_z(a[0]), "rot": lambda: rotate3d(a[:3], a[3])}[k]()
        m = np.asarray(m, dtype=np.float64)
        return {"shape": list(m.shape), "m": m.flatten().tolist()}

    def lines(self, case, res):
        if "exc" in res:
            return []
        return [(f"mat kind={case['kind']} a={','.join(repr(float(v)) for v in case['a'])}", {"approx": res["m"], "rtol": 1e-6, "atol": 1e-6})]

    def oracle(self, case, res):
        if "exc" in res:
            return [(f"{case['kind']}-matrix-raises", f"matrix function for {case['kind']}{case['a']} raised {res['exc']}: {res.get('msg')}")]
        if res["shape"] != [4, 4]:
            return [(f"{case['kind']}-matrix-shape", f"shape {res['shape']}")]
        return []


SUITES = [Affine(), Matrices()]

TECHNIQUE = "Lean 4 theorems (ring / linear_combination over an ordered field) about matrices and the centre conjugation REGENERATED from the Python source by an AST translator on every run + Float cross-check of the generated terms + direct oracle of the stated map"
LEVEL_TEXT = ("Kernel-checked for all vectors, scale factors, unit axes and angles (through c²+s²=1) and all node / root positions: the generated "
              "matrices and the generated conjugation translate by the vector, scale root-relative offsets per axis, fix the chosen centre, are "
              "isometries, fix the axis, turn right-handedly, and compose with their inverses to the identity. A change to a matrix entry, a sign, "
              "the order of the conjugation or a default centre changes the generated Lean and breaks a named theorem.")
LEVEL_NOTE = ("Trusted: Lean kernel, Mathlib tactics (axioms propext/Classical.choice/Quot.sound), the ~400-line translator (cross-checked numerically), "
              "numpy linear algebra; float32 rounding is outside the theorems.")
