"""C03 — every tree operation returns a well-formed tree and leaves its inputs untouched."""
import io
import warnings

import numpy as np

from harness import gen
from harness.framework import Suite

PID = "C03"
LEAN_MODS = ["SwcVerif.Props.C03", "SwcVerif.Props.C03Cat", "SwcVerif.Props.C03Gen", "SwcVerif.Props.C03Init"]
# Gen/AlgoCtor.lean: `_copy_and_apply` and the copying spellings of swc_utils/normalizer.py, regenerated on every run over a heap of frame
# objects (the in-place procedures they apply live in AlgoNormalizer / AlgoSort / AlgoRepair, on AlgoCheckers / AlgoDsu)
# Gen/AlgoCtorInit.lean: `Tree.__init__` and `padding1d` over a heap of numpy buffers
TRANSLATE_ALGO = ["AlgoDsu", "AlgoCheckers", "AlgoNormalizer", "AlgoSort", "AlgoRepair", "AlgoCtor", "AlgoCtorInit"]
DRIVER_FILES = ["SwcVerif/Model/AlgoRunCtor.lean", "SwcVerif/Model/PyCtor.lean", "SwcVerif/Model/AlgoRunRepair.lean",
                "SwcVerif/Model/AlgoRunCtorInit.lean"]
THEOREMS = [
    "C03.wf_of_sorted", "C03.sort_wf", "C03.subtree_wf", "C03.prune_wf", "C03.redirect_wf", "C03.redirect_nosort_root_position",
    "C03.op_wf", "C03.pipeline_wf", "C03.inputs_untouched", "Represent.wf_represented", "Represent.represented_wf", "Represent.wf_subtree_represented",
    "C03.op2_wf", "C03.pipeline2_wf",
    # the frame condition of the copying normalizer spellings, about the code as generated on this run (Gen/AlgoCtor.lean)
    "RefineCtor.get?_old", "RefineCtor.get?_fresh", "RefineCtor.apply_new", "RefineCtor.copy_and_apply_spec", "RefineCtor.copy_and_apply_lift",
    "RefineCtor.pure_of_eq", "RefineCtor.mark_roots_as_somas_eq", "RefineCtor.reset_index_eq", "RefineCtor.sort_nodes_eq",
    "RefineCtor.link_roots_to_nearest_eq",
    "C03.generated_copy_and_apply_pure", "C03.generated_copy_and_apply_eq", "C03.generated_mark_roots_as_somas_pure", "C03.generated_reset_index_pure",
    "C03.generated_sort_nodes_pure", "C03.generated_link_roots_to_nearest_pure", "C03.generated_copying_eq",
    # Tree.__init__ / padding1d as generated on this run (Gen/AlgoCtorInit.lean) over a heap of numpy buffers: what is written (nothing that
    # existed), what is fresh and what IS the caller's array
    "RefineCtorInit.pad_none", "RefineCtorInit.pad_alias", "RefineCtorInit.pad_short", "RefineCtorInit.pad_cast",
    "RefineCtorInit.padding1d_none_ok", "RefineCtorInit.padding1d_some_ok", "RefineCtorInit.tree_init_eq", "RefineCtorInit.step_ok",
    "RefineCtorInit.padAll_ok", "RefineCtorInit.tree_init_ok",
    "C03.generated_padding1d_spec", "C03.generated_tree_init_spec", "C03.generated_tree_init_given",
    # Tree.from_data_frame as generated on this run, on the generated constructor
    "RefineCtorInit.for1_loop", "RefineCtorInit.from_data_frame_eq", "RefineCtorInit.gatherCols_ok", "RefineCtorInit.tree_init_given",
    "RefineCtorInit.from_data_frame_ok", "C03.generated_from_data_frame_spec",
]
TRUSTED = ["the per-operation models of C05 (sort), C06 (subtree / prune / cut), C07 (re-root, concatenate), C09 (heap: copies allocate), C12 (transforms touch only x, y, z), "
           "each tied to the code by its own correspondence suite; this property's suite checks the composition on the real library",
           "Gen/AlgoCtor / AlgoCtorInit (T26): DataFrames / numpy arrays as heap objects (Model/PyCtor.lean), hooks and glue of harness/algo_specs/51_ctor.py "
           "(list in design_notes/session4/ctor.md): df.copy() is a deep copy, df[k].to_numpy() hands out the column's own array, integer-valued data under dtype "
           "casts — exercised by c03.copying / c03.ctor / c03.fromdf with np.shares_memory"]
ASSUMPTIONS = ["numpy aliasing rules (fancy index / arithmetic / np.concatenate allocate, basic slices are views) — observed with np.shares_memory on every "
               "(input column, output column) pair after every step", "resampling and smoothing enter the pipeline theorem only through their topology (C16 / C08 models)"]

COLS = ["id", "type", "x", "y", "z", "r", "pid"]


def cols_of(t):
    """every column a tree carries: the seven swc columns, then any further per-node column (eswc fields, user features)"""
    nd = getattr(t, "ndata", None)
    return COLS + [k for k in (nd.keys() if isinstance(nd, dict) else []) if k not in COLS]


def snapshot(t):
    return {k: np.array(t.get_ndata(k), copy=True) for k in cols_of(t)}


def changed_cols(before, t):
    """columns of `t` that differ from the snapshot `before` (values, dtype, shape), or that came / went"""
    now = cols_of(t)
    out = [c for c in before if c not in now] + [c for c in now if c not in before]
    for c in before:
        if c in now:
            a, b = before[c], np.asarray(t.get_ndata(c))
            if a.dtype != b.dtype or a.shape != b.shape or not np.array_equal(a, b, equal_nan=a.dtype.kind == "f"):
                out.append(c)
    return out


def shared_cols(t, y, prefix=""):
    return [(prefix + a, b) for a in cols_of(t) for b in cols_of(y) if np.shares_memory(t.get_ndata(a), y.get_ndata(b))]


# ---- "later edits of either side cannot leak into the other" ----------------------------------------------------------------------------------
# What a tree holds is more than its seven standard columns: the header comments (a list, written out by to_swc), the source, any further column.
# After every step the result and the input(s) are EDITED IN PLACE, one side at a time, and the other side is read again through the public
# interface; every edit is undone afterwards (in place as well), so the pipeline goes on from exactly the objects the operation returned.
# where the tree a pipeline starts from comes from: built from arrays without / with header comments, or read from SWC text
ORIGINS = ["arrays", "arrays+comments", "swc-text"]
# in-place edits of the header comments (those that need an entry fall back to `append` on an empty list)
COMMENT_EDITS = ["append", "insert", "extend", "iadd", "setitem", "delitem", "clear", "reverse-and-append"]
COMMENT_WORDS = ["traced by hand", "scale 1.0 1.0 1.0", "ORIGINAL_SOURCE NeuroLucida", "", "  soma at 0 0 0", "CREATURE mouse", "region: CA1", "v3"]


def rand_comments(rng, nonempty=False):
    return [rng.choice(COMMENT_WORDS) for _ in range(rng.randint(1 if nonempty else 0, 3))]


def meta(t):
    """what a tree holds besides its columns"""
    c = getattr(t, "comments", None)
    return (list(c) if isinstance(c, (list, tuple)) else repr(c)), getattr(t, "source", None)


def observe(t, text=False):
    """everything a user can read off a tree: header comments, source, every column (any further one included) and - `text` - what to_swc writes"""
    o = {}
    o["comments"], o["source"] = meta(t)
    nd = getattr(t, "ndata", None)
    for k in (list(nd.keys()) if isinstance(nd, dict) else COLS):
        try:
            a = np.asarray(t.get_ndata(k))
            o["column " + str(k)] = (str(a.dtype), list(a.shape), a.tobytes() if a.dtype.kind in "biufc" else repr(a.tolist()))
        except Exception as e:  # noqa: BLE001
            o["column " + str(k)] = f"<{type(e).__name__}>"
    if text:
        try:
            o["to_swc()"] = t.to_swc()
        except Exception as e:  # noqa: BLE001
            o["to_swc()"] = f"<{type(e).__name__}>"
    return o


def _other_values(a, step):
    if a.dtype.kind in "iuf":
        with np.errstate(all="ignore"):
            return np.where(np.isfinite(a), a + step, 0).astype(a.dtype) if a.dtype.kind == "f" else (a + step).astype(a.dtype)
    if a.dtype.kind == "b":
        return ~a
    return None


def edit_in_place(t, kind, token):
    """edit everything `t` holds, in place; returns (the parts edited, undo).
    columns: other values are written INTO every array (`a[...] = ...`), then the column is bound to a new array (`t.ndata[k] = ...`);
    comments: the list `t.comments` is edited with `kind` (never rebound)."""
    undo, parts = [], []
    nd = getattr(t, "ndata", None)
    if isinstance(nd, dict):
        for k in list(nd.keys()):
            a = nd[k]
            if not isinstance(a, np.ndarray) or a.size == 0:
                continue
            v1, v2 = _other_values(a, 1), _other_values(a, 2)
            if v1 is None:
                continue
            saved = a.copy()
            if a.flags.writeable:
                a[...] = v1
                parts.append("column[...] = other values")
            nd[k] = v2
            parts.append("ndata[column] = another array")
            undo.append((nd, k, a, saved))
    c = getattr(t, "comments", None)
    saved_c = None
    if isinstance(c, list):
        saved_c = list(c)
        k = kind if c or kind in ("append", "insert", "extend", "iadd") else "append"
        if k == "append":
            c.append(token)
        elif k == "insert":
            c.insert(0, token)
        elif k == "extend":
            c.extend([token, "second line"])
        elif k == "iadd":
            c += [token]
        elif k == "setitem":
            c[len(c) // 2] = token
        elif k == "delitem":
            del c[0]
        elif k == "clear":
            c.clear()
        else:
            c.reverse(); c.append(token)
        parts.append(f"comments.{k}")

    def restore():
        for nd_, k_, a_, saved_ in reversed(undo):
            nd_[k_] = a_
            if a_.flags.writeable:
                a_[...] = saved_
        if saved_c is not None:
            c[:] = saved_c
    return sorted(set(parts)), restore


def later_edits(y, inputs, kind, k, text=False):
    """edit the result and look at the inputs; edit the inputs and look at the result. `inputs`: [(name, tree)]. Returns the leaks seen."""
    leaks = []
    sides = [("result", y, inputs)] + [(name, t, [("result", y)]) for name, t in inputs]
    for name, edited, watched in sides:
        before = [observe(w, text) for _, w in watched]
        parts, restore = edit_in_place(edited, kind, f"edited at step {k}")
        try:
            after = [observe(w, text) for _, w in watched]
        finally:
            restore()
        for (wname, _), b, a in zip(watched, before, after):
            changed = sorted(key for key in set(a) | set(b) if a.get(key) != b.get(key))
            if changed:
                leaks.append({"edited": name, "edits": parts, "seen_in": wname, "changed": changed,
                              "comments_before": b.get("comments"), "comments_after": a.get("comments")})
    return leaks


# ---- the vocabulary of pipeline steps -------------------------------------------------------------------------------------------------------
# A step is a string `base[|flag]*`, fully chosen by `cases` (only numeric arguments are drawn in `run`, from the case's own seed):
#   <unary op>[|keep]             one tree in, one tree out; `keep`: the result is checked, the pipeline goes on FROM THE INPUT (the same tree
#                                 object is handed to a second operation afterwards)
#   cat|<operand>[|swap][|keep]   cat_tree(current, operand) - or cat_tree(operand, current) with `swap`; <operand> says where the other tree
#                                 comes from (CAT_OPERANDS)
#   roundtrip|off=<k>[|file]      the SWC round trip with the writer's option id_offset=<k> (the id the first node is written with; the plain
#                                 step writes with the default), through a text or - `file` - a file on disk
#   query|<kind>                  a read-only use of the current tree between two operations (not an operation of the property: nothing is
#                                 checked about it; it is there because a tree that has been looked at is still a well-formed tree, and the
#                                 property quantifies over every call history)
UNARY = ["sort", "subtree", "nodesubtree", "tosub", "cutenter", "cutleave", "redirect", "redirect-nosort", "cuttype", "cutorder", "cuttip",
         "translate", "scale", "rotate", "rotx", "roty", "rotz", "affine", "origin", "normalize", "radius", "smooth", "resample", "roundtrip",
         "compose", "copy"]
PRUNERS = ["tosub", "tosub", "cutleave", "cuttip", "cuttype", "cutorder"]
QUERIES = ["children", "branches", "paths", "tips", "neurites", "nodebranch", "length", "traverse"]
# where the second tree of cat_tree comes from: built on the spot; built and then looked at; built and handed to another operation first;
# a copy / geometric transform of a tree that was looked at; the current tree itself; any earlier tree of this pipeline
CAT_OPERANDS = ["fresh", "queried", "used", "derived", "self", "earlier"]
DERIVERS = ["copy", "translate", "scale", "rotx", "rotate", "origin", "radius"]      # operations that keep every node: "the same neuron, moved"
# steps carried out by a transform object (flag `obj`: by the ONE object of that name of the pipeline, see apply_unary)
TRANSFORM_OBJECTS = ["cuttype", "cutorder", "cuttip", "translate", "scale", "rotate", "rotx", "roty", "rotz", "affine", "origin", "normalize", "radius",
                     "smooth", "resample", "compose"]
KEEPERS = ["translate", "scale", "rotate", "rotx", "roty", "rotz", "affine", "origin", "radius", "smooth", "compose"]     # ... that keep every node
SORTED_OUT = ("sort", "redirect", "cat", "sort-after-nosort")


def rand_step(rng):
    u = rng.random()
    if u < 0.12:
        return "query|" + rng.choice(QUERIES)
    if u < 0.24:
        return "cat|" + rng.choice(CAT_OPERANDS) + ("|swap" if rng.random() < 0.35 else "") + ("|keep" if rng.random() < 0.15 else "")
    return rng.choice(UNARY) + ("|keep" if rng.random() < 0.15 else "")


def make_ops(rng, length):
    ops = []
    if rng.random() < 0.5:      # prune the freshly built (arbitrarily numbered) tree first: numbering-sensitive code sees an unsorted table
        ops.append(rng.choice(PRUNERS))
    for _ in range(length):
        ops.append(rand_step(rng))
    return ops


def reuse_ops(rng, t, pattern):
    """pipelines in which ONE transform object `t` is called more than once: what the object remembers from a call is there at the next"""
    o = t + "|obj"
    between = rng.choice(KEEPERS + ["copy", "sort", "roundtrip"])
    return {
        "own-result": [o, o],                                                   # t(t(x))
        "own-result-thrice": [o, o, o],
        "same-input": [o + "|keep", o],                                         # t(x); t(x)
        "looked-at": [o, "query|" + rng.choice(QUERIES), o],
        "other-op-between": [o, between, o],                                    # t(u(t(x)))
        "other-tree": [o + "|keep", "cat|fresh" + ("|swap" if rng.random() < 0.5 else ""), o],      # t(x); t(a different tree)
        "as-member": [o, "members"],                                            # Transforms(t)(t(x))
        "as-member-twice": [o, rng.choice(KEEPERS) + "|obj", "members", "members"],
    }[pattern]


REUSE_PATTERNS = ["own-result", "own-result-thrice", "same-input", "looked-at", "other-op-between", "other-tree", "as-member", "as-member-twice"]


def pair_steps():
    """every step that can stand first x every step that can stand second (see Pipeline.cases)"""
    firsts = UNARY + ["query|" + q for q in QUERIES] + ["cat|fresh"] + [u + "|keep" for u in ("cuttip", "cutorder", "redirect-nosort", "sort", "rotate", "copy")]
    seconds = UNARY + ["cat|" + m + s for m in CAT_OPERANDS for s in ("", "|swap")]
    return firsts, seconds


class _Lib:
    pass


def lib():
    if not hasattr(_Lib, "Tree"):
        from swcgeom.core import Tree
        from swcgeom.core.tree_utils import cat_tree, cut_tree, get_subtree, redirect_tree, sort_tree, to_subtree
        from swcgeom.transforms import (AffineTransform, CutByFurcationOrder, CutByType, CutShortTipBranch, IsometricResampler, Normalizer, RadiusReseter,
                                        Rotate, RotateX, RotateY, RotateZ, Scale, Transforms, Translate, TranslateOrigin, TreeSmoother)
        for k, v in list(locals().items()):
            setattr(_Lib, k, v)
    return _Lib


def query(t, kind, rng):
    """read-only use of a tree; whatever it does or raises is not this property's business"""
    n = t.number_of_nodes()
    k = rng.randrange(n)
    try:
        if kind == "children":
            [[int(c.id) for c in nd.children()] for nd in t]
        elif kind == "branches":
            t.get_branches()
        elif kind == "paths":
            t.get_paths()
        elif kind == "tips":
            t.get_tips(); t.get_furcations()
        elif kind == "neurites":
            list(t.get_neurites(type_check=False)); list(t.get_dendrites(type_check=False))
        elif kind == "nodebranch":
            t.node(k).branch()
        elif kind == "length":
            t.length()
        else:
            t.traverse(enter=lambda nd, pv: 0); t.traverse(leave=lambda nd, ks: 0)
    except Exception as e:  # noqa: BLE001
        return type(e).__name__
    return None


def apply_unary(op, cur, rng, info, legacy=False, objs=None, flags=()):
    """apply one one-tree operation with arguments drawn from rng; returns (result, position the root must keep | None), or None when the
    operation's own precondition does not hold for this tree (then nothing is called).
    `objs` (step flag `obj`): the transform OBJECTS of this pipeline, by step name - the operation is then carried out by the object an earlier
    `obj` step of the same name built (with the arguments drawn then), the way one transform instance serves every sample of a dataset."""
    L = lib()
    n = cur.number_of_nodes()
    nosort_root = None
    info["arg"] = None

    def tf(build, arg=None):
        """the transform object of this step: built now, or - with `objs` - the one built by the first such step of the pipeline"""
        if objs is None:
            info["arg"] = arg() if callable(arg) else arg
            return build(info["arg"])
        if op not in objs:
            a = arg() if callable(arg) else arg
            objs[op] = (build(a), a)
        info["arg"] = objs[op][1]
        info["reused"] = objs.setdefault("#calls", {}).get(op, 0)
        objs["#calls"][op] = info["reused"] + 1
        return objs[op][0]
    if op == "sort":
        y = L.sort_tree(cur)
    elif op == "subtree":
        info["arg"] = rng.randrange(n); y = L.get_subtree(cur, info["arg"])
    elif op == "nodesubtree":
        info["arg"] = rng.randrange(n); y = cur.node(info["arg"]).subtree()
    elif op == "tosub":
        inner = sorted({int(p) for p in cur.pid() if p > 0})        # prefer nodes that have something below them
        pool = inner if inner and rng.random() < 0.7 else list(range(1, n))
        info["arg"] = rng.sample(pool, min(len(pool), rng.randint(0, 3))) if n > 1 else []
        y = L.to_subtree(cur, info["arg"])
    elif op == "cutenter":
        d = rng.randint(1, 4); info["arg"] = d
        y = L.cut_tree(cur, enter=lambda nd, pv: ((0 if pv is None else pv + 1), (0 if pv is None else pv + 1) >= d))
    elif op == "cutleave":
        hcut = rng.choice([0, 1, 2]); info["arg"] = hcut
        y = L.cut_tree(cur, leave=lambda nd, ks: (max([x + 1 for x in ks], default=0), (max([x + 1 for x in ks], default=0) == hcut and nd.id != 0 and nd.id % 2 == 0)))
    elif op in ("redirect", "redirect-nosort"):
        info["arg"] = rng.randrange(n); y = L.redirect_tree(cur, info["arg"], sort=(op == "redirect"))
        if op == "redirect-nosort":
            nosort_root = info["arg"]
    elif op == "cuttype":
        y = tf(lambda a: L.CutByType(a), lambda: int(rng.choice(sorted(set(int(v) for v in cur.type())))))(cur)
    elif op == "cutorder":
        y = tf(lambda a: L.CutByFurcationOrder(a), lambda: rng.randint(1, 3))(cur)
    elif op == "cuttip":
        # thresholds on the scale of the tree itself (just above one of its segment lengths, above all of them) next to fixed ones, so that
        # both "nothing is short enough" and "some twigs go" happen
        xyz, pid = cur.xyz().astype(np.float64), cur.pid()
        seg = [float(np.linalg.norm(xyz[i] - xyz[int(pid[i])])) for i in range(n) if 0 <= int(pid[i]) < n]
        seg = [s for s in seg if np.isfinite(s)]
        cand = [0.5, 2.0, 10.0] + ([1.01 * rng.choice(seg) + 1e-3, 1.5 * max(seg) + 1e-3, 1.5 * max(seg) + 1e-3] if seg and not legacy else [])
        y = tf(lambda a: L.CutShortTipBranch(thre=a), lambda: float(rng.choice(cand)))(cur)
    elif op == "translate":
        y = tf(lambda a: L.Translate(rng.randint(-9, 9), rng.randint(-9, 9), 1.5))(cur)
    elif op == "scale":
        y = tf(lambda a: L.Scale(2.0, 0.5, 3.0, center=rng.choice(["root", "origin"])))(cur)
    elif op == "rotate":
        y = tf(lambda a: L.Rotate(np.array([0.6, 0.0, 0.8]), rng.uniform(-3, 3), center=rng.choice(["root", "origin"])))(cur)
    elif op in ("rotx", "roty", "rotz"):
        y = tf(lambda a: {"rotx": L.RotateX, "roty": L.RotateY, "rotz": L.RotateZ}[op](rng.uniform(-3, 3)))(cur)
    elif op == "affine":
        # a generic invertible affine map given the way a user writes one: an ordinary numpy matrix (float64), sometimes float32
        def affine(_):
            m = np.eye(4)
            for i in range(3):
                m[i, i] = rng.choice([0.5, 1.0, 2.0, -1.0])
                for j in range(i):
                    m[i, j] = rng.choice([0.0, 0.0, 0.5, -1.0])
                m[i, 3] = rng.randint(-9, 9)
            dt = rng.choice(["float64", "float64", "float32"])
            info["dt"] = dt
            return L.AffineTransform(m.astype(dt), center=rng.choice(["origin", "root"]))
        y = tf(affine)(cur)
        info["arg"] = info.pop("dt", info["arg"])
    elif op == "origin":
        y = tf(lambda a: L.TranslateOrigin())(cur)
    elif op == "normalize":
        # Normalizer divides every column by its maximum: a column whose maximum is 0 is outside its domain
        if any(float(np.max(cur.get_ndata(c))) == 0 or not np.all(np.isfinite(cur.get_ndata(c))) for c in ("x", "y", "z", "r")):
            return None
        if legacy and (n < 2 or any(float(np.max(cur.get_ndata(c))) <= 0 for c in ("x", "y", "z", "r"))):
            return None
        y = tf(lambda a: L.Normalizer())(cur)
    elif op == "radius":
        y = tf(lambda a: L.RadiusReseter(0.75))(cur)
    elif op == "smooth":
        y = tf(lambda a: L.TreeSmoother(a), lambda: rng.choice([3, 5]))(cur)
    elif op == "resample":
        # the resampler starts from `tree.soma()` (type-checked) and needs distinct, finite node positions
        if n < 2 or len(set(map(tuple, cur.xyz().tolist()))) < n or int(cur.type()[0]) != 1 or not np.all(np.isfinite(cur.xyz())):
            return None
        xyz, pid = cur.xyz().astype(np.float64), cur.pid()
        total = sum(float(np.linalg.norm(xyz[i] - xyz[int(pid[i])])) for i in range(n) if 0 <= int(pid[i]) < n)

        def spacing():  # keep the result to a few thousand nodes: a spacing far below the tree's scale only makes the same case bigger
            d = rng.choice([0.5, 2.0, 7.0])
            return d if legacy else max(d, total / 2000.0)
        if objs is not None and op in objs and objs[op][1] < total / 4000.0:
            return None         # the pipeline's resampler was built for a much smaller tree
        y = tf(lambda a: L.IsometricResampler(a), spacing)(cur)
    elif op == "roundtrip":
        off = next((int(f[4:]) for f in flags if f.startswith("off=")), None)
        if off is None:
            y = L.Tree.from_swc(io.StringIO(cur.to_swc()))
        else:       # the round trip with the writer's own options: the id the first node is written with, and text / file as the medium
            info["arg"] = {"id_offset": off, "via": "file" if "file" in flags else "text"}
            if "file" in flags:
                import os
                import tempfile
                with tempfile.TemporaryDirectory() as d:
                    cur.to_swc(os.path.join(d, "t.swc"), id_offset=off)
                    y = L.Tree.from_swc(os.path.join(d, "t.swc"))
            else:
                y = L.Tree.from_swc(io.StringIO(cur.to_swc(id_offset=off)))
    elif op == "compose":
        y = tf(lambda a: L.Transforms(L.Translate(1, 2, 3), L.RadiusReseter(1.25), L.TranslateOrigin()))(cur)
    elif op == "members":
        # Transforms(...) put together from the transform objects this pipeline has already used (those that keep every node)
        names = [k for k in (objs or {}) if k in KEEPERS]
        if not names:
            return None
        info["arg"] = names
        y = L.Transforms(*[objs[k][0] for k in names])(cur)
    elif op == "copy":
        y = cur.copy()
    else:
        raise ValueError(f"unknown step {op}")
    return y, nosort_root


def make_operand(mode, cur, pool, rng, info, legacy=False):
    """the other tree of a cat_tree step"""
    if mode in ("self", "earlier"):
        other = cur if mode == "self" else rng.choice(pool)
        info["other_pids"] = other.pid().tolist()
        return other
    t2 = gen.tree_case(rng, rng.choice([1, 2, 4, 7] if not legacy else [1, 2, 4]), gen.pick_shape(rng, rng.randrange(9)), numbering="root0" if legacy else rng.choice(["root0", "root0", "sorted"]), coords="dyadic")
    if not legacy:
        t2["xyz"] = [[c / 16.0 for c in p] for p in t2["xyz"]]      # the scale of the pipeline's own trees
    other = gen.make_tree(t2)
    info["other_pids"] = t2["pids"]
    if mode == "queried":
        for kind in rng.sample(QUERIES, 2):
            query(other, kind, rng)
    elif mode == "used":            # the operand was the input of another operation before (whose result is not used)
        info["arg"] = "while preparing the operand"
        apply_unary(rng.choice(UNARY), other, rng, {})
    elif mode == "derived":         # a moved copy of a tree that was looked at
        query(other, rng.choice(QUERIES), rng)
        info["arg"] = "while preparing the operand"
        other = apply_unary(rng.choice(DERIVERS), other, rng, {})[0]
    return other


# ---- trees that carry MORE than the seven swc columns ---------------------------------------------------------------------------------------
# A well-formed tree may carry any further per-node column: the eswc fields (Tree.from_eswc), columns named by the reader's `extra_cols=`,
# feature arrays handed to the constructor (`Tree(n, ..., level=arr)`). "Shares no storage / later edits cannot leak" is about the whole
# tree, so every column it carries is snapshot, compared with np.shares_memory and edited (cols_of / changed_cols / shared_cols / observe).
COLUMN_ORIGINS = ["arrays+columns", "swc-text+extra_cols", "eswc-text"]
ESWC_FIELDS = ["level", "mode", "timestamp", "teraflyindex", "feature_value"]
FEATURE_NAMES = ["level", "label", "w", "score", "depth", "seg_id", "visited", "feature_value", "timestamp"]
FEATURE_DTYPES = ["int32", "int64", "float32", "float64", "bool", "uint8"]


def rand_columns(rng, n, origin):
    """the further columns of a start tree: [{"name", "dtype", "values"}] (file origins: the reader decides the dtype)"""
    names = ESWC_FIELDS if origin == "eswc-text" else rng.sample(FEATURE_NAMES, rng.randint(1, 3))
    cols = []
    for name in names:
        dt = rng.choice(FEATURE_DTYPES) if origin == "arrays+columns" else "float64"
        if dt == "bool":
            vals = [rng.random() < 0.5 for _ in range(n)]
        elif dt[0] in "iu" or rng.random() < 0.4:
            vals = [rng.randint(0, 9) for _ in range(n)]
        else:
            vals = [rng.randint(-64, 64) / 8.0 for _ in range(n)]
        cols.append({"name": name, "dtype": dt, "values": vals})
    return cols


def start_tree(case):
    """the tree a pipeline starts from, by `origin`"""
    origin = case.get("origin", "arrays")
    if origin in COLUMN_ORIGINS:
        L = lib()
        base = gen.make_tree(case["tree"], comments=list(case.get("comments") or []), source=case.get("source", ""))
        extra = {c["name"]: np.array(c["values"], dtype=c["dtype"]) for c in case["columns"]}
        t = L.Tree(case["tree"]["n"], **{k: base.get_ndata(k) for k in COLS}, **extra, comments=list(case.get("comments") or []), source=case.get("source", ""))
        if origin == "arrays+columns":
            return t
        with warnings.catch_warnings():
            warnings.simplefilter("ignore")
            if origin == "eswc-text":       # the five eswc fields, through the eswc reader
                return L.Tree.from_eswc(io.StringIO(t.to_swc(extra_cols=list(ESWC_FIELDS))))
            return L.Tree.from_swc(io.StringIO(t.to_swc(extra_cols=list(extra))), extra_cols=list(extra))
    if origin == "arrays":
        return gen.make_tree(case["tree"])
    t = gen.make_tree(case["tree"], comments=list(case.get("comments") or []), source=case.get("source", ""))
    if origin == "arrays+comments":
        return t
    if origin == "swc-text":
        with warnings.catch_warnings():
            warnings.simplefilter("ignore")
            return lib().Tree.from_swc(io.StringIO(t.to_swc()))
    raise ValueError(f"unknown origin {origin}")


class Pipeline(Suite):
    name = "c03.pipeline"
    case_timeout = 120

    def cases(self, rng, tier, widen):
        out = []
        big = tier == "thorough" or widen
        k = 0
        # (1) random pipelines
        for n in [1, 2, 3, 5, 8, 13, 21] + ([60] if big else []):
            for _ in range(9 if not big else 24):
                shape = gen.pick_shape(rng, k); k += 1
                t = gen.tree_case(rng, n, shape, numbering=rng.choice(["sorted", "root0", "root0", "root0"]), coords="dyadic", types="mixed")
                t["xyz"] = [[c / 16.0 for c in p] for p in t["xyz"]]
                out.append({"class": shape, "family": "random", "v": 2, "tree": t, "ops": make_ops(rng, rng.randint(2, 8 if not big else 30)), "seed": rng.randrange(10**6)})
        # (2) every operation on the result of every operation (and on a tree that was looked at / already used / given as either operand of
        #     a concatenation): what one call leaves behind - column dtypes and layouts other than the constructor's, anything remembered on
        #     the tree object - is what the next call starts from. Two-step pipelines, so a failing input is as small as it gets.
        firsts, seconds = pair_steps()
        for rep in range(1 if not big else 3):
            for a in firsts:
                for b in seconds:
                    shape = gen.pick_shape(rng, k); k += 1
                    if shape in ("single", "two"):
                        shape = "random"
                    n = rng.choice([5, 6, 7, 9]) if rep == 0 else rng.choice([3, 4, 12, 20])
                    t = gen.tree_case(rng, n, shape, numbering=rng.choice(["sorted", "root0", "root0"]), coords="dyadic", types="mixed")
                    t["xyz"] = [[c / 16.0 for c in p] for p in t["xyz"]]
                    out.append({"class": shape, "family": "pair", "v": 2, "tree": t, "ops": [a, b], "seed": rng.randrange(10**6)})
        # (3) one transform object serving several calls of a pipeline (a dataset applies one instance to every sample; Transforms(...) holds
        #     its members): every transform x every way of meeting it again, then random pipelines whose transform steps share their objects
        for rep in range(1 if not big else 3):
            for t in TRANSFORM_OBJECTS:
                for pat in REUSE_PATTERNS if rep == 0 else rng.sample(REUSE_PATTERNS, 4):
                    shape = gen.pick_shape(rng, k); k += 1
                    if shape in ("single", "two"):
                        shape = "random"
                    tr = gen.tree_case(rng, rng.choice([4, 5, 6, 7, 9, 12]), shape, numbering=rng.choice(["sorted", "root0", "root0"]), coords="dyadic", types="mixed")
                    tr["xyz"] = [[c / 16.0 for c in p] for p in tr["xyz"]]
                    out.append({"class": f"reuse/{pat}/{shape}", "family": "reuse", "pattern": pat, "v": 2, "tree": tr, "ops": reuse_ops(rng, t, pat), "seed": rng.randrange(10**6)})
        for _ in range(40 if not big else 160):
            shape = gen.pick_shape(rng, k); k += 1
            tr = gen.tree_case(rng, rng.choice([3, 5, 8, 13, 21]), shape, numbering=rng.choice(["sorted", "root0", "root0"]), coords="dyadic", types="mixed")
            tr["xyz"] = [[c / 16.0 for c in p] for p in tr["xyz"]]
            vocab = rng.sample(TRANSFORM_OBJECTS, 3)        # few names, so that they meet again
            ops = []
            for _i in range(rng.randint(3, 8 if not big else 20)):
                u = rng.random()
                ops.append(rng.choice(vocab) + "|obj" + ("|keep" if rng.random() < 0.15 else "") if u < 0.6 else "members" if u < 0.7 else rand_step(rng))
            out.append({"class": f"reuse/random/{shape}", "family": "reuse", "pattern": "random", "v": 2, "tree": tr, "ops": ops, "seed": rng.randrange(10**6)})
        # (4) later edits of either side: what a tree holds besides its seven columns (header comments, source, further columns) depends on
        #     where it comes from - built from arrays without / with comments, read from SWC text - and on the operations it went through;
        #     every operation (and both operand orders of cat_tree) on a tree of every origin, then short pipelines, each with one of the
        #     in-place edits of the comment list (the column edits are the same for every case). These cases also compare the to_swc() text.
        singles = [u for u in UNARY] + ["cat|fresh", "cat|fresh|swap", "cat|self", "cat|derived|swap"]
        plans = [(o, [s1]) for o in ORIGINS for s1 in singles]
        for _ in range(60 if not big else 400):
            ops = [rand_step(rng) for _i in range(rng.randint(2, 4 if not big else 10))]
            plans.append((rng.choice(ORIGINS), ([rng.choice(PRUNERS)] if rng.random() < 0.4 else []) + ops))
        for origin, ops in plans:
            shape = gen.pick_shape(rng, k); k += 1
            if shape in ("single", "two"):
                shape = "random"
            tr = gen.tree_case(rng, rng.choice([3, 4, 5, 6, 7, 9, 12]), shape, numbering=rng.choice(["sorted", "root0", "root0"]), coords="dyadic", types="mixed")
            tr["xyz"] = [[c / 16.0 for c in p] for p in tr["xyz"]]
            edit = rng.choice(COMMENT_EDITS)
            case = {"class": f"edits/{origin}/{edit}", "family": "edits", "v": 3, "origin": origin, "edit": edit, "tree": tr, "ops": ops, "seed": rng.randrange(10**6)}
            if origin != "arrays":
                case["comments"] = rand_comments(rng, nonempty=rng.random() < 0.8)
                case["source"] = rng.choice(["", "neuron.swc", "/data/n 1.swc"])
            out.append(case)
        # (5) the SWC round trip with the writer's options: to_swc lets the caller choose the id of the first node (0: ids as stored, the
        #     default 1, any larger one) and the medium; every such file is one the reader accepts, so every one is a round trip of the
        #     property. Alone, on the result of another operation, and followed by one (which starts from what the reader built).
        for off_class in ["0", "0", "0", "1", "2", "small", "small", "large", "large"] * (1 if not big else 4):
            for via in ("text", "file"):
                off = {"small": rng.randint(3, 60), "large": rng.choice([1000, 65536, 2**24 + 1, 10**9])}.get(off_class) or int(off_class)
                shape = gen.pick_shape(rng, k); k += 1
                if shape in ("single", "two"):
                    shape = "random"
                tr = gen.tree_case(rng, rng.choice([2, 3, 5, 8, 13]), shape, numbering=rng.choice(["sorted", "root0", "root0"]), coords="dyadic", types="mixed")
                tr["xyz"] = [[c / 16.0 for c in p] for p in tr["xyz"]]
                rt = f"roundtrip|off={off}" + ("|file" if via == "file" else "")
                ops = ([rng.choice(UNARY)] if rng.random() < 0.5 else []) + [rt] + ([rand_step(rng)] if rng.random() < 0.6 else [])
                out.append({"class": f"roundtrip-options/off-{off_class}/{via}", "family": "roundtrip-options", "opt": f"off-{off_class}/{via}", "v": 2, "tree": tr, "ops": ops,
                            "seed": rng.randrange(10**6)})
        # (6) trees that carry further per-node columns (eswc fields, reader's extra_cols, feature arrays given to the constructor): every
        #     operation (and both operand orders of cat_tree) on a tree of every such origin, then short pipelines. Every column the tree
        #     carries is snapshot, tested for shared storage and edited on either side.
        plans = [(o, [s1]) for o in COLUMN_ORIGINS for s1 in singles]
        for _ in range(45 if not big else 300):
            ops = [rand_step(rng) for _i in range(rng.randint(2, 4 if not big else 10))]
            plans.append((rng.choice(COLUMN_ORIGINS), ([rng.choice(PRUNERS)] if rng.random() < 0.3 else []) + ops))
        for origin, ops in plans:
            shape = gen.pick_shape(rng, k); k += 1
            if shape in ("single", "two"):
                shape = "random"
            tr = gen.tree_case(rng, rng.choice([3, 4, 5, 6, 7, 9, 12]), shape, numbering=rng.choice(["sorted", "root0", "root0"]), coords="dyadic", types="mixed")
            tr["xyz"] = [[c / 16.0 for c in p] for p in tr["xyz"]]
            out.append({"class": f"columns/{origin}", "family": "columns", "v": 3, "origin": origin, "edit": rng.choice(COMMENT_EDITS), "tree": tr,
                        "columns": rand_columns(rng, tr["n"], origin), "comments": rand_comments(rng), "source": "", "ops": ops, "seed": rng.randrange(10**6)})
        return out

    def run(self, case):
        import random as _r
        from harness.framework import CaseTimeout

        L = lib()
        rng = _r.Random(case["seed"])
        legacy = case.get("v", 1) < 2          # stored cases of earlier rounds keep the arguments they were stored with
        edit_kind = case.get("edit", "append")
        text = case.get("v", 1) >= 3       # the cases of the `edits` family also compare what to_swc() writes
        try:
            cur = start_tree(case)
        except CaseTimeout:
            raise
        except Exception as e:  # noqa: BLE001
            import traceback
            return {"exc": type(e).__name__, "msg": str(e)[:300], "tb": traceback.format_exc()[-1200:], "at": f"building the start tree ({case.get('origin', 'arrays')})", "n_in": case["tree"]["n"], "steps": []}
        pool = [cur]                  # every well-formed tree of this pipeline so far (inputs and results)
        objs = {}                     # the transform objects of this pipeline (steps flagged `obj`)
        steps = []
        info = {"arg": None}
        with warnings.catch_warnings():
            warnings.simplefilter("ignore")
            for k, op in enumerate(case["ops"]):
                base, *flags = op.split("|")
                info = {"arg": None}
                try:
                    if base == "query":
                        query(cur, flags[0] if flags else "children", rng)
                        continue
                    n = cur.number_of_nodes()
                    before = snapshot(cur)
                    before_meta = meta(cur)
                    wide_in = [c for c in COLS if cur.get_ndata(c).dtype.itemsize == 8]
                    other = None
                    nosort_root = None
                    if base == "cat":
                        other = make_operand(next((f for f in flags if f in CAT_OPERANDS), "fresh"), cur, pool, rng, info, legacy)
                        before_other = snapshot(other)
                        before_other_meta = meta(other)
                        wide_in += ["other:" + c for c in COLS if other.get_ndata(c).dtype.itemsize == 8]
                        t1, t2 = (other, cur) if "swap" in flags else (cur, other)
                        n1, n2 = t1.number_of_nodes(), t2.number_of_nodes()
                        node1 = n1 - 1 if not legacy and rng.random() < 0.2 else rng.randrange(n1)      # the last node: nothing is stored after it
                        node2 = rng.randrange(1, n2) if not legacy and n2 > 1 and rng.random() < 0.5 else rng.randrange(n2)
                        info["arg"] = [node1, node2, rng.random() < 0.6]
                        y = L.cat_tree(t1, t2, node1, node2, translate=info["arg"][2])
                    else:
                        r = apply_unary(base, cur, rng, info, legacy, objs if "obj" in flags or base == "members" else None, flags)
                        if r is None:
                            continue
                        y, nosort_root = r
                except CaseTimeout:
                    raise
                except Exception as e:  # noqa: BLE001 - an operation that raises on admissible arguments did not yield a tree
                    import traceback
                    return {"exc": type(e).__name__, "msg": str(e)[:300], "tb": traceback.format_exc()[-1200:], "at": f"step {k} {op}({info['arg']})" + (f" with other tree pids={info['other_pids']}" if "other_pids" in info else ""),
                            "n_in": int(cur.number_of_nodes()), "steps": steps}
                rec = {"op": base, "flags": flags, "arg": info["arg"], "n_in": n, "n_out": int(y.number_of_nodes()), "id": y.id().tolist(), "pid": y.pid().tolist(),
                       "wide_in": wide_in}
                if "other_pids" in info:
                    rec["other_pids"] = info["other_pids"]
                if "reused" in info:
                    rec["reused"] = info["reused"]          # how often this step's transform object had been called before
                rec["input_changed"] = changed_cols(before, cur) + [w for w, a, b in zip(("comments", "source"), before_meta, meta(cur)) if a != b]
                rec["shares"] = shared_cols(cur, y)
                if other is not None:
                    rec["input_changed"] += ["other:" + c for c in changed_cols(before_other, other)]
                    rec["input_changed"] += ["other:" + w for w, a, b in zip(("comments", "source"), before_other_meta, meta(other)) if a != b]
                    rec["shares"] += shared_cols(other, y, "other:")
                try:
                    rec["leaks"] = later_edits(y, [("input", cur)] + ([("other input", other)] if other is not None and other is not cur else []), edit_kind, k, text)
                except CaseTimeout:
                    raise
                except Exception as e:  # noqa: BLE001 - a tree that cannot be edited / read back: reported, never a crash
                    rec["leaks"] = [{"edited": "?", "edits": [], "seen_in": "?", "changed": [f"<{type(e).__name__}: {str(e)[:200]}>"]}]
                rec["extra_in"], rec["extra_out"] = cols_of(cur)[len(COLS):], cols_of(y)[len(COLS):]
                rec["finite"] = bool(np.all(np.isfinite(y.xyz())) and np.all(np.isfinite(y.r())))
                rec["nosort_root"] = nosort_root
                steps.append(rec)
                if "keep" in flags:           # the result has been recorded; the same input object goes into the next step
                    if y.number_of_nodes() > 0 and not (nosort_root is not None and nosort_root != 0):
                        pool.append(y)
                    continue
                if nosort_root is not None and nosort_root != 0:
                    y = L.sort_tree(y)          # continue the pipeline from a tree whose root is node 0 again
                    steps.append({"op": "sort-after-nosort", "flags": [], "arg": None, "n_in": n, "n_out": int(y.number_of_nodes()), "id": y.id().tolist(),
                                  "pid": y.pid().tolist(), "wide_in": [], "input_changed": [], "shares": [], "finite": True, "nosort_root": None})
                if y.number_of_nodes() == 0:
                    break
                cur = y
                pool.append(y)
        return {"steps": steps}

    def oracle(self, case, res):
        try:
            return self._oracle(case, res)
        except Exception as e:  # noqa: BLE001 - a result the oracle cannot even read is not a well-formed tree
            return [("malformed-result", f"{type(e).__name__}: {e} while judging the result of {case.get('ops') if isinstance(case, dict) else case}: {str(res)[:300]}")]

    def _oracle(self, case, res):
        if not isinstance(res, dict) or not isinstance(res.get("steps", []), list):
            return [("malformed-result", f"not a step record: {str(res)[:300]}")]
        if "exc" in res:
            return [("pipeline-raises", f"{res['exc']}: {res.get('msg')} at {res.get('at', '?')} on a tree of {res.get('n_in', '?')} nodes (ops={case['ops']}, "
                                        f"pids={case['tree']['pids']}); tb={res.get('tb', '')[-300:]}")]
        out = []
        for k, st in enumerate(res["steps"]):
            what = f"result {k}, of {'|'.join([st['op']] + st.get('flags', []))}({st['arg']}), in {case['ops']} on pids={case['tree']['pids']}"
            if "other_pids" in st:
                what += f" (other tree: pids={st['other_pids']})"
            if case.get("columns"):
                what += f" (start tree: {case.get('origin')} with the further columns {[(c['name'], c['dtype']) for c in case['columns']]}; this step's input carries {st.get('extra_in')})"
            if st.get("reused"):
                what += f" (carried out by the transform object that served {st['reused']} earlier step(s) of this pipeline)"
            ids, pids = st["id"], st["pid"]
            if st["n_out"] == 0:
                continue
            if st["nosort_root"] is not None and st["nosort_root"] != 0:
                r = st["nosort_root"]
                if ids != list(range(len(ids))) or [i for i, p in enumerate(pids) if p == -1] != [r]:
                    out.append((f"nosort-root-position/{st['op']}", f"{what}: with sort=False the new root must stay at position {r}; roots at {[i for i, p in enumerate(pids) if p == -1]}"))
                else:
                    # every node reaches the root
                    for i in range(len(ids)):
                        j, s = i, 0
                        while j != r and s <= len(ids):
                            j = pids[j]; s += 1
                            if j < 0:
                                break
                        if j != r:
                            out.append((f"not-wellformed/{st['op']}", f"{what}: node {i} does not reach the new root")); break
            else:
                w = gen.well_formed(ids, pids)
                if w is not None:
                    out.append((f"not-wellformed/{st['op']}", f"{what}: {w} (ids={ids[:10]}, pids={pids[:10]})"))
                elif st["op"] in SORTED_OUT and any(not (p < i) for i, p in enumerate(pids)):
                    out.append((f"not-sorted/{st['op']}", f"{what}: documented sorted output has a parent after its child: {pids[:12]}"))
            if st["input_changed"]:
                out.append((f"input-modified/{st['op']}", f"{what}: the input's columns {st['input_changed']} changed"))
            if st["shares"]:
                out.append((f"shares-storage/{st['op']}", f"{what}: result shares memory with the input: {st['shares'][:4]}"))
            for lk in st.get("leaks") or []:
                out.append((f"edit-leaks/{st['op']}", f"{what}: a later in-place edit of the {lk.get('edited')} ({', '.join(map(str, lk.get('edits', [])))}) changed the {lk.get('seen_in')}'s {lk.get('changed')}"
                                                      + (f" (its comments: {lk.get('comments_before')} -> {lk.get('comments_after')})" if "comments" in (lk.get("changed") or []) else "")
                                                      + f"; start tree: {case.get('origin', 'arrays')}, comments={case.get('comments')}"))
                break
            if out:
                break
        return out[:3]

    def nontrivial(self, case, res):
        return case["tree"]["n"] >= 3 and len(res.get("steps", [])) >= 2

    def klass(self, case, res):
        steps = res.get("steps", []) if isinstance(res, dict) else []
        wide = "/f64in" if any(any(c.split(":")[-1] in "xyzr" for c in st.get("wide_in", [])) for st in steps) else ""
        if case.get("family") == "reuse":
            return f"reuse/{case.get('pattern', '?')}{wide}"
        if case.get("family") == "roundtrip-options":
            return f"roundtrip-options/{case.get('opt')}"
        if case.get("family") == "columns":
            kept = [len(st["extra_out"]) for st in steps if "extra_out" in st]
            return f"columns/{case.get('origin')}/len{min(len(case['ops']), 4)}/{'carried' if any(kept) else 'dropped' if kept else 'no-step'}"
        if case.get("family") == "edits":
            return f"edits/{case.get('origin')}/{case.get('edit')}/len{min(len(case['ops']), 4)}"
        return f"{case.get('family', 'random')}/len{min(len(case['ops']) // 3 * 3, 12)}{wide}"


# ---- the copying spellings of the table normalizer (`swc_utils.mark_roots_as_somas` / `link_roots_to_nearest` / `reset_index` / `sort_nodes`) ------
BYSTANDER = "7,8 / -1,7 / 1,2 / 4,4"      # object 0 of the heap the driver op `gcopying` starts from (Model/AlgoRunCtor.lean)
FCOLS = ["id", "type", "x", "y", "z", "r", "pid"]


def _frame_cols(df):
    return {"ids": [int(v) for v in df["id"]], "pids": [int(v) for v in df["pid"]], "types": [int(v) for v in df["type"]],
            "rs": [int(round(4 * float(v))) for v in df["r"]], "x": [int(v) for v in df["x"]], "y": [int(v) for v in df["y"]],
            "z": [int(v) for v in df["z"]]}


class CopyingFrames(Suite):
    """a copying spelling returns a new table; the table handed in is as it was, shares no storage with the result, and edits of the result
    afterwards do not reach it"""
    name = "c03.copying"
    case_timeout = 20

    def cases(self, rng, tier, widen):
        out = []
        for _ in range(120 if (tier == "thorough" or widen) else 40):
            n = rng.randint(1, 9)
            nroots = rng.randint(1, min(3, n))
            base = rng.choice([0, 0, 1, 5])
            pids = []
            roots = sorted(rng.sample(range(n), nroots))
            if rng.random() < 0.7:
                roots[0] = 0
                roots = sorted(set(roots))
            for i in range(n):
                pids.append(-1 if i in roots else None)
            # a forest: every non-root hangs below an earlier-decided node of a random order (no cycles)
            order = roots + [i for i in rng.sample(range(n), n) if i not in roots]
            for k, i in enumerate(order):
                if pids[i] is None:
                    pids[i] = order[rng.randrange(k)] + base
            pts = rng.sample([(x, y, z) for x in range(-6, 7) for y in range(-3, 4) for z in range(-1, 2)], n)
            out.append({"class": f"roots{len(roots)}/base{base}", "ids": [i + base for i in range(n)], "pids": pids,
                        "types": [rng.randint(0, 7) for _ in range(n)], "xyz": [list(p) for p in pts],
                        "r": [rng.randint(1, 16) / 4 for _ in range(n)]})
        return out

    def run(self, case):
        import pandas as pd
        from swcgeom.core.swc_utils import link_roots_to_nearest, mark_roots_as_somas, reset_index, sort_nodes

        def frame():
            x, y, z = zip(*case["xyz"])
            return pd.DataFrame({"id": np.array(case["ids"], dtype=np.int32), "type": np.array(case["types"], dtype=np.int32),
                                 "x": np.array(x, dtype=np.float32), "y": np.array(y, dtype=np.float32), "z": np.array(z, dtype=np.float32),
                                 "r": np.array(case["r"], dtype=np.float32), "pid": np.array(case["pids"], dtype=np.int32)})

        rows = []
        with warnings.catch_warnings():
            warnings.simplefilter("ignore")
            for op, fn in (("somas", mark_roots_as_somas), ("somas/ut=5", lambda d: mark_roots_as_somas(d, 5)),
                           ("somas/ut=F", lambda d: mark_roots_as_somas(d, update_type=False)), ("nearest", link_roots_to_nearest),
                           ("reset", reset_index), ("sort", sort_nodes)):
                src = frame()
                before = _frame_cols(src)
                leak, after = False, None
                try:
                    r = fn(src)
                    got = _frame_cols(r)
                    shares = (r is src) or any(np.shares_memory(r[c].to_numpy(), src[c].to_numpy()) for c in r.columns)
                    after = _frame_cols(src)
                    for c in r.columns:          # later edits of the result, in place where the array allows it
                        try:
                            r[c].to_numpy()[...] = 99
                        except ValueError:       # a read-only view (copy-on-write pandas)
                            pass
                        r[c] = r[c] * 0 + 98
                        r.loc[:, c] = 97
                    leak = _frame_cols(src) != before
                except Exception as e:  # noqa: BLE001
                    got, shares = {"exc": type(e).__name__}, False
                rows.append([op, before, got, after or _frame_cols(src), bool(shares), bool(leak)])
        return {"rows": rows}

    def lines(self, case, res):
        fr = lambda c: " / ".join(gen.ints(c[k]) for k in ("ids", "pids", "types", "rs"))
        out = []
        for op, before, got, after, _, _ in res.get("rows", []):
            o, _, ut = op.partition("/ut=")
            line = (f"gcopying op={o} ids={gen.ints(before['ids'])} pids={gen.ints(before['pids'])} types={gen.ints(before['types'])} rs={gen.ints(before['rs'])}"
                    + ("" if ut == "F" else f" ut={ut or 1}" if o == "somas" else "")
                    + (f" x={gen.ints(before['x'])} y={gen.ints(before['y'])} z={gen.ints(before['z'])}" if o == "nearest" else ""))
            # the definition generated from the copying spelling on this run, on the heap [bystander, input]:
            # result frame | input frame after the call | bystander after the call | input ref, result ref, heap size
            out.append((line, "E" if "exc" in got else f"{fr(got)} | {fr(after)} | {BYSTANDER} | 1 2 3"))
        return out

    def oracle(self, case, res):
        out = []
        for op, before, got, after, shares, leak in res.get("rows", []):
            if after != before:
                out.append((f"copying-mutates/{op}", f"{op}: the table handed in changed: {before} → {after}"))
            if shares:
                out.append((f"copying-shares/{op}", f"{op}: the result shares storage with the table handed in"))
            if leak:
                out.append((f"copying-leaks/{op}", f"{op}: an edit of the result reached the table handed in"))
        return out[:3]

    def nontrivial(self, case, res):
        return len(case["ids"]) >= 2


# ---- the constructor: which columns of a new tree are fresh storage and which ARE the arrays handed in ------------------------------------------
DT = ["int32", "float32", "int64", "float64"]         # the dtype tags of Model/PyCtor.lean
STD = {"id": 0, "type": 0, "x": 1, "y": 1, "z": 1, "r": 1, "pid": 0}     # column -> tag of the dtype Tree.__init__ asks for


class Ctor(Suite):
    """Tree(n, **columns): values, dtypes, order of the columns, and which result column shares storage with which array handed in"""
    name = "c03.ctor"
    case_timeout = 20

    def cases(self, rng, tier, widen):
        out = []
        for _ in range(150 if (tier == "thorough" or widen) else 50):
            n = rng.choice([0, 1, 2, 3, 3, 4, 5, 6])
            keys = [k for k in list(STD) + ["foo", "bar"] if rng.random() < 0.55]
            rng.shuffle(keys)
            cols = []
            for k in keys:
                ln = max(0, n + rng.choice([-2, -1, 0, 0, 0, 1, 2]))
                tag = STD.get(k, 3) if rng.random() < 0.6 else rng.randrange(4)
                cols.append([k, tag, [rng.randint(-1, 9) for _ in range(ln)]])
            out.append({"class": f"n{min(n, 3)}/given{min(len(keys), 4)}", "n": n, "cols": cols})
        return out

    def run(self, case):
        from swcgeom.core import Tree

        ins = {k: np.array(vals, dtype=DT[tag]) for k, tag, vals in case["cols"]}
        keep = {k: a.copy() for k, a in ins.items()}
        try:
            t = Tree(case["n"], **ins)
        except Exception as e:  # noqa: BLE001
            return {"ctor_exc": type(e).__name__, "msg": str(e)[:160]}
        names = list(ins)
        res = {"ndata": [], "inputs_same": all(np.array_equal(ins[k], keep[k]) and ins[k].dtype == keep[k].dtype for k in ins)}
        for k, a in t.ndata.items():
            sh = [j for j, kk in enumerate(names) if np.shares_memory(a, ins[kk])]
            res["ndata"].append([k, DT.index(str(a.dtype)) if str(a.dtype) in DT else -1, sh, [int(x) for x in a.tolist()],
                                 bool(all(float(x) == int(x) for x in a.tolist()))])
        return res

    def lines(self, case, res):
        a = f"gtreeinit n={case['n']} keys={','.join(c[0] for c in case['cols'])}" + "".join(
            f" {k}={gen.ints(v)} {k}_t={tag}" for k, tag, v in case["cols"])
        if "ctor_exc" in res:
            return [(a, "E")]
        # the definition generated from Tree.__init__ / padding1d on this run: key:dtype:the input it shares storage with (n = new, - = empty column):values
        return [(a, " ; ".join(f"{k}:{dt}:{'-' if not vals else sh[0] if len(sh) == 1 else 'n' if not sh else 'many'}:{gen.ints(vals)}" for k, dt, sh, vals, _ in res["ndata"]))]

    def oracle(self, case, res):
        if "ctor_exc" in res:
            return [("ctor-raises", f"Tree({case['n']}, …) raised {res['ctor_exc']}: {res['msg']}")]
        out = []
        if not res["inputs_same"]:
            out.append(("ctor-writes-input", "the constructor changed an array it was given"))
        n, given = case["n"], {k: (j, tag, vals) for j, (k, tag, vals) in enumerate(case["cols"])}
        want_keys = list(STD) + [k for k in given if k not in STD]
        if [r[0] for r in res["ndata"]] != want_keys:
            out.append(("ctor-keys", f"columns {[r[0] for r in res['ndata']]}, expected {want_keys}"))
        for k, dt, sh, vals, integral in res["ndata"]:
            if k in STD:
                if k in given:
                    j, tag, g = given[k]
                    want = (g + [1 if k == "r" else 0] * (n - len(g)))[:n]
                    alias = [j] if (tag == STD[k] and len(g) >= n and n > 0 and len(g) > 0) else []
                else:
                    want = list(range(n)) if k == "id" else list(range(-1, n - 1)) if k == "pid" else [0] * n
                    alias = []
                if dt != STD[k] or vals != want or sorted(sh) != alias:
                    out.append((f"ctor-column/{k}", f"n={n}, given {given.get(k)}: column {k} = dtype {dt}, {vals}, shares {sh}; expected dtype {STD[k]}, {want}, shares {alias}"))
            elif k in given:
                j, tag, g = given[k]
                if dt != tag or vals != g or (sorted(sh) != [j] and len(g) > 0):
                    out.append((f"ctor-extra/{k}", f"extra column {k} is not the array handed in"))
        return out[:3]

    def nontrivial(self, case, res):
        return case["n"] >= 1 and len(case["cols"]) >= 1


class FromDataFrame(Suite):
    """Tree.from_data_frame(df): columns, dtypes, values, and which column of the tree shares storage with which column array of the frame"""
    name = "c03.fromdf"
    case_timeout = 20

    def cases(self, rng, tier, widen):
        out = []
        for _ in range(100 if (tier == "thorough" or widen) else 30):
            n = rng.choice([1, 2, 3, 4, 6])
            keys = list(STD) + [k for k in ("foo", "bar") if rng.random() < 0.4]
            if rng.random() < 0.15:
                keys.remove(rng.choice(list(STD)))          # a frame without one of the standard columns: KeyError
            rng.shuffle(keys)
            cols = []
            for k in keys:
                tag = STD.get(k, 3) if rng.random() < 0.7 else rng.randrange(4)
                cols.append([k, tag, [rng.randint(-1, 9) for _ in range(n)]])
            out.append({"class": f"n{min(n, 3)}/cols{len(keys)}", "n": n, "cols": cols})
        return out

    def run(self, case):
        import pandas as pd
        from swcgeom.core import Tree

        df = pd.DataFrame({k: np.array(vals, dtype=DT[tag]) for k, tag, vals in case["cols"]})
        ins = {k: df[k].to_numpy() for k in df.columns}
        keep = df.copy()
        try:
            t = Tree.from_data_frame(df)
        except Exception as e:  # noqa: BLE001
            return {"ctor_exc": type(e).__name__, "msg": str(e)[:160]}
        names = list(ins)
        res = {"ndata": [], "inputs_same": bool(df.equals(keep))}
        for k, a in t.ndata.items():
            sh = [j for j, kk in enumerate(names) if np.shares_memory(a, ins[kk])]
            res["ndata"].append([k, DT.index(str(a.dtype)) if str(a.dtype) in DT else -1, sh, [int(x) for x in a.tolist()]])
        return res

    def lines(self, case, res):
        a = f"gfromdf n={case['n']} keys={','.join(c[0] for c in case['cols'])}" + "".join(
            f" {k}={gen.ints(v)} {k}_t={tag}" for k, tag, v in case["cols"])
        if "ctor_exc" in res:
            return [(a, "E")]
        # the definition generated from Tree.from_data_frame (on the generated Tree.__init__ / padding1d) on this run
        return [(a, " ; ".join(f"{k}:{dt}:{'-' if not vals else sh[0] if len(sh) == 1 else 'n' if not sh else 'many'}:{gen.ints(vals)}" for k, dt, sh, vals in res["ndata"]))]

    def oracle(self, case, res):
        missing = [k for k in STD if k not in [c[0] for c in case["cols"]]]
        if "ctor_exc" in res:
            return [] if missing else [("fromdf-raises", f"from_data_frame raised {res['ctor_exc']}: {res['msg']}")]
        out = []
        if missing:
            out.append(("fromdf-missing-column", f"a frame without {missing} was accepted"))
        if not res["inputs_same"]:
            out.append(("fromdf-writes-input", "from_data_frame changed the frame it was given"))
        given = {k: (j, tag, vals) for j, (k, tag, vals) in enumerate(case["cols"])}
        for k, dt, sh, vals in res["ndata"]:
            if k not in given:
                continue
            j, tag, g = given[k]
            want_dt = STD.get(k, tag)
            alias = [j] if tag == want_dt else []
            if dt != want_dt or vals != g or sorted(sh) != alias:
                out.append((f"fromdf-column/{k}", f"column {k}: dtype {dt}, {vals}, shares {sh}; expected dtype {want_dt}, {g}, shares {alias}"))
        return out[:3]

    def nontrivial(self, case, res):
        return "ctor_exc" not in res


SUITES = [Pipeline(), CopyingFrames(), Ctor(), FromDataFrame()]
TECHNIQUE = ("Lean 4 theorem by induction over operation lists: each topology-level operation model (sort, subtree, prune, re-root, geometric, round trip, and — C03Cat — cat_tree with an arbitrary second tree in both translate modes) maps a "
             "well-formed parent list to a well-formed one (sorted where documented), built from the theorems of C05/C06/C07 and the representation lemma; heap-level "
             "freshness from C09 + pipelines of the real operations with well-formedness, input hashes and np.shares_memory checked after every step: random "
             "pipelines plus every operation applied to the result of every operation (column dtypes / anything remembered on the tree object carry over), "
             "with read-only queries between steps, inputs handed to a second operation, cat_tree operands that were queried / used / derived / the tree itself, "
             "and pipelines in which one transform object serves several steps (its own result, the same input twice, another tree, as a member of Transforms); "
             "after every step the result and the input(s) are edited in place, one side at a time (every column written into and rebound, the header comments "
             "appended / inserted / assigned / deleted / cleared), the other side is read back (comments, source, every column, to_swc text) and the edit undone, "
             "for start trees built from arrays without / with comments and read from SWC text")
LEVEL_TEXT = ("Kernel-checked: for every well-formed parent list and every list of the modelled operations (sort, re-root with/without sort, get_subtree, to_subtree, "
              "coordinate/radius transforms, SWC round trip), every intermediate result is well-formed — ids are positions, one root, parents valid, every node reaches the "
              "root — and sorted where the operation documents it; re-rooting without sort keeps the new root in place. Copies allocate fresh arrays (C09), so inputs are "
              "never modified. Partial: cat_tree, the cut transforms, smoothing and resampling enter through their own properties' theorems and the pipeline suite.")
LEVEL_NOTE = "Trusted: Lean kernel; the per-operation models (each tied by its own correspondence); numpy aliasing rules observed with np.shares_memory, not modelled beyond C09."
