"""C03 — every tree operation returns a well-formed tree and leaves its inputs untouched."""
import io
import warnings

import numpy as np

from harness import gen
from harness.framework import Suite

PID = "C03"
LEAN_MODS = ["SwcVerif.Props.C03"]
THEOREMS = [
    "C03.wf_of_sorted", "C03.sort_wf", "C03.subtree_wf", "C03.prune_wf", "C03.redirect_wf", "C03.redirect_nosort_root_position",
    "C03.op_wf", "C03.pipeline_wf", "C03.inputs_untouched", "Represent.wf_represented", "Represent.represented_wf", "Represent.wf_subtree_represented",
]
TRUSTED = ["the per-operation models of C05 (sort), C06 (subtree / prune / cut), C07 (re-root, concatenate), C09 (heap: copies allocate), C12 (transforms touch only x, y, z), "
           "each tied to the code by its own correspondence suite; this property's suite checks the composition on the real library"]
ASSUMPTIONS = ["numpy aliasing rules (fancy index / arithmetic / np.concatenate allocate, basic slices are views) — observed with np.shares_memory on every "
               "(input column, output column) pair after every step", "resampling and smoothing enter the pipeline theorem only through their topology (C16 / C08 models)"]

COLS = ["id", "type", "x", "y", "z", "r", "pid"]


def snapshot(t):
    return {k: t.get_ndata(k).copy() for k in COLS}


PRUNERS = ["tosub", "tosub", "cutleave", "cuttip", "cuttype", "cutorder"]


def make_ops(rng, length):
    ops = []
    if rng.random() < 0.5:      # prune the freshly built (arbitrarily numbered) tree first: numbering-sensitive code sees an unsorted table
        ops.append(rng.choice(PRUNERS))
    for _ in range(length):
        ops.append(rng.choice(["sort", "subtree", "tosub", "cutenter", "cutleave", "redirect", "redirect-nosort", "cat", "cuttype", "cutorder", "cuttip",
                               "translate", "scale", "rotate", "rotx", "origin", "normalize", "radius", "smooth", "resample", "roundtrip", "compose", "copy"]))
    return ops


class Pipeline(Suite):
    name = "c03.pipeline"
    case_timeout = 120

    def cases(self, rng, tier, widen):
        out = []
        big = tier == "thorough" or widen
        k = 0
        for n in [1, 2, 3, 5, 8, 13, 21] + ([60] if big else []):
            for _ in range(9 if not big else 24):
                shape = gen.pick_shape(rng, k); k += 1
                t = gen.tree_case(rng, n, shape, numbering=rng.choice(["sorted", "root0", "root0", "root0"]), coords="dyadic", types="mixed")
                t["xyz"] = [[c / 16.0 for c in p] for p in t["xyz"]]
                out.append({"class": shape, "tree": t, "ops": make_ops(rng, rng.randint(2, 8 if not big else 30)), "seed": rng.randrange(10**6)})
        return out

    def run(self, case):
        import random as _r
        from swcgeom.core import Tree
        from swcgeom.core.tree_utils import cat_tree, cut_tree, get_subtree, redirect_tree, sort_tree, to_subtree
        from swcgeom.transforms import (CutByFurcationOrder, CutByType, CutShortTipBranch, IsometricResampler, Normalizer, RadiusReseter, Rotate, RotateX,
                                        Scale, Transforms, Translate, TranslateOrigin, TreeSmoother)

        rng = _r.Random(case["seed"])
        cur = gen.make_tree(case["tree"])
        steps = []
        with warnings.catch_warnings():
            warnings.simplefilter("ignore")
            for op in case["ops"]:
                n = cur.number_of_nodes()
                before = snapshot(cur)
                other = None
                arg = None
                nosort_root = None
                if op == "sort":
                    y = sort_tree(cur)
                elif op == "subtree":
                    arg = rng.randrange(n); y = get_subtree(cur, arg)
                elif op == "tosub":
                    inner = sorted({int(p) for p in cur.pid() if p > 0})        # prefer nodes that have something below them
                    pool = inner if inner and rng.random() < 0.7 else list(range(1, n))
                    arg = rng.sample(pool, min(len(pool), rng.randint(0, 3))) if n > 1 else []
                    y = to_subtree(cur, arg)
                elif op == "cutenter":
                    d = rng.randint(1, 4); arg = d
                    y = cut_tree(cur, enter=lambda nd, pv: ((0 if pv is None else pv + 1), (0 if pv is None else pv + 1) >= d))
                elif op == "cutleave":
                    hcut = rng.choice([0, 1, 2])
                    y = cut_tree(cur, leave=lambda nd, ks: (max([x + 1 for x in ks], default=0), (max([x + 1 for x in ks], default=0) == hcut and nd.id != 0 and nd.id % 2 == 0)))
                elif op in ("redirect", "redirect-nosort"):
                    arg = rng.randrange(n); y = redirect_tree(cur, arg, sort=(op == "redirect"))
                    if op == "redirect-nosort":
                        nosort_root = arg
                elif op == "cat":
                    t2 = gen.tree_case(rng, rng.choice([1, 2, 4]), gen.pick_shape(rng, rng.randrange(9)), numbering="root0", coords="dyadic")
                    other = gen.make_tree(t2)
                    arg = (rng.randrange(n), rng.randrange(other.number_of_nodes()), rng.random() < 0.6)
                    before_other = snapshot(other)
                    y = cat_tree(cur, other, arg[0], arg[1], translate=arg[2])
                elif op == "cuttype":
                    arg = int(rng.choice(sorted(set(int(v) for v in cur.type())))); y = CutByType(arg)(cur)
                elif op == "cutorder":
                    arg = rng.randint(1, 3); y = CutByFurcationOrder(arg)(cur)
                elif op == "cuttip":
                    arg = rng.choice([0.5, 2.0, 10.0]); y = CutShortTipBranch(thre=arg)(cur)
                elif op == "translate":
                    y = Translate(rng.randint(-9, 9), rng.randint(-9, 9), 1.5)(cur)
                elif op == "scale":
                    y = Scale(2.0, 0.5, 3.0, center=rng.choice(["root", "origin"]))(cur)
                elif op == "rotate":
                    y = Rotate(np.array([0.6, 0.0, 0.8]), rng.uniform(-3, 3), center=rng.choice(["root", "origin"]))(cur)
                elif op == "rotx":
                    y = RotateX(rng.uniform(-3, 3))(cur)
                elif op == "origin":
                    y = TranslateOrigin()(cur)
                elif op == "normalize":
                    # Normalizer divides every column by its maximum: only meaningful when all four maxima are positive
                    if n < 2 or any(float(np.max(cur.get_ndata(c))) <= 0 for c in ("x", "y", "z", "r")):
                        continue
                    y = Normalizer()(cur)
                elif op == "radius":
                    y = RadiusReseter(0.75)(cur)
                elif op == "smooth":
                    y = TreeSmoother(rng.choice([3, 5]))(cur)
                elif op == "resample":
                    # the resampler starts from `tree.soma()` (type-checked) and needs distinct, finite node positions
                    if n < 2 or len(set(map(tuple, cur.xyz().tolist()))) < n or int(cur.type()[0]) != 1 or not np.all(np.isfinite(cur.xyz())):
                        continue
                    y = IsometricResampler(rng.choice([0.5, 2.0, 7.0]))(cur)
                elif op == "roundtrip":
                    y = Tree.from_swc(io.StringIO(cur.to_swc()))
                elif op == "compose":
                    y = Transforms(Translate(1, 2, 3), RadiusReseter(1.25), TranslateOrigin())(cur)
                else:
                    y = cur.copy()
                if not isinstance(y, Tree) and hasattr(y, "ndata"):
                    pass
                rec = {"op": op, "arg": arg if not isinstance(arg, tuple) else list(arg), "n_in": n, "n_out": int(y.number_of_nodes()),
                       "id": y.id().tolist(), "pid": y.pid().tolist()}
                rec["input_changed"] = [k for k in COLS if not np.array_equal(before[k], cur.get_ndata(k))]
                rec["shares"] = [(a, b) for a in COLS for b in COLS if np.shares_memory(cur.get_ndata(a), y.get_ndata(b))]
                if other is not None:
                    rec["input_changed"] += ["other:" + k for k in COLS if not np.array_equal(before_other[k], other.get_ndata(k))]
                    rec["shares"] += [("other:" + a, b) for a in COLS for b in COLS if np.shares_memory(other.get_ndata(a), y.get_ndata(b))]
                rec["finite"] = bool(np.all(np.isfinite(y.xyz())) and np.all(np.isfinite(y.r())))
                rec["nosort_root"] = nosort_root
                steps.append(rec)
                if nosort_root is not None and nosort_root != 0:
                    y = sort_tree(y)          # continue the pipeline from a tree whose root is node 0 again
                    steps.append({"op": "sort-after-nosort", "arg": None, "n_in": n, "n_out": int(y.number_of_nodes()), "id": y.id().tolist(), "pid": y.pid().tolist(),
                                  "input_changed": [], "shares": [], "finite": True, "nosort_root": None})
                if y.number_of_nodes() == 0:
                    break
                cur = y
        return {"steps": steps}

    def oracle(self, case, res):
        if "exc" in res:
            return [("pipeline-raises", f"{res['exc']}: {res.get('msg')} (ops={case['ops']}, pids={case['tree']['pids']}); tb={res.get('tb', '')[-300:]}")]
        out = []
        for k, st in enumerate(res["steps"]):
            what = f"step {k} {st['op']}({st['arg']}) of {case['ops']} on pids={case['tree']['pids']}"
            ids, pids = st["id"], st["pid"]
            if st["n_out"] == 0:
                continue
            if st["nosort_root"] is not None and st["nosort_root"] != 0:
                r = st["nosort_root"]
                if ids != list(range(len(ids))) or [i for i, p in enumerate(pids) if p == -1] != [r]:
                    out.append((f"nosort-root-position/{st['op']}", f"{what}: with sort=False the new root must stay at position {r}; roots at {[i for i, p in enumerate(pids) if p == -1]}"))
                else:
                    # every node reaches the root
                    for i in range(len(ids)):
                        j, s = i, 0
                        while j != r and s <= len(ids):
                            j = pids[j]; s += 1
                            if j < 0:
                                break
                        if j != r:
                            out.append((f"not-wellformed/{st['op']}", f"{what}: node {i} does not reach the new root")); break
            else:
                w = gen.well_formed(ids, pids)
                if w is not None:
                    out.append((f"not-wellformed/{st['op']}", f"{what}: {w} (ids={ids[:10]}, pids={pids[:10]})"))
                elif st["op"] in ("sort", "redirect", "cat", "sort-after-nosort") and any(not (p < i) for i, p in enumerate(pids)):
                    out.append((f"not-sorted/{st['op']}", f"{what}: documented sorted output has a parent after its child: {pids[:12]}"))
            if st["input_changed"]:
                out.append((f"input-modified/{st['op']}", f"{what}: the input's columns {st['input_changed']} changed"))
            if st["shares"]:
                out.append((f"shares-storage/{st['op']}", f"{what}: result shares memory with the input: {st['shares'][:4]}"))
            if out:
                break
        return out[:3]

    def nontrivial(self, case, res):
        return case["tree"]["n"] >= 3 and len(case["ops"]) >= 3

    def klass(self, case, res):
        return f"len{min(len(case['ops']) // 3 * 3, 12)}"


SUITES = [Pipeline()]
TECHNIQUE = ("Lean 4 theorem by induction over operation lists: each topology-level operation model (sort, subtree, prune, re-root, geometric, round trip) maps a "
             "well-formed parent list to a well-formed one (sorted where documented), built from the theorems of C05/C06/C07 and the representation lemma; heap-level "
             "freshness from C09 + pipelines of the real operations with well-formedness, input hashes and np.shares_memory checked after every step")
LEVEL_TEXT = ("Kernel-checked: for every well-formed parent list and every list of the modelled operations (sort, re-root with/without sort, get_subtree, to_subtree, "
              "coordinate/radius transforms, SWC round trip), every intermediate result is well-formed — ids are positions, one root, parents valid, every node reaches the "
              "root — and sorted where the operation documents it; re-rooting without sort keeps the new root in place. Copies allocate fresh arrays (C09), so inputs are "
              "never modified. Partial: cat_tree, the cut transforms, smoothing and resampling enter through their own properties' theorems and the pipeline suite.")
LEVEL_NOTE = "Trusted: Lean kernel; the per-operation models (each tied by its own correspondence); numpy aliasing rules observed with np.shares_memory, not modelled beyond C09."
