"""C11 — morphometrics do not depend on pose or node numbering."""
import math
import os
import warnings

import numpy as np

from harness import gen
from harness.framework import Suite

PID = "C11"
TRANSLATE = True
# T33 `invar`: the C11.generated_* theorems (Props/C11Gen.lean) are about the measures the imperative translator regenerates from the source
# (L-Measure geometry, Tree.length / Path.* / radial distance, Sholl.intersect, the topological counts) - regenerated on every `./check C11`
TRANSLATE_ALGO = ["AlgoTraverse", "AlgoNode", "AlgoBranches", "AlgoSubtree", "AlgoLMeasure", "AlgoSholl", "AlgoNodeFeat", "AlgoNodeBranch", "AlgoLmGeo"]
LEAN_MODS = ["SwcVerif.Props.C11", "SwcVerif.Proofs.Invariance", "SwcVerif.Props.C11Gen"]
THEOREMS = [
    "C11.rigid_preserves_distances", "C11.scale_distances", "C11.lengths_scale", "C11.ratio_scale", "C11.sholl_scale", "C11.counts_geometry_free",
    "C11.features_factor", "C11.length_relabel", "C11.volume_scale", "C11.concentric_scale'", "C11.concentric_scale_eps0", "C11.concentric_scale_counterexample",
    "C11.exitT_scale", "C11.edgeDot_from_distances", "C11.angle_invariant_of_isometry", "C11.rigid_preserves_angles", "C11.angle_data_scale",
    "C11.generated_lmgeo_under_map", "C11.generated_bif_angles_under_map", "C11.generated_nodefeat_under_map", "C11.generated_sholl_under_map",
    "C11.generated_rigid_invariance", "C11.generated_scale", "C11.generated_branch_angle_scale", "C11.generated_rigid_source_matrices", "C11.generated_counts_coordinate_free",
    "C11.generated_counts_renumbered", "C11.generated_n_stems_renumbered", "C11.generated_tree_length_renumbered", "C11.moved_mapCols", "Invar.rigid_rowRel", "Invar.scale_rowRel", "Invar.Homog.scale", "Invar.path_length_general",
]
TRUSTED = ["the feature models of C10 (functions of parent relation + distances only), C12's generated matrices (isometry), C13's generated volume forms (homogeneous of degree 3)"]
ASSUMPTIONS = ["floating-point rounding is outside the theorems (the property itself says 'beyond floating-point rounding'): metamorphic comparisons use relative tolerance 2e-4",
               "Sholl radii are chosen at least 1e-2 (relative) away from every node radius so that rounding cannot flip a count",
               "volume: the analytic accuracy level 3 (no Monte Carlo term) is compared up to rounding; the Monte-Carlo levels 5..9 (the default 'middle', 'high') are "
               "compared within 1.5 % on neurons with one furcation whose daughters overlap outside the node sphere by less than 25 % of the volume "
               "(the library's 10^6-sample estimate of each pairwise overlap has a sampling error of up to 2e-3 of the volume there; level 10 - 10^8 samples - is not run), "
               "under renumbering, translation and scaling only: under ROTATION the unchanged library's Monte-Carlo volume changes by 1-2 % (sdflit's FrustumCone "
               "bounding box cuts oblique frusta, depending on their direction) - a finding reported in round 7, not compared here",
               "volume under scaling: compared only while every non-zero radius step along an edge is >= 1e-5 length units before and after (the code's "
               "absolute 1e-6 'no taper' band of the sphere/frustum overlap, DESIGN §8, is not scale free: inside it the unchanged library is 0.3-0.5 % off s^3)",
               "angles between branches (extract_feature.get('branch_angle')) are compared under rotation, translation, renumbering and uniform scaling "
               "(3e-3 rad; 1e-4 rad under float32-exact translations)",
               "far translations and power-of-two scale factors are exact in float32; decimal unit changes (1e-9 .. 1e9) round every coordinate by 6e-8 relative, "
               "which stays below the tolerance because the shortest compartment is >= 1/512 of the neuron's extent"]


# Whole-tree calls of the "observed at" entry points that a measuring protocol may make on a Tree object before (or between) the
# morphometrics proper: name -> (category, call).  The category says what the property states about the value: "count" (unchanged, exact),
# "length" (×s), "ratio" (unchanged), "volume" (×s^3), "free" (a pose-DEPENDENT or resolution-dependent figure: called, never compared).
def _protocol_calls(t, sholl_rs):
    from swcgeom.analysis import Sholl, get_volume
    from swcgeom.analysis.feature_extractor import extract_feature
    from swcgeom.analysis.lmeasure import LMeasure

    lm = LMeasure()
    ef = lambda name, **kw: (lambda: sorted(float(v) for v in np.asarray(extract_feature(t).get(name, **kw)).ravel()))
    calls = {
        "lm.n_stems": ("count", lambda: int(lm.n_stems(t))), "lm.n_bifs": ("count", lambda: int(lm.n_bifs(t))),
        "lm.n_branch": ("count", lambda: int(lm.n_branch(t))), "lm.n_tips": ("count", lambda: int(lm.n_tips(t))),
        "lm.width": ("free", lambda: float(lm.width(t))), "lm.height": ("free", lambda: float(lm.height(t))),
        "lm.depth": ("free", lambda: float(lm.depth(t))), "lm.soma_surface": ("free", lambda: float(lm.soma_surface(t))),
        "sholl.steps7": ("free", lambda: [int(v) for v in Sholl(t).get(steps=7)]),
        "get_volume.low": ("volume", lambda: float(get_volume(t, accuracy="low"))),
        "ef.length": ("length", ef("length")), "ef.volume": ("volume", ef("volume", accuracy=3)),
        "ef.sholl": ("count", lambda: [int(v) for v in extract_feature(t).get("sholl", steps=list(sholl_rs))]),
        "ef.node_count": ("count", ef("node_count")), "ef.tip_count": ("count", ef("tip_count")),
        "ef.furcation_count": ("count", ef("furcation_count")),
        "ef.node_branch_order": ("count", ef("node_branch_order")),
        "ef.branch_length": ("length", ef("branch_length")), "ef.path_length": ("length", ef("path_length")),
        "ef.node_radial_distance": ("length", ef("node_radial_distance")), "ef.tip_radial_distance": ("length", ef("tip_radial_distance")),
        "ef.branch_tortuosity": ("ratio", ef("branch_tortuosity")), "ef.path_tortuosity": ("ratio", ef("path_tortuosity")),
    }
    return calls


PROTOCOL_POOL = ["lm.n_stems", "lm.n_bifs", "lm.n_branch", "lm.n_tips", "lm.width", "lm.height", "lm.depth", "lm.soma_surface", "sholl.steps7",
                 "get_volume.low", "ef.length", "ef.volume", "ef.sholl", "ef.node_count", "ef.tip_count", "ef.furcation_count",
                 "ef.node_branch_order", "ef.branch_length", "ef.path_length", "ef.node_radial_distance", "ef.tip_radial_distance",
                 "ef.branch_tortuosity", "ef.path_tortuosity"]


def features(t, sholl_rs, protocol=None, order_seed=None):
    """All morphometrics of the property, taken on the ONE Tree object `t`.  `protocol` = names of whole-tree calls made on the same object
    first (their values are returned under "pre"); `order_seed` shuffles the order in which the blocks of morphometrics are evaluated."""
    import random as _r

    from swcgeom.analysis import Sholl, get_volume
    from swcgeom.analysis.features import BranchFeatures, FurcationFeatures, NodeFeatures, PathFeatures, TipFeatures
    from swcgeom.analysis.lmeasure import LMeasure

    with warnings.catch_warnings():
        warnings.simplefilter("ignore")
        out = {}
        if protocol:
            calls = _protocol_calls(t, sholl_rs)
            out["pre"] = [[name, calls[name][0], calls[name][1]()] for name in protocol]
        lm = LMeasure()
        n = t.number_of_nodes()
        cnt = {}

        def b_length():
            out["length"] = float(t.length())

        def b_branch():
            bf = BranchFeatures(t)
            out["branch_length"] = sorted(float(v) for v in bf.get_length())
            out["branch_tortuosity"] = sorted(float(v) for v in bf.get_tortuosity())
            cnt["branch"] = float(bf.get_count())

        def b_path():
            pf = PathFeatures(t)
            out["path_length"] = sorted(float(v) for v in pf.get_length())
            out["path_tortuosity"] = sorted(float(v) for v in pf.get_tortuosity())
            cnt["path"] = float(pf.get_count())

        def b_node():
            nf = NodeFeatures(t)
            out["radial"] = sorted(float(v) for v in nf.get_radial_distance())
            cnt["node"] = float(nf.get_count()[0]); cnt["tip"] = float(TipFeatures(nf).get_count()[0]); cnt["furcation"] = float(FurcationFeatures(nf).get_count()[0])
            out["branch_order"] = sorted(int(v) for v in nf.get_branch_order()) if n > 1 else [0]

        def b_orders():
            out["lm_branch_order"] = sorted(int(lm.branch_order(t.node(i))) for i in range(n))
            out["terminal_degree"] = sorted(int(lm.terminal_degree(t.node(i))) for i in range(n))

        def b_volume():
            out["volume"] = float(get_volume(t, accuracy=3))

        def b_sholl():
            if n > 1:
                sh = Sholl(t)
                out["sholl"] = [int(v) for v in sh.get(steps=list(sholl_rs))]
                out["sholl_rmax"] = float(sh.rmax)      # the largest radial distance, as the Sholl analysis reports it

        def b_angles():
            angles, pas = [], []
            pid = t.pid()
            for v in range(n):
                if int(np.count_nonzero(pid == v)) == 2:
                    angles.append(float(lm.bif_ampl_local(t.node(v)))); angles.append(float(lm.bif_ampl_remote(t.node(v))))
                    pas.append(float(lm.partition_asymmetry(t.node(v))))
            out["angles"] = sorted(angles); out["partition_asymmetry"] = sorted(pas)

        def b_branch_angle():
            # the matrix of angles between the branches' end-to-end directions (radians), as extract_feature reports it; the order of
            # the branches follows the numbering, so the entries are compared as a multiset
            if n > 1:
                from swcgeom.analysis.feature_extractor import extract_feature
                A = np.asarray(extract_feature(t).get("branch_angle"), dtype=np.float64)
                out["branch_angle"] = sorted(float(v) for v in A.ravel())
                out["branch_angle_shape"] = [int(v) for v in A.shape]

        blocks = [b_node, b_path, b_branch, b_length, b_orders, b_volume, b_sholl, b_angles, b_branch_angle]
        if order_seed is not None:
            _r.Random(order_seed).shuffle(blocks)
        for b in blocks:
            b()
        out["counts"] = [cnt["node"], cnt["tip"], cnt["furcation"], cnt["branch"], cnt["path"]]
    return out


def relabel(rng, t):
    """random renumbering that keeps the root at 0; returns the same neuron as a new tree case"""
    n = t["n"]
    perm = list(range(1, n)); rng.shuffle(perm); perm = [0] + perm     # old -> new
    new = {"n": n, "pids": [0] * n, "types": [0] * n, "xyz": [None] * n, "r": [0.0] * n}
    for old in range(n):
        k = perm[old]
        new["pids"][k] = -1 if t["pids"][old] == -1 else perm[t["pids"][old]]
        new["types"][k] = t["types"][old]; new["xyz"][k] = list(t["xyz"][old]); new["r"][k] = t["r"][old]
    return new


# Unit changes: the property quantifies over ALL positive scale factors, and the scale factors met in practice are not 0.5 or 3 but
# conversions between units (nm / um / mm / m: powers of 1000) and voxel sizes (powers of two are exact in float32, so nothing but the
# exponent of any coordinate changes).  Nine decades either way keeps every squared length and every r^3 far inside the float32 range.
UNIT_SCALES = [1e-9, 2.0 ** 20, 1e-6, 1e3, 2.0 ** -30, 1e6, 1e-3, 2.0 ** -20, 1e9, 2.0 ** 30, 2.0 ** -10, 2.0 ** 10]
# Offsets of whole-brain / atlas coordinates (thousands to ~1e5 length units); every one is a multiple of 4096, so a neuron on the 1/64
# grid is moved exactly in float32 (checked again in `run`)
FAR_SHIFTS = [4096.0, 12288.0, 20480.0, 32768.0, 40960.0, 49152.0, 65536.0, 98304.0]


def _small(rng):
    """a short non-zero offset on the 1/64 grid: every component is 0 or between 1/64 and 1/4"""
    while True:
        d = [rng.choice([0, 0, 1, 2, 4, 8, 16]) * rng.choice([-1, 1]) / 64.0 for _ in range(3)]
        if any(d):
            return d


def spiny(rng, t):
    """The same kind of neuron with the short compartments real reconstructions have, on the 1/64 grid:
      * spine-like terminal twigs of two short compartments with a kink between them (a branch / path end that is short AND not straight),
        attached to inner nodes (so that the twig is a branch of its own and its origin becomes a furcation);
      * daughters of bifurcations whose FIRST compartment is short while the daughter then goes on in another direction.
    All positions stay pairwise distinct (no zero-length compartment)."""
    n = t["n"]
    new = {"n": n, "pids": list(t["pids"]), "types": list(t["types"]), "xyz": [[round(c * 64) / 64.0 for c in p] for p in t["xyz"]], "r": list(t["r"])}
    used = set()
    for i, p in enumerate(new["xyz"]):
        while tuple(p) in used:
            p[i % 3] += 1 / 64.0
        used.add(tuple(p))

    def kids(v):
        return [i for i in range(new["n"]) if new["pids"][i] == v]

    # short first compartment of a daughter that continues (has exactly one child) below a bifurcation
    for v in range(n):
        ch = kids(v)
        if len(ch) != 2:
            continue
        for c in ch:
            if len(kids(c)) == 1 and rng.random() < 0.7:
                d = _small(rng)
                q = [new["xyz"][v][k] + d[k] for k in range(3)]
                if tuple(q) not in used:
                    used.add(tuple(q)); new["xyz"][c] = q
                break
    # kinked terminal twigs; pass-through nodes first (they become bifurcations), never on a tip (that would only lengthen its branch)
    inner = [v for v in range(n) if kids(v)]
    inner.sort(key=lambda v: (len(kids(v)) != 1 or v == 0, rng.random()))
    for v in inner[: max(1, min(3, n // 4))]:
        for _try in range(20):
            d1, d2 = _small(rng), _small(rng)
            cr = [d1[1] * d2[2] - d1[2] * d2[1], d1[2] * d2[0] - d1[0] * d2[2], d1[0] * d2[1] - d1[1] * d2[0]]
            a = [new["xyz"][v][k] + d1[k] for k in range(3)]
            b = [a[k] + d2[k] for k in range(3)]
            if any(cr) and tuple(a) not in used and tuple(b) not in used:
                break
        else:
            continue
        used.add(tuple(a)); used.add(tuple(b))
        m = new["n"]
        new["pids"] += [v, m]; new["types"] += [3, 3]; new["xyz"] += [a, b]; new["r"] += [rng.choice([1 / 16, 1 / 8]), 1 / 16]
        new["n"] = m + 2
    return new


SOMA_LAYOUTS = ["three-point", "three-point", "cylinders", "contour"]


def with_soma(rng, t, layout):
    """The same neuron with its soma written the way SWC files write somata (the property says "for all trees"; the other generators
    only make the one-sample soma).  `t` has a type-1 root and type-3 neurites; positions are on the 1/64 grid.
      * three-point: the standard three-sample soma - centre of radius rs plus two type-1 leaf samples of the same radius, rs to either
        side of the centre along ONE COORDINATE AXIS of the file pose (the format puts them along y; x and z are drawn too);
      * cylinders: the soma as a short stack of wide type-1 compartments leaving the centre along a coordinate axis;
      * contour: a ring of small type-1 leaf samples around the centre, in a coordinate plane.
    The soma samples are numbered right after the root (as files do) or anywhere (a renumbering is applied half of the time)."""
    rs = rng.choice([0.5, 0.75, 1.0, 1.5, 2.0, 3.0])
    axis = rng.choice([1, 1, 0, 2])
    c = list(t["xyz"][0])
    e = [0.0, 0.0, 0.0]; e[axis] = 1.0
    if layout == "three-point":
        add = [(0, [c[k] - rs * e[k] for k in range(3)], rs), (0, [c[k] + rs * e[k] for k in range(3)], rs)]
    elif layout == "cylinders":
        add, prev, pos = [], 0, c
        for j in range(rng.randint(1, 3)):
            step = rng.choice([0.5, 1.0, rs])
            pos = [pos[k] + step * e[k] for k in range(3)]
            add.append((prev, pos, rng.choice([rs, rs / 2, rs * 0.75])))
            prev = -(j + 1)                  # placeholder: the j-th added sample
    else:
        m = rng.choice([4, 6, 8])
        u, v = [(1, 2), (0, 2), (0, 1)][axis]
        add = []
        for j in range(m):
            q = list(c); a = 2 * math.pi * j / m
            q[u] += round(rs * math.cos(a) * 64) / 64.0; q[v] += round(rs * math.sin(a) * 64) / 64.0
            add.append((0, q, rng.choice([0.125, 0.25])))
    k = len(add)
    sh = lambda p: -1 if p == -1 else (0 if p == 0 else p + k)
    new = {"n": t["n"] + k, "pids": [-1], "types": [1], "xyz": [c], "r": [rs]}
    for j, (p, q, r) in enumerate(add):
        new["pids"].append(0 if p == 0 else -p); new["types"].append(1); new["xyz"].append([float(x) for x in q]); new["r"].append(float(r))
    for i in range(1, t["n"]):
        new["pids"].append(sh(t["pids"][i])); new["types"].append(t["types"][i]); new["xyz"].append(list(t["xyz"][i])); new["r"].append(t["r"][i])
    if len({tuple(q) for q in new["xyz"]}) != new["n"]:
        return None
    if rng.random() < 0.5:
        new = relabel(rng, new)
    return new


def _motion(rng):
    ax = [rng.gauss(0, 1) for _ in range(3)]; nrm = math.sqrt(sum(a * a for a in ax)) or 1.0
    return {"axis": [a / nrm for a in ax], "theta": rng.uniform(-3.1, 3.1), "shift": [rng.randint(-80, 80) / 4 for _ in range(3)],
            "center": rng.choice(["root", "origin"])}


def _axis_motion(rng):
    """a quarter / half turn or a small tilt about one coordinate axis (the re-orientations made by hand: y-up <-> z-up, flips)"""
    ax = [0.0, 0.0, 0.0]; ax[rng.randrange(3)] = rng.choice([-1.0, 1.0])
    return {"axis": ax, "theta": rng.choice([math.pi / 2, math.pi, -math.pi / 2, math.radians(rng.uniform(5, 60))]),
            "shift": [rng.randint(-80, 80) / 4 for _ in range(3)], "center": rng.choice(["root", "origin"])}


# Monte-Carlo accuracy levels of get_volume: every level from 5 ("middle", the DEFAULT) to 9 adds, per furcation, the overlap of every pair of
# sibling frusta outside the node sphere, estimated from 10^6 uniform samples per pair (about a second each).  The ways a caller reaches them:
MC_TOL = 1.5e-2
# Rotations are NOT among the changes compared at the Monte-Carlo levels: the unchanged library fails there.  sdflit's FrustumCone.bounding_box()
# is too small for most oblique frusta (ends (0,0,0) and (6,8,0), radii 1: it reports x >= -0.16, y >= 0.12 where the frustum reaches x = -0.8,
# y = -0.6; the quarter turn of it, to (-8,6,0), gets a box that contains it), the sampler draws inside that box and `inside` is false outside it,
# so the estimated overlap - and get_volume at its DEFAULT accuracy - changes by 1-2 % when the neuron is turned (reported as a finding of this
# round; VERIF_C11_MC_ROTATIONS=1 adds the family).  Renumbering, translation and scaling about the origin keep every direction, hence the box error.
MC_ROTATIONS = os.environ.get("VERIF_C11_MC_ROTATIONS", "") not in ("", "0")
MC_CALLS = ["default", "middle", "high", 5, 6, 7, 8, 9, "ef.default", "ef.middle"]


def _mc_volume(t, how):
    from swcgeom.analysis import get_volume
    from swcgeom.analysis.feature_extractor import extract_feature

    if how == "default":
        return float(get_volume(t))
    if how == "ef.default":
        return float(np.asarray(extract_feature(t).get("volume")).ravel()[0])
    if how == "ef.middle":
        return float(np.asarray(extract_feature(t).get("volume", accuracy="middle")).ravel()[0])
    return float(get_volume(t, accuracy=how))


def _unit(v):
    nrm = math.sqrt(sum(c * c for c in v)) or 1.0
    return [c / nrm for c in v]


def _pair_overlaps(t, v, npts, nrng):
    """The generator's own estimate (numpy, its own generator - no global state) of what the daughters of node v share pairwise OUTSIDE the
    sphere of v, and of the volume of all spheres and frusta together.  Used only to condition the generated family (overlaps present,
    pairwise different, not dominating the neuron); the oracle never sees it."""
    X = np.array(t["xyz"], dtype=np.float64); R = np.array(t["r"], dtype=np.float64)
    ch = [i for i in range(t["n"]) if t["pids"][i] == v]
    lo = np.min([np.minimum(X[v] - R[v], X[c] - R[c]) for c in ch], axis=0); hi = np.max([np.maximum(X[v] + R[v], X[c] + R[c]) for c in ch], axis=0)
    P = nrng.uniform(lo, hi, size=(npts, 3)); box = float(np.prod(hi - lo))

    def inside(c):
        d = X[c] - X[v]; L = float(np.linalg.norm(d)); d = d / L
        s = (P - X[v]) @ d
        rad = np.linalg.norm(P - X[v] - np.outer(s, d), axis=1)
        return (s >= 0) & (s <= L) & (rad <= R[v] + (R[c] - R[v]) * s / L)

    ins = [inside(c) for c in ch]
    out = np.linalg.norm(P - X[v], axis=1) > R[v]
    ov = [float(np.count_nonzero(ins[i] & ins[j] & out)) / npts * box for i in range(len(ch)) for j in range(i + 1, len(ch))]
    total = sum(4 / 3 * math.pi * r ** 3 for r in t["r"])
    for i, p in enumerate(t["pids"]):
        if p >= 0:
            L = float(np.linalg.norm(X[i] - X[p])); total += math.pi * L * (R[i] ** 2 + R[i] * R[p] + R[p] ** 2) / 3
    return ov, total


def bundle(rng, k, at_root):
    """A neuron with ONE k-furcation (k >= 2) whose daughters leave in a narrow bundle, so that the daughter frusta overlap OUTSIDE the node's
    sphere (several stems leaving the soma side by side when `at_root`; a tuft / trifurcation on a dendrite otherwise).  Directions, lengths
    and radii of the daughters are drawn independently; a draw is kept iff (by the generator's own estimate) every pair of daughters
    overlaps, all overlaps together stay below 25 % (two daughters: 10 %) of the neuron's volume (the library's sampling noise grows with them) and - for three
    or more daughters - the pairwise overlaps DIFFER from each other by at least 2.5 % of the volume (k = 3: every two of them; k > 3: the
    largest and the smallest).  Everything else is unbranched; positions on the 1/64 grid.  Returns (tree case, share of the overlaps)."""
    nrng = np.random.default_rng(rng.randrange(2 ** 32))
    g = lambda p: [round(c * 64) / 64.0 for c in p]

    def spread(ov):
        gaps = [abs(x - y) for i, x in enumerate(ov) for y in ov[i + 1:]]
        return min(gaps) if k == 3 else max(gaps)

    best = None
    for _try in range(1500):
        rp = rng.choice([0.5, 0.75, 1.0, 1.5, 2.0])
        a = _unit([rng.gauss(0, 1) for _ in range(3)]); h = _unit([rng.gauss(0, 1) for _ in range(3)])
        e1 = _unit([a[1] * h[2] - a[2] * h[1], a[2] * h[0] - a[0] * h[2], a[0] * h[1] - a[1] * h[0]])
        e2 = [a[1] * e1[2] - a[2] * e1[1], a[2] * e1[0] - a[0] * e1[2], a[0] * e1[1] - a[1] * e1[0]]
        o = [rng.randint(-40, 40) / 4 for _ in range(3)]
        t = {"class": f"bundle{k}", "n": 0, "pids": [], "types": [], "xyz": [], "r": []}

        def add(p, q, r, ty=3):
            t["pids"].append(p); t["xyz"].append(g(q)); t["r"].append(float(r)); t["types"].append(ty); t["n"] += 1
            return t["n"] - 1

        if at_root:
            v = add(-1, o, rp, 1)
        else:
            v = add(-1, [o[i] - a[i] * rp * rng.uniform(4, 8) for i in range(3)], rp * rng.choice([1.0, 1.5, 2.0]), 1)
            if rng.random() < 0.5:
                v = add(v, [o[i] - a[i] * rp * rng.uniform(1.5, 3) + e1[i] * rng.uniform(-1, 1) for i in range(3)], rp)
            v = add(v, o, rp)
        for j in range(k):
            phi, tt = rng.uniform(0, 2 * math.pi), rng.uniform(0.05, 0.45)
            d = _unit([a[i] + tt * (math.cos(phi) * e1[i] + math.sin(phi) * e2[i]) for i in range(3)])
            L = rp * rng.uniform(5, 12); r = rp * rng.choice([1.0, 0.75, 0.5])
            c = add(v, [o[i] + L * d[i] for i in range(3)], r)
            if rng.random() < 0.6:
                add(c, [o[i] + (L + rp * rng.uniform(3, 6)) * d[i] + e2[i] * rng.uniform(-1, 1) for i in range(3)], r * rng.choice([1.0, 0.5]))
        if len({tuple(q) for q in t["xyz"]}) != t["n"]:
            continue
        for npts in (4000, 40000, 400000):            # two cheap screenings, then the decision on a fine estimate (no selection of noise)
            ov, total = _pair_overlaps(t, v, npts, nrng)
            share = sum(ov) / total
            good = min(ov) > 0.005 * total and share < (0.1 if k == 2 else 0.25) and (k < 3 or spread(ov) > 0.025 * total)
            if not good:
                break
        if good:
            return t, float(share)
        if npts == 400000 and share < (0.1 if k == 2 else 0.25) and (best is None or spread(ov) / total > best[2]):
            best = (t, float(share), spread(ov) / total)
        elif best is None:
            best = (t, float(share), -1.0)
    return best[0], best[1]


def relabel_siblings(rng, t):
    """A random renumbering (root stays 0) in which NO daughter of a furcation keeps its rank among its siblings: the ids the daughters get
    are dealt out again among them by a random derangement of their order (two daughters: swapped).  Coordinates, radii, parents unchanged."""
    n = t["n"]
    perm = list(range(1, n)); rng.shuffle(perm); perm = [0] + perm     # old -> new
    for v in range(n):
        ch = [i for i in range(n) if t["pids"][i] == v]                # by old id
        if len(ch) < 2:
            continue
        new_sorted = sorted(perm[c] for c in ch)
        for _try in range(200):
            ranks = list(range(len(ch))); rng.shuffle(ranks)
            if all(ranks[j] != j for j in range(len(ch))):
                break
        else:
            ranks = list(range(1, len(ch))) + [0]
        for j, c in enumerate(ch):                                     # the daughter of old rank j gets the id of new rank ranks[j]
            perm[c] = new_sorted[ranks[j]]
    new = {"n": n, "pids": [0] * n, "types": [0] * n, "xyz": [None] * n, "r": [0.0] * n}
    for old in range(n):
        k = perm[old]
        new["pids"][k] = -1 if t["pids"][old] == -1 else perm[t["pids"][old]]
        new["types"][k] = t["types"][old]; new["xyz"][k] = list(t["xyz"][old]); new["r"][k] = t["r"][old]
    return new


class Metamorphic(Suite):
    name = "c11.metamorphic"
    case_timeout = 180

    def cases(self, rng, tier, widen):
        out = []
        big = tier == "thorough" or widen
        k = 0
        for n in [2, 3, 5, 8, 13, 21] + ([50] if big else []):
            for _ in range(2 if not big else 5):
                shape = gen.pick_shape(rng, k); k += 1
                t = gen.tree_case(rng, n, shape, numbering=rng.choice(["sorted", "root0"]), coords="dyadic", types="soma3")
                # keep the neuron compact and away from degenerate (zero-length) edges
                t["xyz"] = [[c / 64.0 for c in p] for p in t["xyz"]]
                seen = set()
                ok = True
                for p in t["xyz"]:
                    if tuple(p) in seen:
                        ok = False
                    seen.add(tuple(p))
                if not ok:
                    continue
                t["r"] = [max(0.125, v / 16.0) for v in t["r"]]
                for kind in ["rigid", "relabel", "scale"]:
                    c = {"class": f"{kind}/{shape}", "tree": t, "kind": kind}
                    if kind == "rigid":
                        ax = [rng.gauss(0, 1) for _ in range(3)]; nrm = math.sqrt(sum(a * a for a in ax)) or 1.0
                        c.update(axis=[a / nrm for a in ax], theta=rng.uniform(-3.1, 3.1), shift=[rng.randint(-80, 80) / 4 for _ in range(3)],
                                 center=rng.choice(["root", "origin"]))
                    elif kind == "scale":
                        c.update(s=rng.choice([0.5, 2.0, 3.0, 0.25, 1.5]))
                    else:
                        c.update(perm_seed=rng.randrange(10**6))
                    out.append(c)
                # a compact neuron with some very short compartments, carried far from the origin by a translation that is exact in
                # float32 (atlas coordinates): every inter-node offset is bit-identical, so nothing may change at all
                tf = dict(t); tf["xyz"] = [list(p) for p in t["xyz"]]
                for i in range(1, tf["n"]):
                    if rng.random() < 0.4:
                        q = list(tf["xyz"][tf["pids"][i]]); q[rng.randrange(3)] += rng.choice([-1, 1]) * rng.choice([1 / 16, 1 / 8, 1 / 32])
                        if tuple(q) not in {tuple(p) for p in tf["xyz"]}:
                            tf["xyz"][i] = q
                out.append({"class": f"far/{shape}", "tree": tf, "kind": "far",
                            "shift": [rng.choice([8192.0, -12288.0, 4096.0, 10240.0]) for _ in range(3)]})
                # a change of unit: the same neuron under a scale factor many orders of magnitude away from 1 (every listed factor is used)
                out.append({"class": f"unit/{shape}", "tree": t, "kind": "scale", "s": UNIT_SCALES[len(out) % len(UNIT_SCALES)]})
        # neurons with short kinked twigs and short first compartments below bifurcations (see `spiny`), under each kind of change;
        # here the scale factors are unit changes and the translations reach atlas-sized offsets
        k = 0
        for n in [5, 8, 13, 21] + ([50] if big else []):
            for _ in range(3 if not big else 8):
                shape = ["caterpillar", "binary", "stem", "random", "chain"][k % 5]; k += 1
                t = gen.tree_case(rng, n, shape, numbering=rng.choice(["sorted", "root0"]), coords="dyadic", types="soma3")
                t["xyz"] = [[c / 64.0 for c in p] for p in t["xyz"]]
                t["r"] = [max(0.125, v / 16.0) for v in t["r"]]
                t = spiny(rng, t)
                ax = [rng.gauss(0, 1) for _ in range(3)]; nrm = math.sqrt(sum(a * a for a in ax)) or 1.0
                out.append({"class": f"rigid/spiny/{shape}", "tree": t, "kind": "rigid", "axis": [a / nrm for a in ax], "theta": rng.uniform(-3.1, 3.1),
                            "shift": [rng.randint(-80, 80) / 4 for _ in range(3)], "center": rng.choice(["root", "origin"])})
                out.append({"class": f"relabel/spiny/{shape}", "tree": t, "kind": "relabel", "perm_seed": rng.randrange(10**6)})
                out.append({"class": f"unit/spiny/{shape}", "tree": t, "kind": "scale", "s": UNIT_SCALES[k % len(UNIT_SCALES)]})
                out.append({"class": f"unit/spiny/{shape}", "tree": t, "kind": "scale", "s": 10.0 ** rng.uniform(-9, 9)})
                for _far in range(2):
                    out.append({"class": f"far/spiny/{shape}", "tree": t, "kind": "far",
                                "shift": [rng.choice([-1, 1]) * rng.choice(FAR_SHIFTS) for _ in range(3)]})
        # bifurcations whose two daughters leave in exactly opposite directions (180°) or whose daughter continues the parent segment
        # exactly: the angles sit on the boundary of arccos, in every pose
        for rep in range(14 if not big else 40):
            d = rng.choice([(1, 0, 0), (0, 1, 0), (1, 1, 0), (1, 2, 2), (3, 3, 0), (0, 0, 1), (2, -1, 2)])
            a, b = rng.randint(1, 3), rng.randint(1, 3)
            o = [rng.randint(-3, 3) / 2 for _ in range(3)]
            stem = [o[i] - 1.5 * d[i] for i in range(3)]
            xyz = [stem, o, [o[i] + a * d[i] for i in range(3)], [o[i] - b * d[i] + (0.0 if rep % 4 else [0.5, -0.5, 0.25][i]) for i in range(3)],
                   [o[i] + (a + 1) * d[i] + [0.0, 1.0, 0.5][i] for i in range(3)]]
            t = {"class": "collinear", "n": 5, "pids": [-1, 0, 1, 1, 2], "types": [1, 3, 3, 3, 3], "xyz": [[float(c) for c in q] for q in xyz],
                 "r": [0.5, 0.25, 0.25, 0.25, 0.125]}
            ax = [rng.gauss(0, 1) for _ in range(3)]; nrm = math.sqrt(sum(v * v for v in ax)) or 1.0
            out.append({"class": "rigid/collinear", "tree": t, "kind": "rigid", "axis": [v / nrm for v in ax], "theta": rng.uniform(-3.1, 3.1),
                        "shift": [rng.randint(-80, 80) / 4 for _ in range(3)], "center": rng.choice(["root", "origin"])})
        # somata written as SWC files write them (three-point soma, cylinder stack, contour), under each kind of change; the rigid
        # motions include turns about a single coordinate axis
        k = 0
        for n in [5, 8, 13] + ([21, 50] if big else []):
            for layout in SOMA_LAYOUTS:
                for _ in range(1 if not big else 3):
                    shape = ["stem", "star", "random", "caterpillar", "binary", "highdeg"][k % 6]; k += 1
                    t = gen.tree_case(rng, n, shape, numbering=rng.choice(["sorted", "root0"]), coords="dyadic", types="soma3")
                    t["xyz"] = [[c / 64.0 for c in p] for p in t["xyz"]]
                    t["r"] = [max(0.125, v / 16.0) for v in t["r"]]
                    t = with_soma(rng, t, layout)
                    if t is None:
                        continue
                    cl = f"soma/{layout}"
                    out.append(dict({"class": f"rigid/{cl}", "tree": t, "kind": "rigid"}, **_motion(rng)))
                    out.append(dict({"class": f"rigid-axis/{cl}", "tree": t, "kind": "rigid"}, **_axis_motion(rng)))
                    out.append({"class": f"relabel/{cl}", "tree": t, "kind": "relabel", "perm_seed": rng.randrange(10**6)})
                    out.append({"class": f"scale/{cl}", "tree": t, "kind": "scale", "s": rng.choice([0.5, 2.0, 3.0, 0.25, 1.5])})
                    out.append({"class": f"unit/{cl}", "tree": t, "kind": "scale", "s": UNIT_SCALES[k % len(UNIT_SCALES)]})
                    out.append({"class": f"far/{cl}", "tree": t, "kind": "far", "shift": [rng.choice([-1, 1]) * rng.choice(FAR_SHIFTS) for _ in range(3)]})
        # measuring protocols: the neuron and its changed copy are each measured by the SAME sequence of calls on the one Tree object -
        # some whole-tree calls of the observed entry points first (every one of PROTOCOL_POOL is used), then the morphometrics in a
        # shuffled order; the changed copy is derived from the measured object or from a freshly built one
        pool = list(PROTOCOL_POOL); rng.shuffle(pool)
        k = 0
        for rep in range(2 * len(pool) if not big else 6 * len(pool)):
            n = [8, 13, 21, 5, 34][rep % 5]
            shape = ["random", "caterpillar", "binary", "stem", "highdeg", "star"][rep % 6]
            t = gen.tree_case(rng, n, shape, numbering=rng.choice(["sorted", "root0"]), coords="dyadic", types="soma3")
            t["xyz"] = [[c / 64.0 for c in p] for p in t["xyz"]]
            t["r"] = [max(0.125, v / 16.0) for v in t["r"]]
            if len({tuple(p) for p in t["xyz"]}) != t["n"]:
                continue
            # every call of the pool leads one protocol under a rotation or a renumbering and one under a scaling or a far translation
            proto = [pool[rep % len(pool)]] + [rng.choice(pool) for j in range(rng.randint(0, 3))]
            kind = [["rigid", "relabel"], ["scale", "far"], ["relabel", "rigid"], ["far", "scale"]][(rep // len(pool)) % 4][rep % 2]
            c = {"class": f"protocol/{kind}", "tree": t, "kind": kind, "protocol": proto, "order_seed": rng.randrange(10**6),
                 "source": rng.choice(["measured", "fresh"])}
            if kind == "rigid":
                c.update(_motion(rng))
            elif kind == "relabel":
                c.update(perm_seed=rng.randrange(10**6))
            elif kind == "scale":
                c.update(s=rng.choice([0.5, 2.0, 3.0, 1.5, UNIT_SCALES[rep % len(UNIT_SCALES)]]))
            else:
                c.update(shift=[rng.choice([-1, 1]) * rng.choice(FAR_SHIFTS) for _ in range(3)])
            out.append(c)
        # neurons READ FROM AN SWC FILE ON DISK by path (Tree.from_swc(path), the path spelled absolute or relative to the current directory;
        # tree.source is the file), the way every real workflow gets its trees; the changed copy is made by the library's transforms from the
        # loaded tree (or from a second load of the same file), a renumbering is saved again - over the same file or beside it.  Both
        # are measured in the same process, some through whole-tree calls of the entry points first (Sholl / extract_feature(..).get("sholl")).
        k = 0
        for rep in range(10 if not big else 30):
            n = [8, 13, 21, 5, 34][rep % 5]
            shape = ["random", "binary", "caterpillar", "stem", "highdeg", "star"][rep % 6]
            t = gen.tree_case(rng, n, shape, numbering=rng.choice(["sorted", "root0"]), coords="dyadic", types="soma3")
            t["xyz"] = [[c / 64.0 for c in p] for p in t["xyz"]]
            t["r"] = [max(0.125, v / 16.0) for v in t["r"]]
            if len({tuple(p) for p in t["xyz"]}) != t["n"]:
                continue
            if rep % 3 == 1:
                t = spiny(rng, t)
            for kind in ["scale", "unit", "rigid", "relabel", "far"]:
                k += 1
                load = {"spelling": rng.choice(["absolute", "relative"]), "name": rng.choice(["neuron.swc", "a b.swc", "cell-01.SWC"])}
                c = {"class": f"file/{kind}", "tree": t, "kind": {"unit": "scale"}.get(kind, kind), "load": load,
                     "source": rng.choice(["measured", "fresh"])}
                if rng.random() < 0.5:
                    c.update(protocol=[rng.choice(["sholl.steps7", "ef.sholl", "ef.node_radial_distance", "ef.length", "lm.n_tips"])
                                       for _ in range(rng.randint(1, 2))], order_seed=rng.randrange(10**6))
                if kind == "rigid":
                    c.update(_motion(rng) if rng.random() < 0.7 else _axis_motion(rng))
                elif kind == "relabel":
                    c.update(perm_seed=rng.randrange(10**6)); load["resave"] = rng.choice(["same-file", "other-file"])
                elif kind == "scale":
                    c.update(s=rng.choice([0.5, 2.0, 3.0, 0.25, 1.5, 4.0, round(rng.uniform(0.3, 5.0), 3)]))
                elif kind == "unit":
                    c.update(s=UNIT_SCALES[k % len(UNIT_SCALES)])
                else:
                    c.update(shift=[rng.choice([-1, 1]) * rng.choice(FAR_SHIFTS) for _ in range(3)])
                out.append(c)
        # get_volume as it is called by default: the Monte-Carlo accuracy levels (5 .. 9, "middle", "high", no argument, through
        # extract_feature), on neurons where their extra term is not zero - a furcation whose daughters leave side by side and overlap
        # outside the node sphere (`bundle`).  Trifurcations (and 4-furcations in the wide search) under renumberings that change the order
        # of the daughters (`relabel_siblings`); bifurcations and trifurcations under translation and scaling (and rotation, see MC_ROTATIONS).
        # Each pair of daughters costs the library a second per evaluation, hence the small guaranteed share in the quick tier; "big" keeps
        # these cases out of the second pass.
        plan = [(3, "relabel"), (2, "far"), (2, "scale")]
        if big:
            plan += [(3, "relabel"), (3, "far"), (3, "scale"), (4, "relabel"), (2, "relabel"), (3, "relabel")]
        if MC_ROTATIONS:
            plan += [(2, "rigid"), (2, "rigid")] + ([(3, "rigid")] if big else [])
        calls = list(MC_CALLS); rng.shuffle(calls)
        for j, (kk, kind) in enumerate(plan):
            t, share = bundle(rng, kk, at_root=rng.random() < 0.5)
            c = {"class": f"mc-volume/{kind}/bundle{kk}", "tree": t, "kind": kind, "mc": calls[j % len(calls)], "overlap_share": round(float(share), 4),
                 "np_seed": rng.randrange(2 ** 31), "big": True}
            if kind == "rigid":
                c.update(_motion(rng) if rng.random() < 0.5 else _axis_motion(rng))
            elif kind == "relabel":
                c.update(perm_seed=rng.randrange(10**6), siblings=True)
            elif kind == "far":
                c.update(shift=[rng.choice([-1, 1]) * rng.choice([64.0, 128.0, 256.0, 512.0, 1024.0]) for _ in range(3)])
            else:
                c.update(s=rng.choice([0.5, 2.0, 3.0, 0.25, 1.5, 1e3, 1e-3, 2.0 ** 10]))
            out.append(c)
        return out

    def _radii(self, t):
        P = np.array(t["xyz"], dtype=np.float64)
        rad = sorted(set(float(v) for v in np.linalg.norm(P - P[0], axis=1)))
        rs = []
        for a, b in zip(rad, rad[1:]):
            if b - a > 0.05 * max(1.0, b):
                rs.append((a + b) / 2)
        return rs[:8] or [max(rad) * 2 + 1.0]

    def run(self, case):
        if not case.get("load"):
            return self._run(case, gen.make_tree)
        # the neuron lives in an SWC file: every tree of the case is read from disk by path
        import shutil, tempfile
        from swcgeom.core import Tree

        load = case["load"]
        tmp = tempfile.mkdtemp(prefix="c11_")
        cwd = os.getcwd()
        made = []

        def build(tc):
            idx = made.index(tc) if tc in made else len(made)
            name = load["name"] if idx == 0 or load.get("resave") != "other-file" else f"renumbered-{idx}-" + load["name"]
            full = os.path.join(tmp, name)
            if tc not in made:                      # a second load of the same neuron re-reads the file as it is
                made.append(tc)
                with open(full, "w", encoding="utf-8") as f:
                    f.write("# generated\n" + "".join(
                        f"{i + 1} {tc['types'][i]} {' '.join(repr(float(np.float32(v))) for v in tc['xyz'][i])} "
                        f"{float(np.float32(tc['r'][i]))!r} {tc['pids'][i] + 1 if tc['pids'][i] >= 0 else -1}\n" for i in range(tc["n"])))
            return Tree.from_swc(name if load["spelling"] == "relative" else full)

        try:
            os.chdir(tmp)
            return self._run(case, build)
        finally:
            os.chdir(cwd)
            shutil.rmtree(tmp, ignore_errors=True)

    def _run(self, case, make_tree):
        import random as _r
        from swcgeom.transforms import Rotate, Scale, Translate

        t0 = make_tree(case["tree"])
        rs = self._radii(case["tree"])
        proto, order = case.get("protocol"), case.get("order_seed")
        feats = features
        if case.get("mc") is not None:
            # the sampling of the library draws from numpy's global generator: seeded per case (replayable), restored afterwards
            def feats(t, rs_, proto_, order_, _k=[0]):
                f = features(t, rs_, proto_, order_)
                st = np.random.get_state()
                try:
                    np.random.seed((int(case.get("np_seed", 0)) + _k[0]) % 2 ** 31); _k[0] += 1
                    with warnings.catch_warnings():
                        warnings.simplefilter("ignore")
                        f["volume_mc"] = _mc_volume(t, case["mc"])
                finally:
                    np.random.set_state(st)
                return f
        f0 = feats(t0, rs, proto, order)
        kind = case["kind"]
        if case.get("source") == "fresh":      # the changed copy is made from a newly built object, not from the one just measured
            t0 = make_tree(case["tree"])
        with warnings.catch_warnings():
            warnings.simplefilter("ignore")
            if kind == "rigid":
                t1 = Translate(*case["shift"])(Rotate(np.array(case["axis"]), case["theta"], center=case["center"])(t0))
                f1 = feats(t1, rs, proto, order)
            elif kind == "far":
                t1 = Translate(*case["shift"])(t0)
                X = np.array(case["tree"]["xyz"], dtype=np.float64)          # exactness is judged on the case data alone
                want = (X + np.array(case["shift"])).astype(np.float32)
                if not np.array_equal(want.astype(np.float64) - np.array(case["shift"]), X) or not np.array_equal(X.astype(np.float32).astype(np.float64), X):
                    return {"skip": "translation not exact in float32"}
                f1 = feats(t1, rs, proto, order)
            elif kind == "scale":
                s = case["s"]
                t1 = Scale(s, s, s, center="origin")(t0)
                t1.ndata["r"] = t1.ndata["r"] * np.float32(s)
                f1 = feats(t1, [r * s for r in rs], proto, order)
            else:
                t1 = make_tree((relabel_siblings if case.get("siblings") else relabel)(_r.Random(case["perm_seed"]), case["tree"]))
                f1 = feats(t1, rs, proto, order)
        out = {"before": f0, "after": f1}
        if kind == "rigid":
            out["moved"] = t1.xyz().astype(float).tolist()
        return out

    def lines(self, case, res):
        """tie of the rigid motion to the REGENERATED matrices (same driver op as C12)"""
        if "exc" in res or case["kind"] != "rigid":
            return []
        t = case["tree"]
        root = t["xyz"][0]
        out = []
        for i in sorted({0, t["n"] - 1}):
            p = t["xyz"][i]
            want = [res["moved"][i][k] - case["shift"][k] for k in range(3)]
            a = ",".join(repr(float(v)) for v in case["axis"] + [case["theta"]])
            line = (f"affine kind=rot a={a} center={case['center']} root={','.join(repr(float(v)) for v in root)} "
                    f"p={','.join(repr(float(v)) for v in p)}")
            out.append((line, {"approx": want, "rtol": 2e-5, "atol": 2e-4}))
        return out

    def oracle(self, case, res):
        if "exc" in res:
            return [("invariance-raises", f"{case['kind']}: {res['exc']}: {res.get('msg')}")]
        if "skip" in res:
            return []
        a, b = res.get("before"), res.get("after")
        if not isinstance(a, dict) or not isinstance(b, dict):
            return [("invariance-malformed", f"{case['kind']}: no morphometrics returned: {str(res)[:200]}")]
        s = case.get("s", 1.0)
        out = []
        tol = 3e-4 if case["kind"] != "far" else 2e-5

        def close(x, y, scale=1.0):
            if isinstance(x, list):
                return isinstance(y, list) and len(x) == len(y) and all(close(u, v, scale) for u, v in zip(x, y))
            # relative at every scale: the absolute floor (1 length unit of the ORIGINAL neuron) is carried along by the scale factor
            try:
                return bool(abs(y - x * scale) <= tol * max(scale, abs(x * scale)))
            except TypeError:
                return False

        kind = case["kind"]
        # The library's closed-form sphere/frustum overlap treats a radius step of less than 1e-6 LENGTH UNITS as "no taper" (an absolute band,
        # DESIGN.md §8 and theorem C11.concentric_scale_counterexample), so the reported volume of a neuron shrunk until its radius steps fall
        # into that band is only approximate (seen: 0.3-0.5 % off s^3 for s <= 2e-6 on neurons with short compartments).  As in C13 / C14 the
        # band is excluded in absolute terms, with a factor 10 to spare: the volume clause of a scaling is evaluated iff every non-zero radius
        # step along an edge stays >= 1e-5 in the original and in the scaled neuron.  Every other clause is evaluated at every scale.
        tr = case["tree"]
        steps = [abs(tr["r"][i] - tr["r"][p]) for i, p in enumerate(tr["pids"]) if p >= 0 and tr["r"][i] != tr["r"][p]]
        volume_band = kind == "scale" and bool(steps) and min(steps) * min(1.0, s) < 1e-5
        what = {"rigid": "rotating/translating the neuron", "relabel": "renumbering the nodes", "scale": f"scaling by {s}",
                "far": f"translating the neuron by {case.get('shift')} (exactly representable)"}.get(kind, kind)
        proto = f"; both measured by the calls {case['protocol']} followed by the morphometrics, on one Tree object each" if case.get("protocol") else ""
        if case.get("load"):
            proto += f"; the neuron was read from an SWC file by its {case['load'].get('spelling')} path (Tree.from_swc)"
        for key, power in (("length", 1), ("branch_length", 1), ("path_length", 1), ("radial", 1), ("sholl_rmax", 1), ("volume", 3),
                           ("branch_tortuosity", 0), ("path_tortuosity", 0), ("angles", 0), ("partition_asymmetry", 0)):
            x, y = a.get(key), b.get(key)
            if key == "sholl_rmax" and x is None and y is None and case["tree"]["n"] <= 1:
                continue
            if x is None or y is None:
                out.append((f"{kind}-changes-{key}", f"{key} missing: {x} / {y}"))
                continue
            if key == "angles" and not close(x, y):
                # angles are in degrees; allow 0.05°
                try:
                    if len(x) == len(y) and all(abs(u - v) <= 0.05 for u, v in zip(x, y)):
                        continue
                except TypeError:
                    pass
            if key == "volume" and volume_band:
                continue
            if not close(x, y, s ** power):
                exp = "unchanged" if power == 0 or kind != "scale" else f"×{s}^{power}"
                out.append((f"{kind}-changes-{key}", f"{what} turned {key} {str(x)[:120]} into {str(y)[:120]} (expected {exp}); pids={case['tree']['pids']}{proto}"))
        if case.get("mc") is not None and not volume_band:
            # get_volume at a Monte-Carlo accuracy level: the value carries the library's sampling noise (a few 1e-4 .. 2e-3 of the volume on
            # the generated bundles, see ASSUMPTIONS), so the comparison allows 1.5 % instead of rounding - weaker than the property, never stronger
            x, y = a.get("volume_mc"), b.get("volume_mc")
            try:
                ok = math.isfinite(x) and math.isfinite(y) and abs(y - x * s ** 3) <= MC_TOL * abs(x * s ** 3)
            except TypeError:
                ok = False
            if not ok:
                exp = "unchanged" if kind != "scale" else f"×{s}^3"
                out.append((f"{kind}-changes-volume-mc", f"{what} turned get_volume (accuracy {case['mc']}) {x} into {y} (expected {exp} within {MC_TOL:.1%}: "
                            f"far above the sampling noise); pids={case['tree']['pids']}"))
        # extract_feature(x).get("branch_angle"): the angles between branches (radians, entries as a multiset).  Judged under rotation,
        # translation, renumbering AND uniform scaling (the property: scaling "leaves counts, angles and ratios unchanged", for every s > 0;
        # a library that adds an absolute eps to |u||v| before dividing drifts towards pi/2 as the neuron shrinks and is reported here).
        if "branch_angle" in a or "branch_angle" in b:
            x, y = a.get("branch_angle"), b.get("branch_angle")
            lim = 1e-4 if kind == "far" else 3e-3
            try:
                ok = (a.get("branch_angle_shape") == b.get("branch_angle_shape") and len(x) == len(y)
                      and all(math.isfinite(u) and math.isfinite(v) and abs(u - v) <= lim for u, v in zip(x, y)))
            except TypeError:
                ok = False
            if not ok:
                try:
                    worst = max(zip(x, y), key=lambda q: abs(q[0] - q[1]) if math.isfinite(q[0] - q[1]) else math.inf)
                except (TypeError, ValueError):
                    worst = None
                out.append((f"{kind}-changes-branch_angle", f"{what} turned the angles between branches (extract_feature.get('branch_angle'), sorted, rad) "
                            f"{str(x)[:100]} into {str(y)[:100]} (largest change {worst}; expected unchanged within {lim} rad); "
                            f"pids={case['tree']['pids']}{proto}"))
        for key in ("counts", "branch_order", "lm_branch_order", "terminal_degree", "sholl"):
            if key in a and a[key] != b.get(key):
                out.append((f"{kind}-changes-{key}", f"{key} changed from {a[key]} to {b.get(key)} under {kind}; pids={case['tree']['pids']}{proto}"))
        # the values returned by the calls of the protocol themselves, where the property states what happens to them
        pa, pb = a.get("pre") or [], b.get("pre") or []
        if len(pa) != len(pb):
            out.append((f"{kind}-changes-protocol", f"protocol values {str(pa)[:120]} / {str(pb)[:120]}"))
        for ea, eb in zip(pa, pb):
            try:
                (name, cat, x), y = ea, eb[2]
            except (TypeError, ValueError, IndexError):
                out.append((f"{kind}-changes-protocol", f"malformed protocol values {str(ea)[:80]} / {str(eb)[:80]}")); continue
            power = {"length": 1, "volume": 3, "ratio": 0}.get(cat)
            if cat == "free" or (cat == "volume" and volume_band):
                continue
            if (x != y) if cat == "count" else not close(x, y, s ** power):
                out.append((f"{kind}-changes-{name}", f"{what} turned {name} {str(x)[:120]} into {str(y)[:120]}; pids={case['tree']['pids']}{proto}"))
        return out[:3]

    def nontrivial(self, case, res):
        if case.get("mc") is not None:
            return case.get("overlap_share", 0) > 0.02 and "exc" not in res
        return case["tree"]["n"] >= 5 and "skip" not in res


SUITES = [Metamorphic()]
TECHNIQUE = ("Lean 4 theorems: rigid motions built from the REGENERATED matrices preserve all squared inter-node distances (C12) and the feature models take distances "
             "only; scaling multiplies lengths by s, leaves ratios and the Sholl profile (radii scaled along) unchanged, and the REGENERATED volume forms are homogeneous "
             "of degree 3; renumbering permutes the summands of the length + metamorphic testing of the real library (rotate / translate / renumber / scale, compare all features; neurons with three-point / cylinder / contour somata; measuring protocols: whole-tree calls of LMeasure / extract_feature / Sholl / get_volume on the same Tree object before the morphometrics, in shuffled order)")
LEVEL_TEXT = ("Kernel-checked: translation and rotation (axis rotations about origin or root) leave every squared inter-node distance unchanged, uniform scaling multiplies "
              "it by s²; the feature models are functions of the parent list and the distances only; under scaling by s lengths and path distances scale by s, ratios do not "
              "change, the Sholl count with radii scaled by s does not change, sphere / cap / frustum / lens / sphere∩frustum volumes scale by s³; total length is invariant "
              "under renumberings that carry the edge lengths along; the inner product of the two edge vectors at a node is determined by three squared distances "
              "(polarisation), so every bifurcation-angle cosine is unchanged by the regenerated rigid motions and by uniform scaling.")
LEVEL_NOTE = "Trusted: Lean kernel; C10's tie of the feature models to the code; floating-point rounding (tolerance 3e-4) is outside the theorems."
