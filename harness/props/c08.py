"""C08 — branches, paths, tips and furcations decompose the tree exactly."""
import sys
import warnings

import numpy as np

from harness import gen
from harness.framework import Suite

PID = "C08"
LEAN_MODS = ["SwcVerif.Props.C08", "SwcVerif.Props.C08Gen", "SwcVerif.Props.C08Node", "SwcVerif.Props.C08BranchTree", "SwcVerif.Props.C08NodeFull",
             "SwcVerif.Props.C08Wrap"]
# Gen/AlgoBranches.lean (Tree.get_branches / get_paths / get_furcations and their closures) runs on Gen/AlgoTraverse.lean;
# Gen/AlgoNodeBranch.lean (Tree.get_tips, Tree.Node.branch) runs on the node methods of Gen/AlgoNode.lean
TRANSLATE_ALGO = ["AlgoTraverse", "AlgoBranches", "AlgoNode", "AlgoNodeBranch", "AlgoSubtree", "AlgoBranchTree",
                  "AlgoCtorTree"]      # Gen/AlgoCtorTree.lean: the deprecated spellings Tree.get_bifurcations / Node.is_bifurcation
DRIVER_FILES = ["SwcVerif/Model/AlgoRunCtorTree.lean", "SwcVerif/Model/AlgoRunBranches.lean", "SwcVerif/Model/AlgoRunNodeBranch.lean", "SwcVerif/Model/AlgoRunBranchTree.lean",
                "SwcVerif/Model/BranchTree.lean"]
THEOREMS = [
    "C08.getBranches_eq", "C08.branches_partition_edges", "C08.branch_shape", "C08.branch_ends", "C08.getPaths_eq", "C08.paths_one_per_tip",
    "C08.tips_eq_childless", "C08.tipsOf_childless", "C08.furcations_eq", "C08.furcsOf_ge2", "C08.branchTree_table",
    # refinement: the methods and closures generated from tree.py on this run, on the generated traversal
    "RefineClosures.spec_wrap", "RefineClosures.traverse_closures", "RefineBranches.collectBranches_refines", "RefineBranches.collectFurcations_refines",
    "RefineBranches.assignPath_refines", "RefineBranches.collectPath_refines", "RefineBranches.getBranches_refines", "RefineBranches.getFurcations_refines",
    "C08.generated_getBranches_eq", "C08.generated_getBranches_eq_model", "C08.generated_furcations_eq",
    # node-level methods generated from tree.py / node.py on this run (Gen/AlgoNode.lean, Gen/AlgoNodeBranch.lean)
    "RefineNode.node_parent_spec", "RefineNode.node_is_root_spec", "RefineNode.node_children_spec", "RefineNode.node_is_furcation_spec",
    "RefineNode.node_is_tip_spec", "RefineNodeBranch.getTips_refines", "C08.generated_tips_childless", "C08.generated_tips_eq_tipsOf",
    "RefineNodeBranch.nodeBranch_refines", "RefineNodeBranch.nodeBranch_shape", "RefineNodeBranch.nodeBranch_furcation",
    "C08.generated_nodeBranch_eq_model", "C08.generated_nodeBranch_shape_partial", "C08.generated_nodeBranch_furcation",
    # BranchTree.from_tree generated from branch_tree.py on this run (Gen/AlgoBranchTree.lean, on the generated get_branches / to_sub_topology)
    "RefineBranchTree.for1_loop", "RefineBranchTree.for2_loop", "RefineBranchTree.for3_loop", "RefineBranchTree.nonzero_eqMask",
    "RefineBranchTree.step_eq", "RefineBranchTree.fromTree_refines_on", "RefineBranchTree.fileBranches_spec", "RefineBranchTree.toSubTopology_total",
    "C08.furcs_tips_nodup", "C08.branch_mem", "C08.branch_head_mem", "C08.branch_nodes_nodup",
    "C08.generated_fromTree_eq_model", "C08.branchTree_model_spec", "C08.generated_branchTree_table",
    # Node.branch() returns a member of the decomposition (the open item of C08Node: membership; interior nodes have exactly one child)
    "C08.downOK_det", "C08.downOK_interior", "C08.chain_all", "C08.cover_all", "C08.branchesOf_chain", "C08.upOK_reverse",
    "C08.nodeBranch_mem_branchesOf", "C08.generated_nodeBranch_mem_branches",
    # the deprecated spellings as generated on this run (Gen/AlgoCtorTree.lean) are their targets
    "RefineCtor.get_bifurcations_eq", "RefineCtor.node_is_bifurcation_eq", "C08.generated_get_bifurcations_eq", "C08.generated_node_is_bifurcation_spec",
]
TRUSTED = ["hand-written models Model/Branches.lean of the traversal callbacks (tied by the c08.decomp correspondence suite)"]
ASSUMPTIONS = ["the traversal loop is C04's machine (C04.traverse_eq_spec)", "np.setdiff1d returns the sorted ids that never occur as a parent"]


def kids_of(pids):
    k = {}
    for i, p in enumerate(pids):
        k.setdefault(p, []).append(i)
    return k


# trees that are themselves the product of the branch-tree builders, then used as ordinary trees (a BranchTree IS a Tree)
AS_BRANCH_TREE = ["branch-tree", "to-branch-tree", "branch-tree-twice"]


def comb_pids(rng, levels, spine, twig, fan):
    """a neurite that gives off one side twig after another: root, then `levels` furcations nested in one another.
    `spine` says which child of a furcation carries on (first / last / random), `twig` is the length of a side twig,
    `fan` the number of children of a furcation (one of them is the spine, the others are twigs).  pid[i] < i."""
    pids = [-1, 0]
    cur = 1
    for _ in range(levels):
        at = {"first": 0, "last": fan - 1}.get(spine, rng.randrange(fan))
        nxt = cur
        for c in range(fan):
            pids.append(cur)
            if c == at:
                nxt = len(pids) - 1
            else:
                for _k in range(twig - 1):
                    pids.append(len(pids) - 1)
        cur = nxt
    return pids


def deep_tree(rng, pids, label, renumber):
    """tree case on a parent table that is too large for the random-position generator: distinct lattice positions by construction"""
    if renumber:
        pids = gen.renumber_root0(rng, pids)
    n = len(pids)
    a, b = rng.randint(2, 9), rng.randint(2, 9)
    return {"class": label, "n": n, "pids": pids, "types": [rng.choice([1, 3])] + [3] * (n - 1),
            "xyz": [[float(i), float((a * i) % 11), float((b * i) % 7)] for i in range(n)], "r": [1.0] * n}


COINCIDE_MODES = ["tips-repeat-parent", "some-tips-repeat-parent", "runs-repeat-parent", "subtree-at-one-point", "all-points-coincide", "depth-on-a-line"]


def coincide(rng, t, mode):
    """zero-length segments: the same tree with sample points that repeat the position of their parent (duplicate consecutive
    points are common in traced reconstructions), up to a whole subtree / the whole tree sitting at one point, and trees laid out
    by depth on a line (siblings coincide, all paths of equal depth tie in length).  The property is stated for all trees: the
    decomposition is a matter of the parent table, and the longest root-to-tip path is still one of the root-to-tip paths."""
    pids, n = t["pids"], t["n"]
    kids = kids_of(pids)
    order, depth = [0], {0: 0}
    for v in order:                                   # parents before children, whatever the numbering
        for c in kids.get(v, []):
            depth[c] = depth[v] + 1
            order.append(c)
    xyz = [list(p) for p in t["xyz"]]
    tips = [i for i in range(1, n) if i not in kids]
    if mode == "tips-repeat-parent":
        chosen = set(tips)
    elif mode == "some-tips-repeat-parent":
        chosen = {i for i in tips if rng.random() < 0.5} or set(tips[:1])
    elif mode == "runs-repeat-parent":
        q = rng.choice([0.3, 0.6, 0.85])
        chosen = {i for i in range(1, n) if rng.random() < q}
    elif mode == "subtree-at-one-point":
        top = rng.randrange(1, n) if n > 1 else 0
        chosen, stack = set(), list(kids.get(top, []))
        while stack:
            v = stack.pop(); chosen.add(v); stack.extend(kids.get(v, []))
    elif mode == "all-points-coincide":
        chosen = set(range(1, n))
    else:
        chosen = set()
        step = float(rng.choice([1, 2, 5]))
        xyz = [[xyz[0][0] + step * depth[i], xyz[0][1], xyz[0][2]] for i in range(n)]
    for v in order:
        if v in chosen:
            xyz[v] = list(xyz[pids[v]])
    out = dict(t)
    out["xyz"] = xyz
    out["class"] = f"zero-length-segments/{mode}"
    return out


class Decomp(Suite):
    name = "c08.decomp"
    case_timeout = 60.0      # the deep family takes 1-3 s per case on an idle machine; a timeout must never read as a violation

    def deep_cases(self, rng, tier, widen):
        """nesting beyond what the interpreter's call stack holds: the property is stated for all trees, and a spiny dendrite
        or an axon with a thousand collaterals is a small tree (a few thousand nodes) whose furcations are nested a
        thousand deep; an unbranched neurite of a few thousand points is a tree whose depth in nodes is as large.  The scale is
        taken from the running interpreter (sys.getrecursionlimit()), not from any particular implementation."""
        lim = sys.getrecursionlimit()
        out = []
        if tier == "thorough" or widen:
            plan = [("comb", lim + rng.randint(30, 200), sp, 1, 2) for sp in ("first", "last", "random")]
            plan += [("comb", 3 * lim // 2 + rng.randint(0, 50), rng.choice(["first", "last", "random"]), rng.randint(1, 3), rng.randint(2, 3)) for _ in range(2)]
            plan += [("comb", 2 * lim, "random", 1, 2), ("chain", 3 * lim, "", 0, 0), ("chain", lim + rng.randint(30, 200), "", 0, 0)]
            plan += [("comb", lim // 2, "random", 2, 3), ("comb", lim // 10, "last", 1, 2)]
        else:
            # quick: ONE comb just beyond the limit (which child carries on, twig length, fan-out drawn), one chain beyond it,
            # and a medium comb well inside it
            plan = [("comb", lim + rng.randint(30, 200), rng.choice(["first", "last", "random"]), rng.randint(1, 2), rng.randint(2, 3)),
                    ("chain", lim + rng.randint(30, 200), "", 0, 0), ("comb", lim // 10, rng.choice(["first", "last", "random"]), rng.randint(1, 3), 2)]
        for kind, levels, spine, twig, fan in plan:
            if kind == "chain":
                pids, label = [-1] + list(range(levels - 1)), f"deep/chain-{'beyond' if levels > lim else 'within'}-recursion-limit"
            else:
                pids = comb_pids(rng, levels, spine, twig, fan)
                label = f"deep/comb-{'beyond' if levels > lim else 'within'}-recursion-limit/spine-{spine}"
            if rng.random() < 0.3:         # the first furcation is the root itself (no stem)
                pids = [-1] + [max(0, p - 1) for p in pids[2:]] if kind == "comb" else pids
            t = deep_tree(rng, pids, label, renumber=rng.random() < 0.3)
            out.append({"class": label, "tree": t, "big": True})
        return out

    def coincident_cases(self, rng, tier, widen):
        """every mode of the zero-length-segment family on drawn shapes and sizes (guaranteed share in the quick tier), plain and
        through the derivations the other cases use"""
        out = []
        reps = 3 if tier == "quick" and not widen else 10
        pool = [n for n in gen.sizes(tier, widen) if 2 <= n <= 120]
        k = rng.randrange(len(gen.SHAPES))
        for mode in COINCIDE_MODES:
            for _ in range(reps):
                shape = gen.pick_shape(rng, k); k += 1
                if shape in ("single", "two"):
                    shape = rng.choice(["chain", "stem", "random", "binary"])
                t = gen.tree_case(rng, rng.choice(pool), shape, numbering=rng.choice(["sorted", "root0"]), coords="lattice", types=rng.choice(["mixed", "anyroot"]))
                t = coincide(rng, t, mode)
                out.append({"class": t["class"], "tree": t})
                if t["n"] >= 3 and rng.random() < 0.4:
                    d = rng.choice(["sort", "copy-edit", f"redirect:{rng.randrange(1, t['n'])}"] + AS_BRANCH_TREE)
                    out.append({"class": t["class"] + ("/as-" if d in AS_BRANCH_TREE else "/derived-") + d.split(":")[0], "tree": t, "derive": d})
        return out

    def cases(self, rng, tier, widen):
        out = []
        reps = 3 if tier == "quick" and not widen else 12
        k = 0
        for n in gen.sizes(tier, widen):
            for _ in range(reps):
                shape = gen.pick_shape(rng, k); k += 1
                t = gen.tree_case(rng, n, shape, numbering=rng.choice(["sorted", "root0"]), coords="lattice", types=rng.choice(["mixed", "anyroot"]))
                out.append({"class": t["class"], "tree": t})
                if t["n"] >= 3 and rng.random() < 0.6:
                    d = rng.choice(["sort", "copy-edit", f"redirect:{rng.randrange(1, t['n'])}"])
                    out.append({"class": t["class"] + "/derived-" + d.split(":")[0], "tree": t, "derive": d})
                if t["n"] >= 3 and rng.random() < 0.5:
                    d = rng.choice(AS_BRANCH_TREE)
                    out.append({"class": t["class"] + "/as-" + d, "tree": t, "derive": d})
        # small scope, exhaustively: every tree with the root first on up to 4 (5) nodes
        for n in range(1, (6 if tier == "thorough" or widen else 5)):
            for j, pids in enumerate(gen.all_root0_trees(n)):
                t = {"class": f"all-n{n}", "n": n, "pids": pids, "types": [[1, 3, 0][j % 3]] + [3] * (n - 1),
                     "xyz": [[float(i), float((i * i + j) % 7), float(i % 2)] for i in range(n)], "r": [1.0] * n}
                out.append({"class": f"all-n{n}", "tree": t})
                if n >= 3:
                    out.append({"class": f"all-n{n}/as-branch-tree", "tree": t, "derive": AS_BRANCH_TREE[j % 3]})
        # the shape classes the property names, with guaranteed quota
        for pids in ([-1], [-1, 0], [-1, 0, 1], [-1, 0, 1, 2, 3], [-1, 0, 0], [-1, 0, 0, 0], [-1, 0, 1, 1], [-1, 0, 1, 2, 2, 2],
                     [-1, 2, 0, 2], [-1, 0, 1, 1, 3, 3]):
            t = gen.tree_case(rng, len(pids), "single")
            n = len(pids)
            for rt in (1, 3):     # soma-typed root, and a neurite fragment whose root is an ordinary node
                t = {"class": "named", "n": n, "pids": pids, "types": [rt] + [3] * (n - 1), "xyz": [[float(i), 0.0, 0.0] for i in range(n)], "r": [1.0] * n}
                out.append({"class": "named" + ("" if rt == 1 else "/nonsoma-root"), "tree": t})
                if n >= 2:
                    out.append({"class": "named/as-branch-tree", "tree": t, "derive": AS_BRANCH_TREE[(n + rt) % 3]})
        # trees with their OWN column-name table (the public `names=` option): the decomposition and the branch tree of such a tree
        own = []
        for j, c in enumerate([c for c in out if c["class"].startswith("named") or c["class"].startswith("all-n4")][: 12 if tier == "quick" and not widen else 40]):
            if c.get("derive") in ("copy-edit",):
                continue                     # that derivation edits ndata["pid"] by its default name
            own.append(dict(c, tree=dict(c["tree"], names=gen.OWN_NAMES[j % len(gen.OWN_NAMES)]), **{"class": c["class"] + "/own-names"}))
        return out + own + self.coincident_cases(rng, tier, widen) + self.deep_cases(rng, tier, widen)

    def run(self, case):
        from swcgeom.core import BranchTree

        t = gen.make_tree(case["tree"])
        res = {}
        if case.get("derive"):
            # multi-step: query the decomposition of a tree, THEN derive another tree from it; the derived
            # tree must be decomposed according to its own topology
            from swcgeom.core.tree_utils import redirect_tree, sort_tree

            t.get_branches(); t.get_paths(); t.get_furcations(); t.get_tips(); BranchTree.from_tree(t)
            d = case["derive"]
            if d == "sort":
                t = sort_tree(t)
            elif d == "copy-edit":
                t = t.copy()
                kids0 = [i for i, p in enumerate(case["tree"]["pids"]) if p == 0]
                leaf = max(range(case["tree"]["n"]), key=lambda i: (i not in case["tree"]["pids"], i))
                if leaf != 0 and leaf not in kids0:
                    t.ndata["pid"][leaf] = 0          # re-hang a tip directly under the root
            elif d == "branch-tree":
                t = BranchTree.from_tree(t)           # from here on the branch tree is the tree under test: a BranchTree is a Tree
            elif d == "to-branch-tree":
                from swcgeom.transforms import ToBranchTree as _ToBT

                t = _ToBT()(t)
            elif d == "branch-tree-twice":
                t = BranchTree.from_tree(BranchTree.from_tree(t))
            else:
                t = redirect_tree(t, int(d.split(":")[1]))
        res["pids_eff"] = t.pid().tolist()
        res["xyz_eff"] = t.xyz().astype(float).tolist()
        n_eff = len(res["pids_eff"])
        # members of a path / branch are listed node by node; on the large trees through the documented id column of the path
        # (origin_id: "the original id"), which is the same list without one Node object per member
        ids_of = (lambda p: [int(v) for v in p.origin_id()]) if case.get("big") else (lambda p: [int(n.id) for n in p])
        for key, what, f in (("branches", "Tree.get_branches()", lambda: [ids_of(br) for br in t.get_branches()]),
                             ("paths", "Tree.get_paths()", lambda: [ids_of(p) for p in t.get_paths()]),
                             ("tips", "Tree.get_tips()", lambda: [int(n.id) for n in t.get_tips()]),
                             ("furcations", "Tree.get_furcations()", lambda: [int(n.id) for n in t.get_furcations()])):
            try:
                res[key] = f()
            except Exception as e:  # noqa: BLE001 - the property promises a decomposition of every tree
                return {"exc": type(e).__name__, "msg": f"{what} raised on a tree of {n_eff} nodes: {str(e)[:160]}"}
        res["node_branch"] = {str(i): [int(x) for x in t.node(i).branch().origin_id()] for i in range(min(n_eff, 12))}
        res["node_flags"] = {str(i): [bool(t.node(i).is_furcation()), bool(t.node(i).is_tip())] for i in range(min(n_eff, 12))}
        # the node-handle methods themselves (for the generated definitions of Gen/AlgoNode.lean): parent / children / is_root
        res["node_info"] = {}
        for i in list(range(min(n_eff, 12))) + ([n_eff - 1] if n_eff > 12 else []):
            nd = t.node(i)
            par = nd.parent()
            res["node_info"][str(i)] = {"parent": None if par is None else int(par.id), "children": [int(c.id) for c in nd.children()],
                                        "root": bool(nd.is_root()), "furc": bool(nd.is_furcation()), "tip": bool(nd.is_tip())}
        # the less-used entry points onto the same decomposition
        from swcgeom.transforms import ToBranchTree, ToLongestPath

        with warnings.catch_warnings():
            warnings.simplefilter("ignore")
            res["bifurcations_alias"] = [int(n.id) for n in t.get_bifurcations()]
            res["node_isbif"] = {str(i): bool(t.node(i).is_bifurcation()) for i in range(min(n_eff, 12))}
            if n_eff > 1:
                lp = ToLongestPath(detach=False)(t)
                res["longest"] = {"ids": [int(v) for v in lp.get_ndata(lp.names.id)], "length": float(lp.length())}
                lpd = ToLongestPath()(t)
                res["longest_detached_xyz"] = np.asarray(lpd.xyz()).astype(float).tolist()
            try:
                tb = ToBranchTree()(t)
                res["tb_same"] = bool(np.array_equal(tb.pid(), BranchTree.from_tree(t).pid()) and np.array_equal(tb.xyz(), BranchTree.from_tree(t).xyz()))
                ob = tb.get_origin_branches()
                res["origin_branches"] = sorted([[float(c) for c in row] for row in b.xyz()] for b in ob)
                res["origin_node_branches"] = {str(k): sorted([[float(c) for c in row] for row in b.xyz()] for b in tb.get_origin_node_branches(k)) for k in sorted(tb.branches.keys())}      # (a tip has no entry: asking for it is a KeyError, by design)
            except Exception as e:  # noqa: BLE001
                res["tb_exc"] = f"{type(e).__name__}: {e}"[:200]
        try:
            bt = BranchTree.from_tree(t)
            res["bt"] = {"pid": bt.pid().tolist(), "xyz": bt.xyz().astype(float).tolist(),
                         "branches": {str(k): [[[float(c) for c in row] for row in b.xyz()] for b in v] for k, v in bt.branches.items()}}
        except Exception as e:  # noqa: BLE001
            res["bt"] = {"exc": type(e).__name__, "msg": str(e)[:200]}
        # the branch tree at the topology level (for the definition GENERATED from branch_tree.py, Gen/AlgoBranchTree.lean): the radius column
        # of a copy carries the row number, so that the gather map (which original row every new row was taken from) and the members
        # of every remembered branch can be read off the result without looking inside `from_tree`
        try:
            t2 = t.copy()
            t2.ndata[t2.names.r] = np.arange(n_eff, dtype=np.float32)
            b2 = BranchTree.from_tree(t2)
            res["bt_topo"] = {"id": [int(x) for x in b2.id()], "pid": [int(x) for x in b2.pid()], "src": [int(x) for x in b2.r()],
                              "branches": [[int(k), [[int(x) for x in b.r()] for b in v]] for k, v in b2.branches.items()]}
        except Exception as e:  # noqa: BLE001
            res["bt_topo"] = {"exc": type(e).__name__}
        return res

    def lines(self, case, res):
        if "exc" in res:
            return []
        t = dict(case["tree"]); t["pids"] = res["pids_eff"]; t["n"] = len(res["pids_eff"])
        a = f"ids={gen.ints(range(t['n']))} pids={gen.ints(t['pids'])}"
        sl = lambda ls: ";".join(gen.ints(b).replace("_", "") for b in ls)
        out = [("branches " + a, sl(res["branches"])), ("paths " + a, sl(res["paths"])),
               ("furcs " + a, gen.ints(res["furcations"]).replace("_", "")), ("tips " + a, gen.ints(sorted(res["tips"])).replace("_", ""))]
        # the methods generated from tree.py on this run, running on the generated traversal (translator cross-check)
        out += [("gbranches " + a, sl(res["branches"])), ("gfurcs " + a, gen.ints(res["furcations"]).replace("_", ""))]
        # the deprecated spellings as generated on this run (Gen/AlgoCtorTree.lean), against what THEY returned
        if "bifurcations_alias" in res:
            out.append(("gwraptree op=bifurcations " + a, gen.ints(res["bifurcations_alias"]).replace("_", "")))
        for i, v in res.get("node_isbif", {}).items():
            if t["n"] <= 400 or int(i) < 3:
                out.append((f"gwraptree op=isbif {a} node={i}", "T" if v else "F"))
        if t["n"] <= 1500:
            out.append(("gpaths " + a, sl(res["paths"])))       # the association-list dictionary of the generated code is quadratic
        # Tree.get_tips / Tree.Node.branch / the node-handle methods as generated on this run (Gen/AlgoNodeBranch.lean, Gen/AlgoNode.lean);
        # get_tips is compared in the order the method returns (not sorted)
        b = f"pids={gen.ints(t['pids'])}"
        ii = lambda l: gen.ints(l).replace("_", "")
        if t["n"] <= 1500:                                       # `x in pids` per node: quadratic
            out.append(("gtips " + b, ii(res["tips"])))
        # BranchTree.from_tree as generated on this run (on the generated get_branches / to_sub_topology), and its hand-written model;
        # the dictionary is compared in insertion order
        bt = res.get("bt_topo")
        if bt is not None and t["n"] <= 1500:
            if "exc" in bt:
                out += [("gbrtable " + b, "E"), ("brtree " + b, "E")]
            else:
                tail = (f"pid={ii(bt['pid'])} / src={ii(bt['src'])} / br=" + "|".join(f"{k}:{sl(v)}" for k, v in bt["branches"]))
                out += [("gbrtable " + b, f"n={len(bt['id'])} id={ii(bt['id'])} / " + tail), ("brtree " + b, tail)]
        for i, br in res["node_branch"].items():
            if t["n"] <= 400 or int(i) < 3:
                out.append((f"gnodebranch {b} node={i}", ii(br)))
        for i, d in res.get("node_info", {}).items():
            if t["n"] <= 400 or int(i) < 3:
                out.append((f"gnode {b} node={i}", f"parent={'N' if d['parent'] is None else d['parent']} children={ii(d['children'])} "
                                                   f"root={int(d['root'])} furc={int(d['furc'])} tip={int(d['tip'])}"))
        return out

    def oracle(self, case, res):
        try:
            return self._oracle(case, res)
        except Exception as e:  # noqa: BLE001 - an output the clauses cannot even be evaluated on (wrong sizes, None, ids out of range) is not a decomposition
            return [("malformed-output", f"pids={case['tree']['pids'] if case['tree']['n'] <= 40 else '…'}: the outputs cannot be judged ({type(e).__name__}: {str(e)[:160]})")]

    def _oracle(self, case, res):
        t = case["tree"]
        if "exc" in res:
            return [("decomp-raises", f"{res['exc']}: {res.get('msg')}")]
        t = dict(t); t["pids"] = res["pids_eff"]; t["xyz"] = res["xyz_eff"]; t["n"] = len(res["pids_eff"])
        pids, n = t["pids"], t["n"]
        kids = kids_of(pids)
        nk = lambda i: len(kids.get(i, []))
        out = []
        edges = sorted((pids[i], i) for i in range(n) if pids[i] >= 0)
        got = sorted((b[k], b[k + 1]) for b in res["branches"] for k in range(len(b) - 1))
        if got != edges:
            missing = [e for e in edges if e not in got]
            extra = [e for e in got if e not in edges or got.count(e) > 1]
            cls = "stem-missing" if missing and nk(0) == 1 else "partition"
            out.append((f"branches-{cls}", f"pids={pids}: branches {res['branches']} miss edges {missing[:5]} / extra or repeated {extra[:5]}"))
        for b in res["branches"]:
            if len(b) < 2:
                out.append(("branch-shape", f"branch {b} has fewer than two nodes")); break
            if not (b[0] == 0 or nk(b[0]) >= 2) or not (nk(b[-1]) >= 2 or nk(b[-1]) == 0) or any(nk(x) != 1 for x in b[1:-1]):
                out.append(("branch-shape", f"pids={pids}: branch {b} does not run root/furcation → furcation/tip through pass-through nodes")); break
        tips = sorted(i for i in range(n) if nk(i) == 0)
        furc = sorted(i for i in range(n) if nk(i) >= 2)
        if sorted(res["tips"]) != tips:
            out.append(("tips", f"tips {res['tips']} ≠ childless nodes {tips}"))
        if sorted(res["furcations"]) != furc:
            out.append(("furcations", f"furcations {res['furcations']} ≠ nodes with ≥2 children {furc}"))
        ends = sorted(p[-1] for p in res["paths"])
        if ends != tips:
            out.append(("paths", f"path ends {ends} ≠ tips {tips}"))
        for p in res["paths"]:
            if p[0] != 0 or any(pids[p[k + 1]] != p[k] for k in range(len(p) - 1)):
                out.append(("paths", f"path {p} is not a root-to-tip parent chain")); break
        # branch tree
        bt = res["bt"]
        want_nodes = sorted({0} | set(furc) | set(tips))
        if "exc" in bt:
            out.append(("branchtree-raises" + ("/stem" if nk(0) == 1 else ""), f"pids={pids}: BranchTree.from_tree raised {bt['exc']}: {bt['msg']}"))
        else:
            xyz = t["xyz"]
            pos = sorted(tuple(p) for p in bt["xyz"])
            if pos != sorted(tuple(float(c) for c in xyz[i]) for i in want_nodes):
                out.append(("branchtree-nodes", f"pids={pids}: branch tree has {len(pos)} nodes, expected root+furcations+tips = {want_nodes}"))
            else:
                # edges: child's parent position = head of the branch ending at the child
                head, head_of = {}, {}
                for i in want_nodes:
                    j = i
                    if i == 0:
                        continue
                    j = pids[i]
                    while j != 0 and nk(j) == 1:
                        j = pids[j]
                    head[tuple(float(c) for c in xyz[i])] = tuple(float(c) for c in xyz[j])
                    head_of[i] = j
                distinct = len(set(head)) == len(want_nodes) - 1 and tuple(float(c) for c in xyz[0]) not in head
                if not distinct:
                    # coincident points: a node is not identified by its position; the joins are compared as a multiset of
                    # (position of the node, position of the node it hangs from)
                    want_j = sorted((tuple(float(c) for c in xyz[i]), tuple(float(c) for c in xyz[head_of[i]])) for i in want_nodes if i != 0)
                    got_j = sorted((tuple(bt["xyz"][k]), tuple(bt["xyz"][p])) for k, p in enumerate(bt["pid"]) if 0 <= p < len(bt["xyz"]))
                    roots = [k for k, p in enumerate(bt["pid"]) if p == -1]
                    if len(roots) != 1 or tuple(bt["xyz"][roots[0]]) != tuple(float(c) for c in xyz[0]):
                        out.append(("branchtree-edges", f"pids={pids}: the branch tree's root rows {roots} are not exactly the tree's root"))
                    elif got_j != want_j:
                        out.append(("branchtree-edges", f"pids={pids}: the branch tree's nodes are not joined as the branches join root, furcations and tips"))
                for k, p in enumerate(bt["pid"] if distinct else []):
                    me = tuple(bt["xyz"][k])
                    if p == -1:
                        if me != tuple(float(c) for c in xyz[0]):
                            out.append(("branchtree-edges", "root of the branch tree is not the tree's root"))
                        continue
                    if head.get(me) != tuple(bt["xyz"][p]):
                        out.append(("branchtree-edges", f"pids={pids}: branch-tree node at {me} hangs from {bt['xyz'][p]}, expected {head.get(me)}")); break
                stored = sorted(tuple(tuple(r) for r in b) for v in bt["branches"].values() for b in v)
                want = sorted(tuple(tuple(float(c) for c in xyz[i]) for i in b) for b in res["branches"])
                if stored != want:
                    out.append(("branchtree-points", "the branch tree does not remember exactly the original branches' points"))
        if sorted(res.get("bifurcations_alias", res["furcations"])) != furc:
            out.append(("furcations", f"get_bifurcations() {res['bifurcations_alias']} ≠ nodes with ≥2 children {furc}"))
        if "longest" in res:
            P = np.array(t["xyz"], dtype=np.float64)
            def plen(ids):
                a = np.asarray(ids, dtype=np.int64)
                return float(np.linalg.norm(P[a[1:]] - P[a[:-1]], axis=1).sum())

            best = max(plen(p_) for p_ in res["paths"])
            L = res["longest"]
            if L["ids"] not in res["paths"] or abs(plen(L["ids"]) - best) > 1e-4 * max(1.0, best) or abs(L["length"] - best) > 1e-4 * max(1.0, best):
                out.append(("longest-path", f"ToLongestPath gives {L['ids']} of length {L['length']}; the longest root-to-tip path has length {best} (pids={pids})"))
            if res["longest_detached_xyz"] != [[float(c) for c in t["xyz"][i]] for i in L["ids"]]:
                out.append(("longest-path", "the detached longest path does not carry the positions of the path's nodes"))
        if "tb_exc" in res and "exc" not in res["bt"]:
            out.append(("branchtree-raises", f"ToBranchTree / get_origin_branches raised {res['tb_exc']}"))
        if "origin_branches" in res:
            xyz_ = t["xyz"]
            want = sorted([[float(c) for c in xyz_[i]] for i in b] for b in res["branches"])
            if res["origin_branches"] != want or not res.get("tb_same", True):
                out.append(("branchtree-points", f"pids={pids}: get_origin_branches() does not return exactly the tree's branches"))
            allb = sorted(b for v in res.get("origin_node_branches", {}).values() for b in v)
            if "origin_node_branches" in res and allb != want:
                out.append(("branchtree-points", f"pids={pids}: the branches filed under the branch tree's nodes are not exactly the tree's branches"))
        # Node.branch(): contains the node, is one of the branches (or the one-node branch of a furcation/lonely root)
        for i, b in res["node_branch"].items():
            i = int(i)
            if i not in b:
                out.append(("node-branch", f"node {i}.branch() = {b} does not contain the node")); break
            if nk(i) >= 2:
                want = [i]                       # a furcation's own branch is the one-node branch (documented)
            else:
                own = [br for br in res["branches"] if i in br[1:]] or [br for br in res["branches"] if br[0] == i] or [[i]]
                want = own[0]
            if b != want:
                out.append(("node-branch", f"pids={pids}: node {i}.branch() = {b}, the branch of the decomposition through it is {want}")); break
        for i, (isf, ist) in res.get("node_flags", {}).items():
            i = int(i)
            if isf != (nk(i) >= 2) or ist != (nk(i) == 0):
                out.append(("node-flags", f"pids={pids}: node {i} has {nk(i)} children but is_furcation()={isf}, is_tip()={ist}")); break
        return out[:4]

    def nontrivial(self, case, res):
        return case["tree"]["n"] >= 3

    def klass(self, case, res):
        t = case["tree"]
        nk0 = sum(1 for p in t["pids"] if p == 0)
        if str(case.get("class", "")).startswith("zero-length-segments/"):
            return "/".join(case["class"].split("/")[:2])          # the family and its mode, so that the evidence shows its share
        return f"root-children={min(nk0, 3)}{'+' if nk0 > 3 else ''}"


# ---------------------------------------------------------------------------------------------------------------------------------
# "… and REMEMBERS each original branch's points": a multi-step family with state carried between calls.  The branch tree is built,
# THEN the caller goes on working with the source tree in place (public: tree.ndata[col], the array a column getter hands out, the
# Node setters), THEN the remembered branches are read.  What is remembered are the points the branches had when the branch tree
# was built; they must still join the branch tree's own nodes.

EDIT_OPS = ["shift-column", "scale-column", "rebind-column", "through-getter", "node-setter", "recentre-on-root", "several"]
BUILDERS = ["BranchTree.from_tree", "ToBranchTree"]
SOURCES = ["tree", "sorted-tree", "branch-tree"]          # the source tree itself: as constructed / out of sort_tree / a BranchTree (it IS a Tree)


def draw_edit(rng, op):
    """one in-place edit of the source tree, as JSON steps; amounts are small dyadic numbers (exact in float32 on the lattice inputs)"""
    col = lambda: rng.choice(["x", "y", "z"])
    amt = lambda: rng.choice([-1, 1]) * rng.choice([0.5, 1.0, 2.0, 3.0, 7.0, 16.0, 40.0])
    if op == "shift-column":
        return [{"op": "shift", "col": col(), "d": amt()}]
    if op == "scale-column":                              # a scaling leaves a column of zeros alone: always together with a shift of the same column
        c = col()
        return [{"op": "shift", "col": c, "d": amt()}, {"op": "scale", "col": c, "f": rng.choice([2.0, -1.0, 0.5, 4.0])}]
    if op == "rebind-column":
        return [{"op": "rebind", "col": col(), "d": amt()}]
    if op == "through-getter":
        return [{"op": "getter", "col": col(), "d": amt()}]
    if op == "node-setter":
        return [{"op": "node", "i": rng.randrange(10 ** 6), "col": col(), "d": amt()} for _ in range(rng.randint(1, 3))]
    if op == "recentre-on-root":                          # "centre on the soma"; the root may sit at the origin already: then moved first
        return [{"op": "shift", "col": col(), "d": amt()}, {"op": "recentre"}]
    return [s for o in rng.sample(EDIT_OPS[:-1], rng.randint(2, 3)) for s in draw_edit(rng, o)]


def apply_edit(t, steps):
    """the edit on the real tree, through public members only"""
    for s in steps:
        if s["op"] == "recentre":
            x0, y0, z0 = (float(v) for v in t.xyz()[0])
            t.ndata["x"] -= np.float32(x0); t.ndata["y"] -= np.float32(y0); t.ndata["z"] -= np.float32(z0)
        elif s["op"] == "shift":
            t.ndata[s["col"]] += np.float32(s["d"])
        elif s["op"] == "scale":
            t.ndata[s["col"]] *= np.float32(s["f"])
        elif s["op"] == "rebind":
            t.ndata[s["col"]] = t.ndata[s["col"]] + np.float32(s["d"])
        elif s["op"] == "getter":
            a = getattr(t, s["col"])()
            a += np.float32(s["d"])
        else:
            nd = t.node(s["i"] % t.number_of_nodes())
            setattr(nd, s["col"], float(getattr(nd, s["col"])) + s["d"])


def edit_points(xyz, steps):
    """the same edit on a plain table of points (float32 arithmetic, nothing of the library)"""
    P = np.array(xyz, dtype=np.float32).reshape(-1, 3)
    ci = {"x": 0, "y": 1, "z": 2}
    for s in steps:
        if s["op"] == "recentre":
            P = P - P[0].copy()
        elif s["op"] in ("shift", "rebind", "getter"):
            P[:, ci[s["col"]]] += np.float32(s["d"])
        elif s["op"] == "scale":
            P[:, ci[s["col"]]] *= np.float32(s["f"])
        else:
            P[s["i"] % len(P), ci[s["col"]]] += np.float32(s["d"])
    return P.astype(float).tolist()


def pts(b):
    return [[float(c) for c in row] for row in np.asarray(b.xyz()).reshape(-1, 3)]


class Remember(Suite):
    name = "c08.remember"

    def cases(self, rng, tier, widen):
        out = []
        reps = 2 if tier == "quick" and not widen else 8
        pool = [n for n in gen.sizes(tier, widen) if n <= 120]
        k = rng.randrange(len(gen.SHAPES))
        named = [[-1], [-1, 0], [-1, 0, 1, 2, 3], [-1, 0, 0], [-1, 0, 0, 0], [-1, 0, 1, 1], [-1, 0, 1, 1, 3, 3]]      # the shapes the property names
        for op in EDIT_OPS + ["untouched"]:
            for j in range(reps + len(named) // 3):
                if j < reps:
                    shape = gen.pick_shape(rng, k); k += 1
                    t = gen.tree_case(rng, rng.choice(pool), shape, numbering=rng.choice(["sorted", "root0"]), coords="lattice", types=rng.choice(["mixed", "anyroot"]))
                else:
                    pids = rng.choice(named); n = len(pids)
                    t = {"class": "named", "n": n, "pids": pids, "types": [rng.choice([1, 3])] + [3] * (n - 1),
                         "xyz": [[float(i), float((i * i) % 5), float(i % 2)] for i in range(n)], "r": [1.0] * n}
                steps = [] if op == "untouched" else draw_edit(rng, op)
                src = rng.choice(SOURCES) if t["n"] >= 3 and rng.random() < 0.4 else "tree"
                fam = "source-untouched" if op == "untouched" else f"source-edited-after-build/{op}"
                out.append({"class": f"{fam}/{t['class']}", "family": fam, "tree": t, "source": src, "builder": rng.choice(BUILDERS),
                            "edit": steps, "rebuild": rng.random() < 0.5})
        return out

    def run(self, case):
        from swcgeom.core import BranchTree
        from swcgeom.core.tree_utils import sort_tree
        from swcgeom.transforms import ToBranchTree

        res = {}
        stage = "building the source tree"
        try:
            t = gen.make_tree(case["tree"])
            if case["source"] == "sorted-tree":
                t = sort_tree(t)
            elif case["source"] == "branch-tree":
                t = BranchTree.from_tree(t)
            res["pids_eff"] = [int(p) for p in t.pid()]
            res["xyz_eff"] = t.xyz().astype(float).tolist()
            build = BranchTree.from_tree if case["builder"] == "BranchTree.from_tree" else ToBranchTree()
            read = lambda bt: {"pid": [int(p) for p in bt.pid()], "xyz": bt.xyz().astype(float).tolist(),
                               "origin": [pts(b) for b in bt.get_origin_branches()],
                               "by_node": {str(k): [pts(b) for b in bt.get_origin_node_branches(k)] for k in sorted(bt.branches.keys())},
                               "attr": {str(k): [pts(b) for b in v] for k, v in sorted(bt.branches.items())}}
            with warnings.catch_warnings():
                warnings.simplefilter("ignore")
                stage = f"{case['builder']}"
                bt = build(t)
                stage = "reading the remembered branches right after construction"
                res["first"] = read(bt)
                held = bt.get_origin_branches()                 # branch objects the caller keeps
                stage = "editing the source tree in place"
                apply_edit(t, case["edit"])
                res["xyz_src_after"] = t.xyz().astype(float).tolist()
                stage = "reading the remembered branches after the source tree was edited"
                res["later"] = read(bt)
                res["held"] = [pts(b) for b in held]
                if case.get("rebuild"):
                    stage = f"{case['builder']} on the edited source tree"
                    bt2 = build(t)
                    res["second"] = read(bt2)
                    res["later_again"] = read(bt)               # … and the first branch tree once more, now that a second one exists
        except Exception as e:  # noqa: BLE001 - every step is a public call the property covers (or a plain in-place edit of a column)
            return {"exc": type(e).__name__, "msg": f"{stage} raised: {str(e)[:160]}", "stage": stage}
        return res

    def oracle(self, case, res):
        try:
            return self._oracle(case, res)
        except Exception as e:  # noqa: BLE001
            return [("malformed-output", f"pids={case['tree']['pids'] if case['tree']['n'] <= 40 else '…'}: the outputs cannot be judged ({type(e).__name__}: {str(e)[:160]})")]

    @staticmethod
    def judge(pids, xyz, rd, when):
        """the branch-tree clauses of the property on one read-out `rd`, against the tree (pids, xyz) the branch tree was built from"""
        n = len(pids)
        kids = kids_of(pids)
        nk = lambda i: len(kids.get(i, []))
        P = lambda i: tuple(float(c) for c in xyz[i])
        want = []                                           # the branches, bottom-up from every tip / furcation (independent of get_branches)
        for i in range(1, n):
            if nk(i) != 1:
                b, j = [i], pids[i]
                while j != 0 and nk(j) == 1:
                    b.append(j); j = pids[j]
                b.append(j)
                want.append(tuple(P(v) for v in reversed(b)))
        want.sort()
        tup = lambda bs: sorted(tuple(tuple(float(c) for c in row) for row in b) for b in bs)
        out = []
        for how, got in (("get_origin_branches()", tup(rd["origin"])), ("get_origin_node_branches(k) over all k", tup(b for v in rd["by_node"].values() for b in v)),
                         (".branches", tup(b for v in rd["attr"].values() for b in v))):
            if got != want:
                ws = set(want)
                bad = [b for b in got if b not in ws][:1]
                out.append((f"branchtree-points{when[0]}", f"pids={pids if n <= 40 else '…'}: {when[1]} {how} gives {len(got)} branches that are not exactly the points of the "
                                                          f"{len(want)} original branches (e.g. {bad[0][:3] if bad else 'one is missing'})"))
                break
        # the branch tree's own nodes: root, furcations and tips of the tree it was built from, and the remembered branches join them
        nodes = sorted(P(i) for i in range(n) if i == 0 or nk(i) != 1)
        if sorted(tuple(p) for p in rd["xyz"]) != nodes:
            out.append((f"branchtree-nodes{when[0]}", f"pids={pids if n <= 40 else '…'}: {when[1]} the branch tree's nodes are not at the positions of root, furcations and tips of the tree it was built from"))
        else:
            ch = {}
            for k_, p in enumerate(rd["pid"]):
                ch.setdefault(p, []).append(tuple(rd["xyz"][k_]))
            for k_, brs in rd["by_node"].items():
                k_ = int(k_)
                ends = sorted(tuple(b[-1]) for b in brs)
                if any(tuple(b[0]) != tuple(rd["xyz"][k_]) for b in brs) or ends != sorted(ch.get(k_, [])):
                    out.append((f"branchtree-points{when[0]}", f"pids={pids if n <= 40 else '…'}: {when[1]} the branches remembered at branch-tree node {k_} do not join it to its children"))
                    break
        return out

    def _oracle(self, case, res):
        if "exc" in res:
            # building / reading the branch tree must succeed on every tree; the plain column edit and the source derivation are not C08's
            st = str(res.get("stage", ""))
            return [] if st.startswith(("building the source", "editing the source")) else [("branchtree-raises", f"{res['exc']}: {res.get('msg')}")]
        pids, xyz0 = res["pids_eff"], res["xyz_eff"]
        out = self.judge(pids, xyz0, res["first"], ("", "right after construction"))
        edited = bool(case["edit"])
        sfx = "/after-source-edit" if edited else "/read-again"
        txt = "after the source tree was edited in place" if edited else "on the second reading"
        out += self.judge(pids, xyz0, res["later"], (sfx, txt))
        want_held = sorted(tuple(tuple(float(c) for c in r) for r in b) for b in res["first"]["origin"])
        if sorted(tuple(tuple(float(c) for c in r) for r in b) for b in res["held"]) != want_held:
            out.append((f"branchtree-points{sfx}", f"pids={pids if len(pids) <= 40 else '…'}: the branch objects handed out by get_origin_branches() changed their points {txt}"))
        if "second" in res:
            xyz1 = edit_points(xyz0, case["edit"])
            if res["xyz_src_after"] == xyz1:                  # (the edit itself is not under test; the clause needs to know the source's points)
                out += self.judge(pids, xyz1, res["second"], ("/second-branch-tree", "a branch tree built from the edited source tree:"))
            out += self.judge(pids, xyz0, res["later_again"], (sfx, txt + ", with a second branch tree built,"))
        seen, uniq = set(), []
        for k_, m in out:
            if k_ not in seen:
                seen.add(k_); uniq.append((k_, m))
        return uniq[:4]

    def nontrivial(self, case, res):
        return case["tree"]["n"] >= 3 and bool(case["edit"])

    def klass(self, case, res):
        return case.get("family", "-")


# ---------------------------------------------------------------------------------------------------------------------------------
# ONE transform object applied to SEVERAL trees in a row (how a transform is used in a Transforms pipeline / a dataset: built once,
# called per tree).  The property is stated per tree: what ToLongestPath / ToBranchTree return for a tree is a matter of that tree,
# whatever the same object was asked before.  The family is ordered by what came before: the longest root-to-tip path of the
# trees falls / rises / is mixed along the sequence, or the same tree comes twice.

REUSE_ORDERS = ["longest-path-decreasing", "longest-path-increasing", "shuffled", "same-tree-again", "large-then-small"]


def longest_of(pids, xyz):
    """length of the longest root-to-tip path, from the parent table and the points alone (parents may come after children)"""
    n = len(pids)
    d = [None] * n
    for i in range(n):
        chain, j = [], i
        while d[j] is None and pids[j] >= 0:
            chain.append(j); j = pids[j]
        if d[j] is None:
            d[j] = 0.0
        for v in reversed(chain):
            d[v] = d[pids[v]] + float(np.linalg.norm(np.array(xyz[v], dtype=np.float64) - np.array(xyz[pids[v]], dtype=np.float64)))
    has_kid = set(pids)
    return max(d[i] for i in range(n) if i not in has_kid or n == 1)


class Reuse(Suite):
    name = "c08.reuse"

    def cases(self, rng, tier, widen):
        out = []
        reps = 3 if tier == "quick" and not widen else 10
        pool = [n for n in gen.sizes(tier, widen) if 2 <= n <= 120]
        k = rng.randrange(len(gen.SHAPES))
        for order in REUSE_ORDERS:
            for _ in range(reps):
                trees = []
                for _j in range(rng.randint(2, 4)):
                    shape = gen.pick_shape(rng, k); k += 1
                    if shape in ("single",):
                        shape = rng.choice(["chain", "stem", "random", "binary", "star"])
                    trees.append(gen.tree_case(rng, rng.choice(pool), shape, numbering=rng.choice(["sorted", "root0"]), coords="lattice",
                                               types=rng.choice(["mixed", "anyroot"])))
                key = lambda t: longest_of(t["pids"], t["xyz"])
                if order == "longest-path-decreasing":
                    trees.sort(key=key, reverse=True)
                elif order == "longest-path-increasing":
                    trees.sort(key=key)
                elif order == "same-tree-again":
                    trees = trees[:2] + [trees[0]]
                elif order == "large-then-small":
                    trees.sort(key=lambda t: t["n"], reverse=True)
                out.append({"class": f"one-transform-object-many-trees/{order}", "family": f"one-transform-object-many-trees/{order}", "trees": trees,
                            "via": rng.choice(["direct", "pipeline"]), "tree": trees[0]})
        return out

    def run(self, case):
        from swcgeom.transforms import ToBranchTree, ToLongestPath, Transforms

        wrap = (lambda f: Transforms(f)) if case["via"] == "pipeline" else (lambda f: f)
        f_keep, f_det, f_bt = wrap(ToLongestPath(detach=False)), wrap(ToLongestPath()), wrap(ToBranchTree())
        seq = []
        with warnings.catch_warnings():
            warnings.simplefilter("ignore")
            for tc in case["trees"]:
                t = gen.make_tree(tc)
                one = {}
                try:
                    lp = f_keep(t)
                    one["longest"] = {"ids": [int(v) for v in lp.get_ndata(lp.names.id)], "length": float(lp.length())}
                    one["detached_xyz"] = np.asarray(f_det(t).xyz()).astype(float).tolist()
                except Exception as e:  # noqa: BLE001 - the property promises the longest path of every tree
                    one["longest_exc"] = f"{type(e).__name__}: {e}"[:200]
                try:
                    bt = f_bt(t)
                    one["bt"] = {"pid": [int(p) for p in bt.pid()], "xyz": bt.xyz().astype(float).tolist(),
                                 "origin": [pts(b) for b in bt.get_origin_branches()],
                                 "by_node": {str(k): [pts(b) for b in bt.get_origin_node_branches(k)] for k in sorted(bt.branches.keys())},
                                 "attr": {str(k): [pts(b) for b in v] for k, v in sorted(bt.branches.items())}}
                except Exception as e:  # noqa: BLE001
                    one["bt_exc"] = f"{type(e).__name__}: {e}"[:200]
                seq.append(one)
        return {"seq": seq}

    def oracle(self, case, res):
        try:
            return self._oracle(case, res)
        except Exception as e:  # noqa: BLE001
            return [("malformed-output", f"the outputs cannot be judged ({type(e).__name__}: {str(e)[:160]})")]

    def _oracle(self, case, res):
        if "exc" in res:
            return [("decomp-raises", f"{res['exc']}: {res.get('msg')}")]
        out = []
        for j, (tc, one) in enumerate(zip(case["trees"], res["seq"])):
            pids, xyz, n = tc["pids"], tc["xyz"], tc["n"]
            where = f"tree {j + 1} of {len(case['trees'])} given to the same transform object (pids={pids if n <= 40 else '…'})"
            if "longest_exc" in one:
                out.append(("longest-path-raises/transform-reused", f"{where}: ToLongestPath raised {one['longest_exc']}"))
            else:
                L, best = one["longest"], longest_of(pids, xyz)
                ids = L["ids"]
                P = np.array(xyz, dtype=np.float64)
                chain = len(ids) >= 1 and ids[0] == 0 and all(0 <= v < n for v in ids) and all(pids[ids[q + 1]] == ids[q] for q in range(len(ids) - 1)) \
                    and ids[-1] not in set(pids)
                ln = float(np.linalg.norm(P[ids[1:]] - P[ids[:-1]], axis=1).sum()) if chain else -1.0
                tol = 1e-4 * max(1.0, best)
                if not chain or abs(ln - best) > tol or abs(L["length"] - best) > tol:
                    out.append(("longest-path/transform-reused", f"{where}: ToLongestPath gives {ids} of length {L['length']}; it is "
                                f"{'not a root-to-tip path' if not chain else 'not the longest one'} (the longest root-to-tip path has length {best})"))
                elif one["detached_xyz"] != [[float(c) for c in xyz[i]] for i in ids] and \
                        abs(float(np.linalg.norm(np.diff(np.array(one["detached_xyz"], dtype=np.float64).reshape(-1, 3), axis=0), axis=1).sum()) - best) > tol:
                    out.append(("longest-path/transform-reused", f"{where}: the detached longest path does not carry the positions of a longest root-to-tip path"))
            if "bt_exc" in one:
                out.append(("branchtree-raises/transform-reused", f"{where}: ToBranchTree raised {one['bt_exc']}"))
            else:
                out += [(k_ + "/transform-reused", m) for k_, m in Remember.judge(pids, [[float(c) for c in p] for p in xyz], one["bt"], ("", where + ":"))]
        seen, uniq = set(), []
        for k_, m in out:
            if k_ not in seen:
                seen.add(k_); uniq.append((k_, m))
        return uniq[:4]

    def nontrivial(self, case, res):
        return len(case["trees"]) >= 2 and all(t["n"] >= 3 for t in case["trees"])

    def klass(self, case, res):
        return case.get("family", "-")


# ---------------------------------------------------------------------------------------------------------------------------------
# LARGE trees ("for all trees"): a whole-cell reconstruction has 10^4..10^5 sample points.  The scale is taken from the widths of
# the integer types ids live in, not from any implementation: more branch-tree nodes than a 16-bit id counts (2**16), so that a
# product of two ids / of an id and the node count no longer fits 32 bits; between sqrt(2**31) and 2**16 (such a product passes
# the sign bit of 32 bits only); 2**17.  Shapes: a neurite giving off side twigs level after level (furcations of high fan-out,
# the continuing child first / last / anywhere among its siblings), k-ary trees, random recursive trees.  Only the branch-level
# statements are observed here (branches, tips, furcations, the branch tree and what it remembers): the per-node listings of the
# other suites are quadratic on such trees.  The case stores the DESCRIPTION of the tree (shape, parameters, generator seed).

def large_pids(d):
    rng = __import__("random").Random(d["seed"])
    if d["shape"] == "comb":
        pids = comb_pids(rng, d["levels"], d["spine"], d["twig"], d["fan"])
    elif d["shape"] == "k-ary":
        pids = [-1] + [(i - 1) // d["k"] for i in range(1, d["n"])]
    else:                                               # random recursive tree, the parent among the `window` nodes before
        pids = [-1] + [rng.randrange(max(0, i - d["window"]), i) for i in range(1, d["n"])]
    return gen.renumber_root0(rng, pids) if d.get("renumber") else pids


def large_xyz(d, n):
    i = np.arange(n, dtype=np.int64)
    return np.stack([i % 4096, i // 4096, (d["a"] * i) % 11], axis=1).astype(np.float32)      # distinct lattice points, exact in float32


def large_desc(rng, shape, target, **kw):
    d = {"shape": shape, "seed": rng.randrange(10 ** 9), "a": rng.randint(2, 9), "target": target}
    want = target + rng.randint(target // 32, target // 8)         # branch-tree nodes: beyond the boundary by 3 .. 12 %
    if shape == "comb":
        levels = kw.get("levels") or rng.randint(800, 2500)
        d.update(levels=levels, spine=kw.get("spine", "random"), twig=kw.get("twig", 1), fan=-(-want // levels) + 1)
    elif shape == "k-ary":
        k = kw.get("k", 2)
        d.update(k=k, n=want + (1 - want % k) % k)                 # n ≡ 1 (mod k): every inner node has k children
    else:
        d.update(n=2 * want, window=kw.get("window", 50))
    d.update(renumber=bool(kw.get("renumber")))
    return d


BOUNDS = {"2^16": 2 ** 16, "sqrt(2^31)": 46341, "2^17": 2 ** 17, "2^15": 2 ** 15}


class Large(Suite):
    name = "c08.large"
    case_timeout = 300.0
    repeat = 0

    def cases(self, rng, tier, widen):
        plan = [("comb", "2^16", {"spine": "random"})]       # quick: ONE member beyond 2**16 (levels, fan-out, where the neurite carries on: drawn)
        if tier == "thorough" or widen:
            plan += [("comb", "2^16", {"spine": "first"}), ("comb", "2^16", {"spine": "last", "twig": 2}), ("comb", "sqrt(2^31)", {"spine": "random"}),
                     ("k-ary", "2^16", {"k": rng.choice([2, 3])}), ("random", "2^16", {"window": rng.choice([5, 50, 10 ** 6])}),
                     ("comb", "2^17", {"spine": "random", "levels": rng.randint(300, 800)}), ("comb", "2^15", {"spine": "random", "renumber": True})]
        out = []
        for shape, b, kw in plan:
            d = large_desc(rng, shape, BOUNDS[b], **kw)
            fam = f"large/branch-tree-nodes-beyond-{b}/{shape}" + (f"/spine-{d['spine']}" if shape == "comb" else "")
            out.append({"class": fam, "family": fam, "desc": d, "builder": rng.choice(BUILDERS), "big": True})
        return out

    def run(self, case):
        from swcgeom.core import BranchTree, Tree
        from swcgeom.transforms import ToBranchTree

        d = case["desc"]
        pids = large_pids(d)
        n = len(pids)
        P = large_xyz(d, n)
        t = Tree(n, id=np.arange(n, dtype=np.int32), pid=np.array(pids, dtype=np.int32), type=np.array([1] + [3] * (n - 1), dtype=np.int32),
                 x=P[:, 0].copy(), y=P[:, 1].copy(), z=P[:, 2].copy(), r=np.ones(n, dtype=np.float32))
        stage = "Tree.get_branches()"
        try:
            res = {"n": n, "branches": [b.origin_id().tolist() for b in t.get_branches()]}
            stage = "Tree.get_tips() / get_furcations()"
            res["tips"] = [int(v.id) for v in t.get_tips()]
            res["furcations"] = [int(v.id) for v in t.get_furcations()]
            stage = case["builder"]
            with warnings.catch_warnings():
                warnings.simplefilter("ignore")
                bt = BranchTree.from_tree(t) if case["builder"] == "BranchTree.from_tree" else ToBranchTree()(t)
            stage = "reading the remembered branches"
            memo = {}

            def rd(b):                                   # one conversion per branch object, however many times it is handed out
                if id(b) not in memo:
                    memo[id(b)] = (b, np.asarray(b.xyz(), dtype=np.float64).reshape(-1, 3).tolist())
                return memo[id(b)][1]
            res["bt"] = {"pid": bt.pid().tolist(), "xyz": bt.xyz().astype(float).tolist(), "origin": [rd(b) for b in bt.get_origin_branches()],
                         "by_node": {str(k): [rd(b) for b in bt.get_origin_node_branches(k)] for k in sorted(bt.branches.keys())},
                         "attr": {str(k): [rd(b) for b in v] for k, v in sorted(bt.branches.items())}}
        except Exception as e:  # noqa: BLE001 - the property promises a decomposition / a branch tree of every tree
            return {"exc": type(e).__name__, "msg": f"{stage} raised on a tree of {n} nodes: {str(e)[:160]}", "stage": stage}
        return res

    def oracle(self, case, res):
        try:
            return self._oracle(case, res)
        except Exception as e:  # noqa: BLE001
            return [("malformed-output", f"tree {case['desc']}: the outputs cannot be judged ({type(e).__name__}: {str(e)[:160]})")]

    def _oracle(self, case, res):
        d = case["desc"]
        if "exc" in res:
            return [("branchtree-raises/large" if res.get("stage") in BUILDERS + ["reading the remembered branches"] else "decomp-raises/large", f"{res['exc']}: {res.get('msg')} ({d})")]
        pids = large_pids(d)
        n = len(pids)
        nkid = np.bincount(np.array(pids[1:], dtype=np.int64), minlength=n) if n > 1 else np.zeros(1, dtype=np.int64)
        out = []
        edges = {(pids[i], i) for i in range(1, n)}
        got = [(b[k], b[k + 1]) for b in res["branches"] for k in range(len(b) - 1)]
        if len(got) != len(edges) or set(got) != edges:
            out.append(("branches-partition/large", f"tree {d} ({n} nodes): the branches hold {len(got)} edges ({len(set(got))} distinct), the tree has {len(edges)}; "
                        f"e.g. missing {sorted(edges - set(got))[:3]}"))
        for b in res["branches"]:
            if len(b) < 2 or not (b[0] == 0 or nkid[b[0]] >= 2) or nkid[b[-1]] == 1 or any(nkid[v] != 1 for v in b[1:-1]):
                out.append(("branch-shape/large", f"tree {d}: branch {b[:6]}… does not run root/furcation → furcation/tip through pass-through nodes")); break
        if sorted(res["tips"]) != np.flatnonzero(nkid == 0).tolist():
            out.append(("tips/large", f"tree {d}: get_tips() gives {len(res['tips'])} nodes, the tree has {int((nkid == 0).sum())} childless nodes"))
        if sorted(res["furcations"]) != np.flatnonzero(nkid >= 2).tolist():
            out.append(("furcations/large", f"tree {d}: get_furcations() gives {len(res['furcations'])} nodes, {int((nkid >= 2).sum())} have two or more children"))
        xyz = large_xyz(d, n).astype(float).tolist()
        out += [(k_ + "/large", f"tree {d} ({n} nodes): " + m) for k_, m in Remember.judge(pids, xyz, res["bt"], ("", f"{case['builder']}:"))]
        seen, uniq = set(), []
        for k_, m in out:
            if k_ not in seen:
                seen.add(k_); uniq.append((k_, m))
        return uniq[:4]

    def nontrivial(self, case, res):
        return True

    def klass(self, case, res):
        return case.get("family", "-")


SUITES = [Decomp(), Remember(), Reuse(), Large()]
TECHNIQUE = "Lean 4 theorems by structural induction on Rose about the traversal callbacks of get_branches/get_paths/get_furcations (edge partition as a permutation, branch shape, one path per tip); Tree.get_branches / get_furcations / get_paths and their closures are TRANSLATED from tree.py on every run (harness/translate_algo.py → Gen/AlgoBranches.lean, running on the translated _traverse_dfs) and get_branches / get_furcations proved equal to the structural recursions of these theorems (RefineBranches.getBranches_refines, getFurcations_refines; closures of get_paths: callback-level equalities) + differential correspondence + direct oracle of the decomposition"
LEVEL_TEXT = ("Kernel-checked for every tree shape: the branches returned by the model of get_branches (incl. the stem of a one-child root) list every "
              "parent–child edge exactly once, start at the root or a furcation, end at a furcation or tip and pass only through one-child nodes; one path per tip; "
              "tips/furcations are the childless / multi-child nodes; the branch tree keeps exactly root, furcations and tips.")
LEVEL_NOTE = "Trusted: Lean kernel; the imperative translator and its semantics library Model/Py.lean (a Node is its id, a Tree.Branch the list of its node ids; cross-checked by running the generated methods); get_paths as a whole tied by correspondence; BranchTree.from_tree is translated at the topology level (Gen/AlgoBranchTree.lean; glue: the per-column gather by id_map, the constructor call, br.detach() — design_notes/session4/branchtree.md) and proved equal to Model/BranchTree.lean on every tree; numpy setdiff1d / nonzero / fancy indexing."

