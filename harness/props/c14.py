"""C14 — tree volume is the volume of the union of node spheres and connecting frusta."""
import math

import numpy as np

from harness import gen
from harness.framework import Suite

PID = "C14"
TRANSLATE = True
TRANSLATE_ALGO = ["AlgoTraverse", "AlgoTravFront", "AlgoVolume", "AlgoVolFront"]     # harness/algo_specs/14_voltrav.py: _get_volume_frustum_cone with its `leave` closure
DRIVER_FILES = ["SwcVerif/Model/AlgoRunVolume.lean", "SwcVerif/Model/AlgoRunVolFront.lean"]
LEAN_MODS = ["SwcVerif.Props.C14", "SwcVerif.Props.C14Gen", "SwcVerif.Props.C14Front"]
THEOREMS = [
    "C14.tree_volume_eq_sum", "C14.level1_every_tree", "C14.level2_every_tree", "C14.level3_every_tree", "C14.level5_every_tree",
    "C14.node_level1", "C14.node_level2", "C14.node_level3", "C14.node_level5",
    # the traversal around the per-node arithmetic, generated from _get_volume_frustum_cone on this run (Gen/AlgoVolume.lean) and proved equal to the model
    "RefineVolume.vol_leave_eq", "RefineVolume.spec_vol_leave", "RefineVolume.getVolume_refines", "RefineVolume.getVolume_level10",
    "C14.generated_volume_eq_model", "C14.generated_level1_every_tree", "C14.generated_level2_every_tree", "C14.generated_level3_every_tree",
    "C14.generated_volume_every_tree",
    # get_volume itself (accuracy / method validation, the accuracy names, the dispatch) and the Monte-Carlo-only scene, generated on this run
    # (Gen/AlgoVolFront.lean, harness/algo_specs/14b_volfront.py)
    "RefineVolFront.get_volume_int_eq", "RefineVolFront.get_volume_str_eq", "RefineVolFront.accuracy_names", "RefineVolFront.mc_leave_eq",
    "RefineVolFront.spec_mc_leave", "RefineVolFront.mc_only_refines", "RefineVolFront.mc_only_empty",
    "C14.get_volume_eq_model", "C14.get_volume_every_tree", "C14.get_volume_level1_every_tree", "C14.get_volume_level2_every_tree",
    "C14.get_volume_level3_every_tree", "C14.get_volume_names", "C14.get_volume_level10",
    # the dispatch layer of utils/volumetric_object.py (which composite is built, inclusion–exclusion at the union nodes, closed form vs Monte
    # Carlo at the sphere-frustum intersection, the get_volume cache)
    "RefineVolFront.class_facts", "RefineVolFront.sdf_ops_eq", "RefineVolFront.sdf_union_foreign", "RefineVolFront.sphere_union_eq",
    "RefineVolFront.sphere_intersect_eq", "RefineVolFront.frustum_ops_eq", "RefineVolFront.union_get_volume_eq", "RefineVolFront.sfi_get_volume_eq",
    "RefineVolFront.obj_get_volume_eq", "RefineVolFront.leave_intersection_closed_form",
    "C14.chain_union", "C14.chain_hyps_of_pairwise", "C14.sum_chainRose", "C14.chain_volume_is_union", "C14.two_arm_volume_is_union", "C14.lens_inside_frustum",
]
TRUSTED = ["translator (Gen/VolumeTerms.lean: the per-node inclusion–exclusion terms and their accuracy levels, regenerated from analysis/volume.py)",
           "disc method for the true union volume of collinear trees (profile = max of the parts' profiles)",
           "glue of harness/algo_specs/14b_volfront.py (every key is exact source text; listed in design_notes/session4/volfront.md): the sdflit "
           "scene of _get_volume_frustum_cone_mc_only is the list of the shapes added to it and its sampling the parameter `mcScene`; volumetric "
           "objects are immutable terms (class name, obj1, obj2), `x.get_volume()` of an operand / the closed forms / the four np.allclose tests / "
           "VolMCObject._get_volume are parameters; VolObject.get_volume is the instantiation without keyword arguments"]
ASSUMPTIONS = [
    "the traversal that accumulates `volume += v` is C04's machine (theorem C04.traverse_eq_spec)",
    "accuracy level 10: the theorem is about WHICH scene is sampled (C14.get_volume_level10), not about the sampler; the Monte-Carlo cone-pair term at level >= 5 on trees outside the stated class is outside the theorem",
    "float32 node data: values compared with relative tolerance 2e-5",
]


def collinear_case(rng, kind, n):
    """positions along the x axis; spacing d_i >= max(r_i, r_{i+1}); non-adjacent parts do not touch"""
    def arm(m):
        rs = [rng.randint(2, 24) / 8 for _ in range(m + 1)]
        xs = [0.0]
        for i in range(m):
            lo = max(rs[i], rs[i + 1])
            mode = rng.choice(["min", "overlap", "apart", "tangent"])
            if mode == "min":
                d = lo
            elif mode == "overlap":
                d = lo + rng.random() * max(0.0, rs[i] + rs[i + 1] - lo) * 0.9
            elif mode == "tangent":
                d = rs[i] + rs[i + 1]
            else:
                d = rs[i] + rs[i + 1] + rng.randint(1, 16) / 8
            # keep the numbers exactly representable
            d = math.ceil(d * 64) / 64 + (1 / 64 if mode != "min" else 0)
            xs.append(xs[-1] + d)
        return xs, rs

    if kind == "chain":
        xs, rs = arm(n - 1)
        pids = [-1] + list(range(n - 1))
    else:  # two arms on opposite sides of the root
        m1 = max(1, (n - 1) // 2)
        m2 = max(1, n - 1 - m1)
        xa, ra = arm(m1)
        xb, rb = arm(m2)
        if kind == "arms-mirror":            # the second arm is the mirror image of (the beginning of) the first one
            k = min(len(xa), len(xb))
            xb[:k], rb[:k] = xa[:k], ra[:k]
            for j in range(k, len(xb)):
                xb[j] = max(xb[j], xb[j - 1] + max(rb[j - 1], rb[j]) + 1 / 8)
        rb[0] = ra[0]
        # second arm's first spacing must respect the root radius
        if xb[1] < max(rb[0], rb[1]):
            shift = max(rb[0], rb[1]) - xb[1]
            xb = [xb[0]] + [x + shift for x in xb[1:]]
        xs = xa + [-x for x in xb[1:]]
        rs = ra + rb[1:]
        pids = [-1] + list(range(m1)) + [0] + list(range(m1 + 1, m1 + m2))
    return {"class": "arms" if kind == "arms-mirror" else kind, "n": len(xs), "pids": pids, "types": [1] + [3] * (len(xs) - 1),
            "xyz": [[x, 0.0, 0.0] for x in xs], "r": rs}


TYPE_PATTERNS = ["all-soma", "soma-head", "soma-tips", "one-type", "no-soma", "any"]


def type_column(rng, pattern, pids):
    """a type column for the tree: the property does not mention node types, so every assignment is inside its quantifier"""
    n = len(pids)
    neurite = lambda: rng.choice([2, 3, 4, 0, 5, 7])
    has_kid = set(p for p in pids if p >= 0)
    if pattern == "all-soma":                      # every point typed as soma (soma contours, multi-point somata)
        return [1] * n
    if pattern == "soma-head":                     # the root and the points attached to it
        return [1] + [1 if pids[i] == 0 else neurite() for i in range(1, n)]
    if pattern == "soma-tips":
        return [1] + [1 if i not in has_kid else 3 for i in range(1, n)]
    if pattern == "one-type":
        ty = neurite()
        return [ty] * n
    if pattern == "no-soma":                       # a neurite fragment
        return [rng.choice([0, 2, 3, 4])] + [neurite() for _ in range(n - 1)]
    return [rng.randint(0, 7) for _ in range(n)]


def boundary_case(rng, kind, n, share):
    """collinear tree AT THE BOUNDARY of the admissible spacings: with probability `share` a node repeats the radius of its
    predecessor and a compartment is exactly as long as the larger of its end radii (share = 1: one radius r throughout, every
    compartment exactly r long — spheres two nodes apart meet in a single point, the parts do not overlap)"""
    r0 = rng.randint(2, 24) / 8

    def arm(m):
        rs, xs = [r0], [0.0]
        for _ in range(m):
            rs.append(rs[-1] if rng.random() < share else rng.randint(2, 24) / 8)
            lo = max(rs[-2], rs[-1])
            if rng.random() < share:
                d = lo
            else:
                d = math.ceil((rs[-2] + rs[-1] + rng.randint(0, 16) / 8) * 64) / 64
            xs.append(xs[-1] + d)
        return xs, rs

    if kind == "chain":
        xs, rs = arm(n - 1)
        pids = [-1] + list(range(n - 1))
    else:
        m1 = max(1, (n - 1) // 2)
        m2 = max(1, n - 1 - m1)
        xa, ra = arm(m1)
        xb, rb = arm(m2)
        xs = xa + [-x for x in xb[1:]]
        rs = ra + rb[1:]
        pids = [-1] + list(range(m1)) + [0] + list(range(m1 + 1, m1 + m2))
    return {"class": kind, "n": len(xs), "pids": pids, "types": [1] + [3] * (len(xs) - 1), "xyz": [[x, 0.0, 0.0] for x in xs], "r": rs}


def uniform_radius_case(rng, kind, n):
    """collinear tree with ONE radius along the line and any admissible spacings (touching at one radius, overlapping, tangent, apart)"""
    t = collinear_case(rng, kind, n)
    r0 = t["r"][0]
    steps = []
    for _ in range(len(t["pids"])):
        mode = rng.choice(["min", "overlap", "tangent", "apart"])
        steps.append({"min": r0, "overlap": r0 + rng.randint(1, 7) / 8 * r0, "tangent": 2 * r0, "apart": 2 * r0 + rng.randint(1, 16) / 8}[mode])
    xs = [0.0] * len(t["pids"])
    for i, p in enumerate(t["pids"]):
        if p >= 0:
            sign = -1.0 if (t["xyz"][i][0] < 0) else 1.0
            xs[i] = xs[p] + sign * steps[i]
    return dict(t, xyz=[[x, 0.0, 0.0] for x in xs], r=[r0] * len(xs))


def soma_layout_case(rng, n, k, shape):
    """a general tree whose root carries k extra soma-typed points around it (the multi-point soma conventions of SWC files: the
    three-point soma = centre and two points one soma radius away on opposite sides, all with the soma radius; one- and
    three-satellite variants; satellites further out or thinner): levels 1 and 2 are plain sums for EVERY tree"""
    t = gen.tree_case(rng, n, shape, numbering=rng.choice(["sorted", "root0"]), coords="lattice")
    t = dict(t, pids=list(t["pids"]), types=list(t["types"]), xyz=[list(q) for q in t["xyz"]], r=list(t["r"]))
    c, r0 = t["xyz"][0], t["r"][0]
    variant = rng.choice(["standard", "standard", "standard", "further", "thinner"])
    d = r0 + (1.0 if variant == "further" else 0.0)
    rs = r0 / 2 if variant == "thinner" else r0
    axes = [0, 1, 2]
    rng.shuffle(axes)
    dirs = [(axes[0], 1), (axes[0], -1), (axes[1], 1), (axes[1], -1), (axes[2], 1)]
    if k == 1 or rng.random() < 0.5:
        rng.shuffle(dirs)                          # not necessarily an opposite pair
    used = set(tuple(q) for q in t["xyz"])
    placed = 0
    for ax, sg in dirs:
        if placed == k:
            break
        q = list(c); q[ax] += sg * d
        if tuple(q) in used:
            continue
        used.add(tuple(q)); placed += 1
        t["pids"].append(0); t["types"].append(1); t["xyz"].append(q); t["r"].append(rs)
    t["n"] = len(t["pids"])
    t["class"] = f"{variant}-k{placed}"
    return t


def subtree(pids, i):
    kids = {}
    for c, p in enumerate(pids):
        kids.setdefault(p, []).append(c)
    seen, todo = set(), [i]
    while todo:
        j = todo.pop()
        if j in seen:
            continue
        seen.add(j); todo.extend(kids.get(j, []))
    return seen


def edit_history(rng, pids, k):
    """another tree on the same nodes from which `pids` is reached by re-attaching up to k nodes one after the other (every
    intermediate parent array is a tree): (from_pids, steps) with steps = [[node, new parent], …] in the order to apply"""
    cur, back = list(pids), []
    for _ in range(k):
        cand = [i for i in range(len(cur)) if cur[i] >= 0]
        rng.shuffle(cand)
        for i in cand:
            sub = subtree(cur, i)
            others = [j for j in range(len(cur)) if j not in sub and j != cur[i]]
            if others:
                back.append([i, cur[i]])
                cur[i] = rng.choice(others)
                break
    return cur, back[::-1]


BEFORE_OPS = ["vol1", "vol2", "furcations", "branches", "paths", "tips", "length"]
EDIT_VIA = ["node.pid", "ndata-item", "ndata-column"]


def edited(rng, case, via):
    """the case's tree reached by editing ANOTHER tree in place (nodes re-attached through the public API) after that tree, or the
    tree it was copied from, had been asked something"""
    fp, steps = edit_history(rng, case["tree"]["pids"], rng.choice([1, 1, 2]))
    before = rng.sample(BEFORE_OPS, rng.choice([0, 1, 1, 2]))
    return dict(case, **{"class": f"edited/{via}/" + case["class"].split("/")[0], "measured_before": False,
                         "edit": {"from_pids": fp, "steps": steps, "via": via, "before": before,
                                  "on_copy": rng.random() < 0.4}})


def sums(t, pids=None):
    """(sum of the node spheres, sum of the frusta of the parent-child pairs), from the case description, in float64"""
    r = np.array(t["r"], dtype=np.float64)
    xyz = np.array(t["xyz"], dtype=np.float64)
    fr = 0.0
    for i, p in enumerate(t["pids"] if pids is None else pids):
        if p >= 0:
            h = float(np.linalg.norm(xyz[i] - xyz[p]))
            fr += math.pi * h / 3 * (r[i] ** 2 + r[i] * r[p] + r[p] ** 2)
    return float((4 / 3 * np.pi * r ** 3).sum()), fr


def key_class(cl):
    """the class as it appears in a finding key: the geometry of the new families, not every type pattern / edit path"""
    parts = cl.split("/")
    if parts[0] in ("types", "edited") and len(parts) == 3:
        return parts[0] + "/" + parts[2].split("-")[0]
    return cl


def num(v):
    try:
        v = float(v)
    except (TypeError, ValueError):
        return None
    return v if math.isfinite(v) else None


def profile_volume(t):
    """true union volume of a collinear tree: π ∫ max-profile²"""
    xs = t.get("axis") or [p[0] for p in t["xyz"]]
    rs = t["r"]
    lo = min(x - r for x, r in zip(xs, rs))
    hi = max(x + r for x, r in zip(xs, rs))
    z = np.linspace(lo, hi, 400001)
    rho2 = np.zeros_like(z)
    for x, r in zip(xs, rs):
        rho2 = np.maximum(rho2, np.maximum(r * r - (z - x) ** 2, 0))
    for i, p in enumerate(t["pids"]):
        if p < 0:
            continue
        a, b, ra, rb = xs[p], xs[i], rs[p], rs[i]
        if a > b:
            a, b, ra, rb = b, a, rb, ra
        m = (z >= a) & (z <= b)
        rad = ra + (rb - ra) * (z - a) / (b - a)
        rho2 = np.where(m, np.maximum(rho2, rad * rad), rho2)
    tr = np.trapezoid if hasattr(np, "trapezoid") else np.trapz
    return float(np.pi * tr(rho2, z))


def node_terms(t):
    """per-node inclusion–exclusion ingredients, computed with the library's primitives"""
    from swcgeom.utils import VolFrustumCone, VolSphere

    n = t["n"]
    xyz = np.array(t["xyz"], dtype=np.float32)
    r = np.array(t["r"], dtype=np.float32)
    kids = {}
    for i, p in enumerate(t["pids"]):
        kids.setdefault(p, []).append(i)
    rows = []
    for i in range(n):
        s = VolSphere(xyz[i], r[i])
        cs = [VolSphere(xyz[c], r[c]) for c in kids.get(i, [])]
        cones = [VolFrustumCone(xyz[i], r[i], c.center, c.radius) for c in cs]
        rows.append([float(s.get_volume()), float(sum(f.get_volume() for f in cones)),
                     float(sum(s.intersect(f).get_volume() for f in cones)),
                     float(sum(c.intersect(f).get_volume() for c, f in zip(cs, cones))),
                     float(sum(c.intersect(s).get_volume() for c in cs)), 0.0])
    return rows


def prim_terms(t):
    """the primitive volumes, computed with the library's primitives, one per row: the node's sphere; the frustum to its parent; the
    parent's sphere ∩ that frustum; its own sphere ∩ that frustum (0 for the root)"""
    from swcgeom.utils import VolFrustumCone, VolSphere

    xyz = np.array(t["xyz"], dtype=np.float32)
    r = np.array(t["r"], dtype=np.float32)
    sph, fr, pc, cc = [], [], [], []
    for i, p in enumerate(t["pids"]):
        s = VolSphere(xyz[i], r[i])
        sph.append(float(s.get_volume()))
        if p < 0:
            fr.append(0.0); pc.append(0.0); cc.append(0.0)
            continue
        ps = VolSphere(xyz[p], r[p])
        f = VolFrustumCone(xyz[p], r[p], s.center, s.radius)
        fr.append(float(f.get_volume())); pc.append(float(ps.intersect(f).get_volume())); cc.append(float(s.intersect(f).get_volume()))
    return {"sph": sph, "fr": fr, "pc": pc, "cc": cc}


def fe_order(case):
    """the analytic levels of the case in the order in which one extractor is asked for them (derived from the case, so that it replays)"""
    lv = [a for a in case["levels"] if a <= 4 or case["collinear"]]
    lv = [a for a in lv if a < 5 or case["class"] != "arms"]
    if len(lv) < 2:
        return []
    k = (case["tree"]["n"] + len(case["tree"]["pids"])) % len(lv)
    lv = lv[k:] + lv[:k]
    return lv + lv[:2][::-1]


class TreeVol(Suite):
    name = "c14.tree"
    case_timeout = 120

    def cases(self, rng, tier, widen):
        out = []
        big = tier == "thorough" or widen
        for n in ([1, 2, 3, 4, 6] + ([9, 15, 30] if big else [])):
            for _ in range(3 if not big else 10):
                t = collinear_case(rng, "chain", n)
                out.append({"class": "chain", "tree": t, "levels": [1, 2, 3, 4, 5, 7, 9], "collinear": True})
        for n in [3, 4, 6] + ([10] if big else []):
            for _ in range(1 if not big else 4):
                t = collinear_case(rng, "arms", n)
                out.append({"class": "arms", "tree": t, "levels": [1, 2, 3, 4] + ([5] if rng.random() < 0.5 or big else []), "collinear": True})
        # roots whose two arms are mirror images of each other (the three-point-soma layout): every level incl. the first one with a pair term
        for n in [3, 5] + ([7, 9] if big else []):
            t = collinear_case(rng, "arms-mirror", n)
            out.append({"class": "arms", "tree": t, "levels": [1, 2, 3, 4, 5], "collinear": True, "mirror": True})
        # far from the origin (coordinates ~1e6, compartments a few units long): tolerance-based "same point"
        # tests must not confuse the two ends of a compartment
        for n in [2, 3, 5]:
            for x0 in ([1.0e6, -2.0e6] if not big else [1.0e6, -2.0e6, 3.0e6, -1.5e6]):
                t = collinear_case(rng, "chain", n)
                xs = [0.0]
                for i in range(1, n):
                    xs.append(xs[-1] + float(math.ceil(max(t["r"][i - 1], t["r"][i]) + rng.choice([0, 1, 2]))))
                t["xyz"] = [[x0 + x, 0.0, 0.0] for x in xs]
                out.append({"class": "far", "tree": t, "levels": [1, 2, 3, 4], "collinear": True})
        # the straight line in any direction of space (rational unit vectors: the positions stay exact), away from the origin
        for n in [2, 3, 4, 6]:
            for kind in ("chain", "arms"):
                if kind == "arms" and n < 3:
                    continue
                t = collinear_case(rng, kind, n)
                u = rng.choice([(1 / 3, 2 / 3, 2 / 3), (2 / 7, 3 / 7, 6 / 7), (0.0, 0.6, 0.8), (-2 / 3, 1 / 3, 2 / 3), (0.6, 0.0, -0.8), (4 / 9, 4 / 9, 7 / 9)])
                o = [rng.randint(-8, 8) / 2 for _ in range(3)]
                xs = [q[0] for q in t["xyz"]]
                t = dict(t, axis=xs, xyz=[[o[i] + x * u[i] for i in range(3)] for x in xs])
                out.append({"class": "oblique/" + kind, "tree": t, "levels": [1, 2, 3, 4], "collinear": True})
        # the same admissible collinear trees in small units (a file in millimetres): nothing in the property depends on the unit
        for n in [2, 3, 5]:
            for unit in ([1 / 256, 1e-3] if not big else [1 / 256, 1e-3, 1 / 64, 1 / 1024, 64.0]):
                for kind in ("chain", "arms"):
                    if kind == "arms" and n < 3:
                        continue
                    t = collinear_case(rng, kind, n)
                    t = dict(t, xyz=[[c * unit for c in q] for q in t["xyz"]], r=[v * unit for v in t["r"]])
                    out.append({"class": "small-units/" + kind, "tree": t, "levels": [1, 2, 3, 4], "collinear": True, "unit": unit})
        # files whose length unit is not the micrometre (SI metres, millimetres of a sub-micron reconstruction: units 10^-6 … 10^-9, so that
        # radii and compartments are far below every absolute tolerance): one radius along the whole line, so that every sphere / frustum
        # overlap is the exact hemisphere / cap (r2 - r1 = 0 lies outside the code's band -eps <= r2 - r1 < 0, DESIGN §8); any admissible
        # spacing; every analytic level
        for kind, n in [("chain", 2), ("chain", rng.choice([3, 4])), ("chain", rng.choice([5, 6])), ("arms", 3), ("arms", rng.choice([4, 5, 6]))] + \
                ([("chain", 12), ("arms", 9), ("chain", 3), ("arms", 5)] if big else []):
            t = uniform_radius_case(rng, kind, n)
            e = [6, 7, 8, 9][len(out) % 4] if rng.random() < 0.7 else rng.randint(6, 9)
            unit = rng.choice([1.0, 2.0, 5.0]) * 10.0 ** -e
            t = dict(t, xyz=[[c * unit for c in q] for q in t["xyz"]], r=[v * unit for v in t["r"]])
            out.append({"class": "sub-micron-units/" + kind, "tree": t, "levels": [1, 2, 3, 4] + ([5, 7, 9] if kind == "chain" else []),
                        "collinear": True, "unit": unit})
        k = 0
        # general trees in which one end ball of some compartments contains the other (a thick soma with a thin first point
        # close to its centre; a zero-radius tip): levels 1 and 2 are plain sums for EVERY tree
        for n in [2, 4, 7] + ([20] if big else []):
            for _ in range(2 if not big else 5):
                t = gen.tree_case(rng, n, gen.pick_shape(rng, k), numbering=rng.choice(["sorted", "root0"]), coords="lattice"); k += 1
                t = dict(t); t["r"] = list(t["r"]); t["xyz"] = [list(q) for q in t["xyz"]]
                for i in range(1, t["n"]):
                    if rng.random() < 0.5:
                        p = t["pids"][i]
                        t["r"][p] = max(t["r"][p], 4.0); t["r"][i] = rng.choice([0.0, 0.5, 1.0])
                        d = rng.choice([0.5, 1.0, 2.0, t["r"][p] - t["r"][i]])
                        ax = rng.randrange(3)
                        t["xyz"][i] = list(t["xyz"][p]); t["xyz"][i][ax] += d * rng.choice([-1, 1])
                out.append({"class": "general-contained", "tree": t, "levels": [1, 2], "collinear": False})
        for n in [1, 2, 5, 12] + ([40] if big else []):
            for _ in range(2 if not big else 6):
                t = gen.tree_case(rng, n, gen.pick_shape(rng, k), numbering=rng.choice(["sorted", "root0"]), coords="lattice"); k += 1
                out.append({"class": "general/" + t["class"], "tree": t, "levels": [1, 2], "collinear": False})
        # the type column (not mentioned by the property: every assignment is inside its quantifier) on collinear trees at the boundary of
        # the admissible spacings — equal radii, compartments exactly one radius long (a root with two one-compartment arms of this
        # kind is the three-point soma of SWC files) — and on trees with arbitrary radii
        for pi, pattern in enumerate(TYPE_PATTERNS):
            for kind, n, share in [("arms", 3, 1.0), ("arms", rng.choice([4, 5, 6]), rng.choice([1.0, 0.6])),
                                   ("chain", rng.choice([2, 3, 4, 5]), rng.choice([1.0, 0.6]))] + ([("arms", 9, 0.8), ("chain", 12, 0.8)] if big else []):
                t = boundary_case(rng, kind, n, share)
                t["types"] = type_column(rng, pattern, t["pids"])
                out.append({"class": f"types/{pattern}/{kind}-{'uniform' if share == 1.0 else 'boundary'}", "tree": t,
                            "levels": [1, 2, 3, 4] + ([5] if kind == "chain" else []), "collinear": True})
            t = collinear_case(rng, rng.choice(["chain", "arms"]), rng.choice([3, 4, 6]))
            t["types"] = type_column(rng, pattern, t["pids"])
            out.append({"class": f"types/{pattern}/{t['class']}", "tree": t, "levels": [1, 2, 3, 4], "collinear": True})
            t = gen.tree_case(rng, rng.choice([3, 5, 9]), gen.pick_shape(rng, k), numbering=rng.choice(["sorted", "root0"]), coords="lattice"); k += 1
            t = dict(t, types=type_column(rng, pattern, t["pids"]))
            out.append({"class": f"types/{pattern}/general", "tree": t, "levels": [1, 2], "collinear": False})
        # multi-point soma layouts at the root of general trees
        for n in [1, 2, 4, 8] + ([25] if big else []):
            for kk in [2, 3, 1][: 2 if not big else 3] + [2]:
                t = soma_layout_case(rng, n, kk, gen.pick_shape(rng, k)); k += 1
                out.append({"class": "soma-layout/" + t["class"], "tree": t, "levels": [1, 2], "collinear": False})
        # trees reached by an in-place edit of the parent column (the node API, the pid array) of a tree that — itself or the tree it
        # was copied from — had been asked something before: the volume is that of the tree as it is NOW
        base = []
        for n in [3, 4, 6] + ([10] if big else []):
            for kind in ("chain", "arms"):
                for _ in range(1 if not big else 3):
                    base.append({"class": kind, "tree": collinear_case(rng, kind, n), "levels": [1, 2, 3, 4], "collinear": True})
        for n in [3, 4, 7, 12] + ([30] if big else []):
            for _ in range(1 if not big else 3):
                t = gen.tree_case(rng, n, gen.pick_shape(rng, k), numbering=rng.choice(["sorted", "root0"]), coords="lattice"); k += 1
                base.append({"class": "general", "tree": t, "levels": [1, 2], "collinear": False})
        for j, c in enumerate(base):
            out.append(edited(rng, c, EDIT_VIA[j % len(EDIT_VIA)]))
        return out

    def run(self, case):
        from swcgeom.analysis import get_volume

        np.random.seed(1)
        t = gen.make_tree(case["tree"])
        res = {}
        ed = case.get("edit")
        if ed:
            t = gen.make_tree(dict(case["tree"], pids=ed["from_pids"]))
            for op in ed["before"]:
                if op.startswith("vol"):
                    get_volume(t, accuracy=int(op[3:]))
                elif op == "length":
                    t.length()
                else:
                    getattr(t, "get_" + op)()
            src = None
            if ed["on_copy"]:
                src, t = t, t.copy()
            if ed["via"] == "ndata-column":
                col = t.ndata["pid"].copy()
                for i, p in ed["steps"]:
                    col[i] = p
                t.ndata["pid"] = col
            else:
                for i, p in ed["steps"]:
                    if ed["via"] == "node.pid":
                        t.node(i).pid = p
                    else:
                        t.ndata["pid"][i] = p
            if src is not None:      # the tree the edited one was copied from is still the tree it was
                res["src_vol"] = {str(a): float(get_volume(src, accuracy=a)) for a in (1, 2)}
        if case.get("measured_before", case["tree"]["n"] % 2 == 1):
            # the tree is derived (a copy whose radii and positions are then replaced, as the transforms do) from a tree that was
            # measured at every level before
            t0 = gen.make_tree(dict(case["tree"], r=[v * 1.5 + 0.25 for v in case["tree"]["r"]]))
            for a in case["levels"]:
                get_volume(t0, accuracy=a)
            d = t0.copy()
            for k in ("x", "y", "z", "r"):
                d.ndata[k] = t.ndata[k].copy()
            t = d
        res["vol"] = {str(a): float(get_volume(t, accuracy=a)) for a in case["levels"]}
        if case["collinear"]:
            res["terms"] = node_terms(case["tree"])
            res["prims"] = prim_terms(case["tree"])
        # the front end `extract_feature(tree).get('volume', accuracy=…)`: ONE extractor object asked a sequence of requests (levels in a
        # case-dependent order, the three calling forms) must answer each request with the volume at the requested level
        order = fe_order(case)
        if order:
            from swcgeom.analysis import extract_feature

            ex = extract_feature(t)
            fe = []
            for j, a in enumerate(order):
                if j % 3 == 0:
                    v = ex.get("volume", accuracy=a)
                elif j % 3 == 1:
                    v = ex.get([("volume", {"accuracy": a})])[0]
                else:
                    v = ex.get({"volume": {"accuracy": a}})["volume"]
                fe.append([a, float(np.asarray(v).reshape(-1)[0])])
            res["fe"] = fe
        return res

    def lines(self, case, res):
        if "exc" in res or "terms" not in res:
            return []
        nodes = ";".join(":".join(repr(v) for v in row) for row in res["terms"])
        out = []
        for a in case["levels"]:
            if a >= 5 and case["class"] == "arms":
                continue  # Monte-Carlo pair term not reproduced by the model line
            out.append((f"voltree acc={a} ids={gen.ints(range(case['tree']['n']))} pids={gen.ints(case['tree']['pids'])} nodes={nodes}", {"approx": [res["vol"][str(a)]], "rtol": 2e-5, "atol": 1e-5 * min(1.0, case.get("unit", 1.0)) ** 3}))
            if "prims" in res:
                # the function GENERATED from _get_volume_frustum_cone on this run (closure, child results, gating, accumulation, through the
                # generated Tree.traverse), fed the primitive volumes of the library
                pr = " ".join(f"{k}={','.join(repr(x) for x in res['prims'][k])}" for k in ("sph", "fr", "pc", "cc"))
                out.append((f"gvoltree acc={a} ids={gen.ints(range(case['tree']['n']))} pids={gen.ints(case['tree']['pids'])} {pr}",
                            {"approx": [res["vol"][str(a)]], "rtol": 2e-5, "atol": 1e-5 * min(1.0, case.get("unit", 1.0)) ** 3}))
        return out

    def oracle(self, case, res):
        t = case["tree"]
        if not isinstance(res, dict):
            return [("volume-malformed", f"no result: {res!r}")]
        if "exc" in res:
            return [("volume-raises", f"get_volume raised {res['exc']}: {res.get('msg')}")]
        out = []
        vol = res.get("vol") if isinstance(res.get("vol"), dict) else {}
        for a in case["levels"]:
            if num(vol.get(str(a))) is None:
                return [("volume-malformed", f"accuracy {a} reports {vol.get(str(a))!r}, not a finite number")]
        spheres, fr = sums(t)
        u = case.get("unit", 1.0)
        close = lambda a, b: abs(a - b) <= 3e-5 * (max(1.0, abs(b)) if u >= 1.0 else abs(b) + 1e-9 * u ** 3)
        how = ""
        if case.get("edit"):
            ed = case["edit"]
            how = (f" [tree with pids {ed['from_pids']} asked {ed['before']}, {'copied, the copy ' if ed['on_copy'] else ''}re-attached "
                   f"{ed['steps']} via {ed['via']} -> pids {t['pids']}]")
        if "1" in vol and not close(vol["1"], spheres):
            out.append(("level1", f"accuracy 1 reports {vol['1']}, sum of node spheres is {spheres}{how}"))
        if "2" in vol and not close(vol["2"], spheres + fr):
            out.append(("level2", f"accuracy 2 reports {vol['2']}, spheres + frusta is {spheres + fr}{how}"))
        if case.get("edit") and case["edit"]["on_copy"]:
            # the source of the copy is a tree as well: levels 1 and 2 of ITS parent-child pairs
            s0, f0 = sums(t, case["edit"]["from_pids"])
            sv = res.get("src_vol") if isinstance(res.get("src_vol"), dict) else {}
            for a, want in (("1", s0), ("2", s0 + f0)):
                got = num(sv.get(a))
                if got is None or not close(got, want):
                    out.append(("level" + a, f"the tree a copy was taken from (and the COPY then edited) reports {sv.get(a)!r} at accuracy {a}, "
                                f"its spheres{' + frusta' if a == '2' else ''} are {want}{how}"))
        fe = res.get("fe") if isinstance(res.get("fe"), list) else []
        for ent in fe:
            try:
                a, v = ent[0], float(ent[1])
            except (TypeError, ValueError, IndexError):
                out.append(("extract-volume", f"malformed answer {ent!r}"))
                break
            want = vol.get(str(a))
            # float32 result of the front end against the float64 answer of get_volume at the SAME level
            if want is not None and not abs(v - want) <= 1e-5 * max(abs(want), 1e-30) + 1e-30:
                out.append(("extract-volume", f"one extractor asked for the levels {[x[0] for x in fe]} in this order answered "
                            f"{v} at accuracy {a}; get_volume(tree, accuracy={a}) = {want}"))
                break
        if case["collinear"]:
            tv = profile_volume(t)
            for a in case["levels"]:
                if a >= 3 and abs(vol[str(a)] - tv) > 2e-4 * (max(1.0, tv) if u >= 1.0 else tv):
                    out.append((f"union-volume/{key_class(case['class'])}", f"accuracy {a} reports {vol[str(a)]}, true union volume {tv} "
                                f"(x={[p[0] for p in t['xyz']]}, r={t['r']}, types={t['types']}){how}"))
                    break
        return out

    def nontrivial(self, case, res):
        return case["tree"]["n"] >= 2


FRONT_REQUESTS = [("frustum_cone", 1), ("frustum_cone", 2), ("frustum_cone", 3), ("frustum_cone", 4), ("frustum_cone", 10), ("frustum_cone", "low"),
                  ("frustum_cone", 0), ("frustum_cone", -1), ("frustum_cone", 11), ("frustum_cone", "Low"), ("frustum_cone", "medium"), ("frustum_cone", ""),
                  ("sphere", 2), ("Frustum_cone", 3), ("frustum", 10), ("sphere", 0), ("sphere", 12), ("sphere", "high"), ("sphere", "nope")]
CHAIN_REQUESTS = [("frustum_cone", 5), ("frustum_cone", 7), ("frustum_cone", 9), ("frustum_cone", "middle"), ("frustum_cone", "high")]
MC_SENTINEL = 424242.5


class _FakeSdflit:
    """stand-ins for the sdflit objects `_get_volume_frustum_cone_mc_only` builds its scene from (patched into the namespace of
    swcgeom.analysis.volume from the OUTSIDE, for the duration of one call): the scene records which shapes are added in which order"""

    def __init__(self):
        self.tags, self.log, self.keep = {}, [], []
        outer = self

        class Material:
            def __init__(self, *a):
                pass

            def into(self):
                return self

        class Obj:
            def __init__(self, sdf, material):
                self.tag = outer.tags.get(id(sdf), ("?",))

            def into(self):
                return self

        class Scene:
            def set_background(self, *a):
                pass

            def add_object(self, o):
                outer.log.append(o.tag)

            def build_bvh(self):
                pass

            def bounding_box(self):
                return (0.0, 0.0, 0.0), (1.0, 1.0, 1.0)

            def into(self):
                return self

        class Sampler:
            def __init__(self, *a):
                pass

            def sample(self, scene, n):
                return np.zeros(1)

        self.names = {"ColoredMaterial": Material, "SDFObject": Obj, "ObjectsScene": Scene, "UniformSampler": Sampler}


def mc_scene(t, case_tree):
    """the shapes the REAL `_get_volume_frustum_cone_mc_only` adds to its scene, in order, as node indices (`S<i>` sphere of node i, `F<i>:<j>`
    frustum from node i to its child j): the library's classes are wrapped from the outside, /repo is not edited"""
    import swcgeom.analysis.volume as V

    fk = _FakeSdflit()
    RealS, RealF = V.VolSphere, V.VolFrustumCone

    class RecS(RealS):
        def __init__(self, center, radius):
            super().__init__(center, radius)
            fk.keep.append(self.sdf); fk.tags[id(self.sdf)] = ("S", [float(x) for x in self.center], float(self.radius))

    class RecF(RealF):
        def __init__(self, c1, r1, c2, r2):
            super().__init__(c1, r1, c2, r2)
            fk.keep.append(self.sdf)
            fk.tags[id(self.sdf)] = ("F", [float(x) for x in self.c1], float(self.r1), [float(x) for x in self.c2], float(self.r2))

    saved = {k: getattr(V, k) for k in list(fk.names) + ["VolSphere", "VolFrustumCone"]}
    try:
        for k, v in fk.names.items():
            setattr(V, k, v)
        V.VolSphere, V.VolFrustumCone = RecS, RecF
        V._get_volume_frustum_cone_mc_only(t)
    finally:
        for k, v in saved.items():
            setattr(V, k, v)
    xyz = np.array(case_tree["xyz"], dtype=np.float32)
    r = np.array(case_tree["r"], dtype=np.float32)

    def node(c, rad):
        for i in range(len(r)):
            if [float(x) for x in xyz[i]] == c and float(r[i]) == rad:
                return i
        return -99

    out = []
    for tag in fk.log:
        if tag[0] == "S":
            out.append(f"S{node(tag[1], tag[2])}")
        elif tag[0] == "F":
            out.append(f"F{node(tag[1], tag[2])}:{node(tag[3], tag[4])}")
        else:
            out.append("?")
    return out


class VolFront(Suite):
    """`get_volume` as the user calls it (method / accuracy validation and dispatch, the accuracy names) and the scene of the Monte-Carlo-only
    path, against the definitions GENERATED from the source on this run (Gen/AlgoVolFront.lean)"""
    name = "c14.front"
    case_timeout = 60

    def cases(self, rng, tier, widen):
        out = []
        big = tier == "thorough" or widen
        k = 0
        for n in [1, 2, 3, 5] + ([8, 14] if big else []):
            t = collinear_case(rng, "chain", n)
            reqs = rng.sample(FRONT_REQUESTS, 7 if not big else len(FRONT_REQUESTS)) + rng.sample(CHAIN_REQUESTS, 2 if not big else len(CHAIN_REQUESTS))
            out.append({"class": "front/chain", "tree": t, "requests": [list(q) for q in reqs]})
        for n in [1, 2, 4, 7, 12] + ([25] if big else []):
            for _ in range(1 if not big else 3):
                t = gen.tree_case(rng, n, gen.pick_shape(rng, k), numbering=rng.choice(["sorted", "root0"]), coords="lattice"); k += 1
                reqs = rng.sample(FRONT_REQUESTS, 7 if not big else len(FRONT_REQUESTS))
                out.append({"class": "front/general", "tree": t, "requests": [list(q) for q in reqs]})
        return out

    def run(self, case):
        import swcgeom.analysis.volume as V
        from swcgeom.analysis import get_volume

        np.random.seed(1)
        t = gen.make_tree(case["tree"])
        answers = []
        real_mc = V._get_volume_frustum_cone_mc_only
        try:
            V._get_volume_frustum_cone_mc_only = lambda tree: MC_SENTINEL        # level 10 samples 1e8 points: only THAT it is called is observed here
            for method, acc in case["requests"]:
                try:
                    answers.append(["ok", float(get_volume(t, method=method, accuracy=acc))])
                except Exception as e:  # noqa: BLE001 - which exception is raised is what is compared
                    answers.append(["exc", type(e).__name__])
        finally:
            V._get_volume_frustum_cone_mc_only = real_mc
        return {"answers": answers, "prims": prim_terms(case["tree"]), "scene": mc_scene(t, case["tree"])}

    def lines(self, case, res):
        if "exc" in res or "answers" not in res:
            return []
        t = case["tree"]
        topo = f"ids={gen.ints(range(t['n']))} pids={gen.ints(t['pids'])}"
        pr = " ".join(f"{k}={','.join(repr(x) for x in res['prims'][k])}" for k in ("sph", "fr", "pc", "cc"))
        out = []
        for (method, acc), ans in zip(case["requests"], res["answers"]):
            if acc == "":
                continue                                   # an empty argument cannot be written on a protocol line
            a = f"acc={acc}" if isinstance(acc, int) else f"accs={acc}"
            exp = {"approx": [ans[1]], "rtol": 2e-5, "atol": 1e-5} if ans[0] == "ok" else f"E:{ans[1]}"
            out.append((f"gvolfront op=get {a} method={method} {topo} {pr} mc={MC_SENTINEL!r}", exp))
        out.append((f"gvolfront op=scene {topo}", " ".join(res["scene"])))
        return out

    def oracle(self, case, res):
        if not isinstance(res, dict) or "exc" in res:
            return [("front-raises", f"the instrumented run failed: {res!r}"[:300])]
        out = []
        for (method, acc), ans in zip(case["requests"], res.get("answers", [])):
            lvl = {"low": 3, "middle": 5, "high": 8}.get(acc) if isinstance(acc, str) else acc
            valid = method == "frustum_cone" and lvl is not None and 0 < lvl <= 10
            if valid != (ans[0] == "ok"):
                out.append(("front-validation", f"get_volume(method={method!r}, accuracy={acc!r}) -> {ans}"))
        # the Monte-Carlo-only scene: one sphere per node and one frustum per parent-child pair, nothing else
        want = sorted([f"S{i}" for i in range(case["tree"]["n"])] + [f"F{p}:{i}" for i, p in enumerate(case["tree"]["pids"]) if p >= 0])
        if sorted(res.get("scene", [])) != want:
            out.append(("mc-scene", f"the scene of the Monte-Carlo-only path is {res.get('scene')}, the tree has pids {case['tree']['pids']}"))
        return out


COMPOSITES = ["VolSDFUnion", "VolSDFIntersection", "VolSDFDifference", "VolSphere2Union", "VolSphere2Intersection",
              "VolSphereFrustumConeUnion", "VolSphereFrustumConeIntersection"]


def obj_enc(o):
    """prefix form of an object description: ["S", i] | ["F", a, b] | [class, obj1, obj2]"""
    if o[0] == "S":
        return f"S{o[1]}"
    if o[0] == "F":
        return f"F{o[1]}:{o[2]}"
    return f"{o[0]},{obj_enc(o[1])},{obj_enc(o[2])}"


def rand_obj(rng, depth):
    k = rng.random()
    if depth == 0 or k < 0.3:
        return ["S", rng.randrange(3)]
    if k < 0.6:
        a = rng.randrange(3)
        return ["F", a, (a + 1 + rng.randrange(2)) % 3]
    return [rng.choice(COMPOSITES), rand_obj(rng, depth - 1), rand_obj(rng, depth - 1)]


class VolObjects(Suite):
    """the dispatch layer of utils/volumetric_object.py - which composite `a.union(b)` / `a.intersect(b)` / `a.subtract(b)` builds, which
    computation the `_get_volume` of the composites selects, the cache of `get_volume` - against the definitions GENERATED from the source on
    this run; the library's classes are observed from the outside (methods wrapped in this process), /repo is not edited"""
    name = "c14.objects"
    case_timeout = 60

    def cases(self, rng, tier, widen):
        out = []
        big = tier == "thorough" or widen
        for j in range(12 if not big else 60):
            pairs = [[rng.choice(["union", "intersect", "subtract"]), rand_obj(rng, 2), rand_obj(rng, 2)] for _ in range(6)]
            geo = {"c": [[float(rng.randint(-4, 4)) for _ in range(3)] for _ in range(3)], "r": [rng.randint(1, 12) / 4 for _ in range(3)]}
            geo["c"][1][0] = geo["c"][0][0] + rng.randint(1, 5)          # three distinct centres
            geo["c"][2][1] = geo["c"][0][1] - rng.randint(1, 5)
            out.append({"class": "objects", "pairs": pairs, "geo": geo,
                        "sfi": rng.choice(["end1", "end2", "end1-radius", "end2-radius", "apart", "end1-close", "both"]),
                        "cache": [rng.choice([None, rng.randint(1, 40) / 8]), rng.randint(1, 40) / 8]})
        return out

    def run(self, case):
        import swcgeom.utils.volumetric_object as VO

        geo = case["geo"]
        c = [np.array(x, dtype=np.float32) for x in geo["c"]]
        r = [np.float32(x) for x in geo["r"]]

        def build(o):
            if o[0] == "S":
                return VO.VolSphere(c[o[1]], r[o[1]])
            if o[0] == "F":
                return VO.VolFrustumCone(c[o[1]], r[o[1]], c[o[2]], r[o[2]])
            return getattr(VO, o[0])(build(o[1]), build(o[2]))

        res = {"pairs": []}
        for op, ea, eb in case["pairs"]:
            a, b = build(ea), build(eb)
            try:
                out = getattr(a, op)(b)
                who = {id(a): obj_enc(ea), id(b): obj_enc(eb)}
                res["pairs"].append(f"{type(out).__name__},{who.get(id(out.obj1), '?')},{who.get(id(out.obj2), '?')}")
            except Exception as e:  # noqa: BLE001 - which exception is raised is what is compared
                res["pairs"].append(f"E:{type(e).__name__}")
        # --- VolSphereFrustumConeIntersection._get_volume: closed form or Monte Carlo
        kind = case["sfi"]
        fr = VO.VolFrustumCone(c[0], r[0], c[1], r[1])
        if kind == "both":                               # a frustum whose two ends coincide with the sphere
            fr = VO.VolFrustumCone(c[0], r[0], c[0], r[0])
        sc, sr = {"end1": (c[0], r[0]), "end2": (c[1], r[1]), "end1-radius": (c[0], r[0] + np.float32(0.5)), "end2-radius": (c[1], r[1] + np.float32(0.5)),
                  "apart": (c[2], r[2]), "end1-close": (c[0] + np.float32(1e-7), r[0]), "both": (c[0], r[0])}[kind]
        sp = VO.VolSphere(sc, sr)
        inter = sp.intersect(fr)
        log = []
        real_c, real_mc = VO.VolSphereFrustumConeIntersection.__dict__["calc_concentric_intersect_volume"], VO.VolMCObject._get_volume
        try:
            VO.VolSphereFrustumConeIntersection.calc_concentric_intersect_volume = staticmethod(lambda s_, f_: log.append("conc") or 1.0)
            VO.VolMCObject._get_volume = lambda self, **kw: log.append("mc") or 2.0
            inter._get_volume()
        finally:
            VO.VolSphereFrustumConeIntersection.calc_concentric_intersect_volume = real_c
            VO.VolMCObject._get_volume = real_mc
        res["sfi"] = {"class": type(inter).__name__, "log": log,
                      "tests": [int(bool(np.allclose(sp.center, fr.c1))), int(bool(np.allclose(sp.radius, fr.r1))),
                                int(bool(np.allclose(sp.center, fr.c2))), int(bool(np.allclose(sp.radius, fr.r2)))]}
        # --- inclusion-exclusion at the union nodes (the operand volumes and the closed forms are the library's own)
        s0, f01, s1 = VO.VolSphere(c[0], r[0]), VO.VolFrustumCone(c[0], r[0], c[1], r[1]), VO.VolSphere(c[1], r[1])
        u = s0.union(f01)
        res["sfu"] = {"class": type(u).__name__, "x": float(s0.get_volume()), "y": float(f01.get_volume()),
                      "z": float(VO.VolSphereFrustumConeIntersection.calc_concentric_intersect_volume(s0, f01)), "v": float(u._get_volume())}
        u2 = s0.union(s1)
        res["s2u"] = {"class": type(u2).__name__, "x": float(s0.get_volume()), "y": float(s1.get_volume()),
                      "z": float(VO.VolSphere2Intersection.calc_intersect_volume(s0, s1)), "v": float(u2._get_volume())}
        # --- the cache of get_volume
        calls = []

        class Counted(VO.VolSphere):
            def _get_volume(self):
                calls.append(1)
                return case["cache"][1]

        o = Counted(c[0], r[0])
        o.volume = case["cache"][0]
        got = o.get_volume()
        res["cache"] = {"ret": float(got), "after": None if o.volume is None else float(o.volume), "calls": len(calls)}
        return res

    def lines(self, case, res):
        if "exc" in res or "pairs" not in res:
            return []
        out = []
        for (op, ea, eb), exp in zip(case["pairs"], res["pairs"]):
            out.append((f"gvolfront op={op} a={obj_enc(ea)} b={obj_enc(eb)}", exp))
        t = res["sfi"]["tests"]
        if res["sfi"]["class"] == "VolSphereFrustumConeIntersection" and len(res["sfi"]["log"]) == 1:
            out.append((f"gvolfront op=sfi c1={t[0]} r1={t[1]} c2={t[2]} r2={t[3]}", res["sfi"]["log"][0]))
        for k, cls in (("sfu", "VolSphereFrustumConeUnion"), ("s2u", "VolSphere2Union")):
            if res[k]["class"] == cls:
                out.append((f"gvolfront op={k} x={res[k]['x']!r} y={res[k]['y']!r} z={res[k]['z']!r}", {"approx": [res[k]["v"]], "rtol": 1e-5, "atol": 1e-6}))
        pre, comp = case["cache"]
        out.append((f"gvolfront op=cache vol={'none' if pre is None else repr(pre)} compute={comp!r}",
                    {"approx": [res["cache"]["ret"], res["cache"]["after"] if res["cache"]["after"] is not None else float("nan")], "rtol": 1e-12, "atol": 0.0}))
        return out

    def oracle(self, case, res):
        if not isinstance(res, dict) or "exc" in res:
            return [("objects-raises", f"the instrumented run failed: {res!r}"[:300])]
        out = []
        pre, comp = case["cache"]
        if res["cache"]["calls"] != (1 if pre is None else 0):
            out.append(("volume-cache", f"get_volume with cache {pre!r} called _get_volume {res['cache']['calls']} times"))
        return out


SUITES = [TreeVol(), VolFront(), VolObjects()]
TECHNIQUE = "Lean 4 theorems about the per-node inclusion–exclusion term list REGENERATED from analysis/volume.py (levels 1, 2, ≥3 for every tree; union identity for collinear chains over a finitely additive measure) + Float cross-check + quadrature oracle of the true union"
LEVEL_TEXT = ("Kernel-checked: for every tree, level 1 = Σ spheres and level 2 = Σ spheres + Σ frusta; from level 3 the generated term list is "
              "Σ spheres + Σ (frustum − parent-sphere∩frustum − child-sphere∩frustum), which under the property's spacing hypotheses is the measure of "
              "the union (set-algebra theorem). A changed sign, level threshold or an added term changes the generated Lean and breaks a theorem.")
LEVEL_NOTE = ("Trusted: Lean kernel + Mathlib; translator; C13's closed forms for each term; disc method; Monte-Carlo terms (level ≥5 pair term, level 10) outside.")

