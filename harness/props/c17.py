"""C17 — point-cloud tree construction yields the intended spanning tree."""
import math
import warnings
from fractions import Fraction

import numpy as np

from harness import gen
from harness.framework import CaseTimeout, Suite

PID = "C17"
LEAN_MODS = ["SwcVerif.Props.C17", "SwcVerif.Props.C17Gen", "SwcVerif.Props.C17Front", "SwcVerif.Props.C17Rest"]
TRANSLATE_ALGO = ["AlgoMst", "AlgoMstFront", "AlgoMstRest"]     # (AlgoMstFront: the whole __call__ up to the tree construction) Gen/AlgoMst.lean is regenerated on every run from transforms/mst.py (the greedy loop of PointsToCuntzMST.__call__)
DRIVER_FILES = ["SwcVerif/Model/AlgoRunMst.lean", "SwcVerif/Model/AlgoRunMstFront.lean", "SwcVerif/Model/AlgoRunMstRest.lean"]
THEOREMS = ["C17.init_inv", "C17.greedy_step", "C17.step_inv", "C17.spanning", "C17.branching_limit", "C17.prim_step", "C17.prim_minimal", "C17.prim_attains",
            # the array library of the translator: the masked `argmin` is the FIRST least unmasked cell in row-major order
            "Py.maArgmin_spec", "Py.unravelIndex_nat",
            # refinement: the loop generated from PointsToCuntzMST.__call__ on this run equals the model (every n > 0, every n × n matrix, every option)
            "RefineMst.maArgmin_eq", "RefineMst.for1_step", "RefineMst.mst_loop_refines", "RefineMst.mst_loop_raises",
            "C17.generated_mst_eq_model", "C17.generated_mst_raises", "C17.generated_spanning", "C17.generated_branching_limit",
            "C17.generated_greedy_step", "C17.generated_prim_minimal", "C17.generated_prim_attains",
            # refinement of the WHOLE __call__ (soma handling, distance matrix with the vector norm as a parameter, loop, table assembly), regenerated on every run
            "RefineMstFront.for1_step'", "RefineMstFront.mst_call_refines", "C17.generated_call_eq_model", "C17.table_rows", "C17.generated_call_spanning",
            "C17.generated_call_branching_limit", "C17.generated_call_prim_minimal", "C17.generated_call_prim_attains", "C17.generated_call_raises_empty", "C17.generated_call_raises_bad_soma",
            # the constructors (every spelling of the arguments) and the final sort, regenerated on every run (Gen/AlgoMstRest)
            "C17.generated_cuntz_init", "C17.clip_spec", "C17.generated_mst_init", "C17.generated_ctor_limit", "C17.generated_cuntz_ctor",
            "C17.rootPath_of_up", "C17.wfr_of_spanning", "C17.generated_tail_sorted", "C17.generated_call_sorted_spanning"]
TRUSTED = ["hand-written model Model/Mst.lean of the greedy loop: PROVED equal (RefineMst.mst_loop_refines, every n > 0, every n × n matrix, every option) to "
           "Gen.Algo.mst_loop, the definition the imperative translator regenerates on every run from PointsToCuntzMST.__call__ (pid = np.full … end of the "
           "for loop); trusted there: the translator and Model/Py.lean (float arrays as arrays over a numeric type, run at Rat; 2-d arrays as lists of rows; "
           "numpy.ma argmin = first least unmasked cell in row-major order, (0, 0) when all are masked), the three `subst` entries self.bf / self.furcations / "
           "self.exclude_soma = parameters, and that `n`, `dis` (computed before the segment) are the point count and its n × n distance matrix",
           "the whole PointsToCuntzMST.__call__ up to `t = Tree.from_data_frame(df, names=names)` is regenerated as Gen.Algo.mst_call and PROVED (RefineMstFront.mst_call_refines: "
           "every cloud of triples, optional soma triple, ANY vector norm) to return one row per point of soma :: points in input order with the model loop's parents; trusted "
           "there (harness/algo_specs/17b_mstfront.py): Model/PyMstFront.lean (np.concatenate of rows, the pairwise-norm idiom with the norm as a parameter, P[:, c]), the table "
           "dic/df/t as column variables keyed by `names.<field>` (legacy parameter `names` absent, `names = self.names` skipped), self.types.glia_processes / self.types.soma = "
           "parameters, `names.r: 1` a scalar the frame broadcasts, Tree.__init__ casting x, y, z, r to float32 (suite c17.gencall compares against the cast), and the "
           "final `if self.sort: t = sort_tree(t)` outside the segment",
           "both the model (`mst`) and the generated loop (`gmst`) are run against the real function on the distance matrix the code computes in the dtype of "
           "the cloud (float64 or float32), as exact rationals: the parent array compared exactly"]
ASSUMPTIONS = ["prim_minimal assumes a symmetric, non-negative matrix: |p_i - p_j| computed by np.linalg.norm is both (IEEE negation is exact)",
               "rounding of the distance matrix in the dtype of the input cloud (float64 or float32) and of `dis + bf*acc`: clouds whose best and second-best cost are "
               "relatively closer than max(1e-9, 64 eps(dtype)) are rejected; the MST weight is compared relatively, max(1e-7, 64 eps(dtype)), at every length scale",
               "numpy masked-array argmin = first minimum in row-major order over the unmasked cells",
               "integer clouds are generated as SIGNED voxel indices (int16 / int32 / int64) whose coordinate differences fit the type; the code subtracts in the "
               "type of the (soma + cloud) array, so unsigned or narrow integer clouds without a float soma wrap around (not generated; reported separately)"]


def cloud(rng, n, dim=3):
    pts = set()
    while len(pts) < n:
        pts.add(tuple(rng.randint(-40, 40) if k < dim else 0 for k in range(3)))
    pts = list(pts)
    rng.shuffle(pts)
    return [[float(c) for c in p] for p in pts]


def rtol_of(dtype, floor):
    """relative tolerance for quantities the implementation computes in `dtype`: a few dozen ulps, never below `floor`"""
    return max(floor, 64 * float(np.finfo(np.dtype(dtype)).eps))


def placed_cloud(rng, n, box, offset, scale, dtype):
    """n points in general position: uniform in a cube of edge `box` centred at `offset`, the whole expressed in a unit `scale`,
    rounded to `dtype` (the points ARE the rounded values: exact as float64 / JSON); None if two points coincide as float32"""
    pts = [[(offset[i] + rng.uniform(-box / 2, box / 2)) * scale for i in range(3)] for _ in range(n)]
    pts = [[float(np.dtype(dtype).type(c)) for c in p] for p in pts]
    if len({tuple(float(np.float32(c)) for c in p) for p in pts}) < n:
        return None
    return pts


def random_offset(rng, mag):
    """a translation of the given magnitude per axis (each axis between 0.3 and 1 of it, either sign)"""
    return [rng.choice([-1, 1]) * rng.uniform(0.3, 1.0) * mag for _ in range(3)]


def distinct_f32(pts):
    """the tree stores float32 coordinates and positions identify nodes: the points must stay pairwise distinct there"""
    return len({tuple(float(np.float32(c)) for c in p) for p in pts}) == len(pts)


def clustered_cloud(rng, dtype):
    """a cloud that is not uniform: a few compact groups (boutons, spine heads, somata of a culture …) of unequal size and density, spread over a
    region much wider than a group, plus some stray points anywhere in the region; the first point (root / soma) is either a random member or a
    point between the groups. Point spacing varies by orders of magnitude inside one cloud, so the short edges and the few long bridges of the
    spanning tree are both present. None if two points coincide as float32"""
    span = 10 ** rng.uniform(1.5, 2.7)
    pts = []
    for _ in range(rng.randint(2, 5)):
        c = [rng.uniform(-span / 2, span / 2) for _ in range(3)]
        s = span * rng.uniform(0.005, 0.05)
        pts += [[c[i] + rng.gauss(0, s) for i in range(3)] for _ in range(rng.randint(6, 70))]
    pts += [[rng.uniform(-span / 2, span / 2) for _ in range(3)] for _ in range(rng.randint(0, 10))]
    rng.shuffle(pts)
    pts = pts[:300]
    if rng.random() < 0.5:
        m = [sum(p[i] for p in pts) / len(pts) for i in range(3)]
        pts.insert(0, [m[i] + rng.uniform(-1, 1) * span * 0.02 for i in range(3)])
    pts = [[float(np.dtype(dtype).type(c)) for c in p] for p in pts]
    return pts if distinct_f32(pts) else None


def near_pair_cloud(rng, n, mag, dtype, with_root):
    """a cloud in general position in which two points nearly coincide: one point is moved next to another, in every axis a few (2 … 2000,
    log-uniform) float32 resolution steps of the coordinate away — distinct inputs, also as the float32 the tree stores, but equal under any
    tolerance based comparison. `with_root`: the pair is the first point (root / soma) and a later one, else two later points.
    Returns (points, steps) or None"""
    pts = placed_cloud(rng, n, rng.uniform(10, 100), random_offset(rng, mag * 10 ** rng.uniform(-0.5, 0.5)), 1.0, dtype)
    if pts is None:
        return None
    a = 0 if with_root else rng.randrange(1, n)
    b = rng.choice([i for i in range(1, n) if i != a])
    steps = 2 * 10 ** rng.uniform(0, 3)
    for i in range(3):
        u = float(np.spacing(np.float32(abs(pts[b][i])))) if pts[b][i] != 0 else 1e-6
        pts[a][i] = float(np.dtype(dtype).type(pts[b][i] + rng.choice([-1, 1]) * max(2, round(steps * rng.uniform(0.5, 1.0))) * u))
    return (pts, steps) if distinct_f32(pts) else None


SOMA_FORMS = ("list", "tuple", "float64", "float32")
INT_DTYPES = ("int64", "int32", "int16")


def voxel_cloud(rng, n):
    """n distinct voxel indices of a cubic volume (what np.argwhere of a mask / skeleton gives): non-negative integers"""
    edge = rng.choice([8, 32, 128, 512])
    pts = set()
    while len(pts) < n:
        pts.add(tuple(rng.randrange(edge) for _ in range(3)))
    pts = [list(map(float, p)) for p in pts]
    rng.shuffle(pts)
    return pts, edge


def soma_for(rng, pts, kind, box):
    """a soma position for the cloud, exact in float32 (so exact in every form it is handed over in): `centroid` = the mean of the cloud moved by
    up to a unit per axis, `voxel-centre` = the centre of a grid cell (… .5), `free` = anywhere in the bounding cube, `integral` = a grid node"""
    if kind == "centroid":
        s = [sum(p[i] for p in pts) / len(pts) + rng.uniform(-1, 1) for i in range(3)]
    elif kind == "voxel-centre":
        s = [math.floor(rng.uniform(*box)) + 0.5 for _ in range(3)]
    elif kind == "integral":
        s = [float(math.floor(rng.uniform(*box))) for _ in range(3)]
    else:
        s = [rng.uniform(*box) for _ in range(3)]
    return [float(np.float32(c)) for c in s]


def reference(points, bf, k, exclude_root, tol=1e-9):
    """the stated greedy rule, re-simulated independently: attach the unconnected point j to the connected,
    unsaturated point i minimising |ij| + bf * pathlen(i); returns (pids, ambiguous). Ambiguous = best and second-best
    cost relatively closer than `tol` (scale free: the rule does not depend on the length unit)"""
    n = len(points)
    P = np.array(points, dtype=np.float64)
    d = np.linalg.norm(P[:, None, :] - P[None, :, :], axis=2)
    pid = [-1] * n
    path = [0.0] * n
    kids = [0] * n
    conn = [0]
    amb = False
    for _ in range(n - 1):
        best = []
        for i in conn:
            if k != -1 and kids[i] >= k and not (exclude_root and i == 0):
                continue
            for j in range(n):
                if j in conn:
                    continue
                best.append((d[i, j] + bf * path[i], i, j))
        best.sort()
        if len(best) > 1 and best[1][0] - best[0][0] <= tol * best[0][0]:
            amb = True
        _, i, j = best[0]
        pid[j] = i; path[j] = path[i] + d[i, j]; kids[i] += 1; conn.append(j)
    return pid, amb


def mst_weight(points):
    n = len(points)
    P = np.array(points, dtype=np.float64)
    d = np.linalg.norm(P[:, None, :] - P[None, :, :], axis=2)
    # Kruskal
    par = list(range(n))

    def f(x):
        while par[x] != x:
            par[x] = par[par[x]]; x = par[x]
        return x
    w = 0.0
    for c, i, j in sorted((d[i, j], i, j) for i in range(n) for j in range(i + 1, n)):
        a, b = f(i), f(j)
        if a != b:
            par[a] = b; w += c
    return w


class MstSuite(Suite):
    name = "c17.mst"
    case_timeout = 60

    def cases(self, rng, tier, widen):
        out = []
        big = tier == "thorough" or widen
        for n in [2, 3, 4, 6, 9, 14, 22] + ([40, 80] if big else []):
            for _rep in range(3 if not big else 8):
                pts = cloud(rng, n, dim=rng.choice([1, 2, 3, 3]))
                bf = rng.choice([0.0, 0.0, 0.25, 0.5, 1.0, 0.75])
                k = rng.choice([-1, -1, 1, 2, 2, 3])
                cls = "mst" if bf == 0 and rng.random() < 0.5 else "cuntz"
                if (_rep == 0 or rng.random() < 0.2) and n >= 4:
                    # far from the origin with fine spacing: the distance matrix must be computed in double precision
                    off = [1.0e6, 2.0e6, 1.5e6]
                    pts = [[off[i] + rng.uniform(-1.5, 1.5) for i in range(3)] for p in pts]
                    if len({tuple(np.float32(c) for c in p) for p in pts}) < len(pts):
                        continue
                    cls = cls + "-far"
                out.append({"class": f"{cls}/bf{bf}/k{k}", "points": pts, "bf": bf, "k": k, "exclude_soma": rng.random() < 0.6,
                            "soma": rng.random() < 0.4, "sort": rng.random() < 0.5, "api": cls.split("-")[0]})
        # the corners of the option space, each with a guaranteed share: balancing factor at its bounds × root exempt or not × small limits
        for bf in (0.0, 1.0):
            for ex in (False, True):
                for kk in (1, 2):
                    pts = cloud(rng, rng.choice([6, 9, 12]), dim=rng.choice([2, 3]))
                    out.append({"class": f"corner/bf{bf}/k{kk}/ex{int(ex)}", "points": pts, "bf": bf, "k": kk, "exclude_soma": ex,
                                "soma": rng.random() < 0.4, "sort": rng.random() < 0.5, "api": "cuntz"})
        # the first point is a hub (its neighbours are farther from one another than from it): a limit on the root bites, through both classes
        for api in ("mst", "cuntz"):
            for ex in (False, True):
                for kk in (1, 2, 3):
                    hub = [[0.0, 0.0, 0.0]] + [[10.0 * a, 10.0 * b, 10.0 * c] for a, b, c in ((1, 0, 0), (-1, 0, 0), (0, 1, 0), (0, -1, 0), (0, 0, 1), (0, 0, -1))]
                    hub = hub[:1] + [[v + rng.randint(-8, 8) / 16 for v in q] for q in hub[1:]]
                    out.append({"class": f"hub/{api}/k{kk}/ex{int(ex)}", "points": hub, "bf": 0.0, "k": kk, "exclude_soma": ex, "soma": False,
                                "sort": rng.random() < 0.5, "api": api})
        # larger clouds with a limit and no balancing factor (several saturated points with candidates waiting for them at the same time)
        for n in ([120] + [rng.randint(200, 300) for _ in range(11)] if not big else [120] + [rng.randint(200, 400) for _ in range(30)]):
            pts = cloud(rng, n, dim=3) if rng.random() < 0.5 else [[rng.uniform(-40, 40) for _ in range(3)] for _ in range(n)]
            out.append({"class": f"large/n{n}/k2", "points": pts, "bf": 0.0, "k": 2, "exclude_soma": True, "soma": False, "sort": True, "api": "mst", "large": True})
        # dense clouds far from the origin: many nearly equal candidate edges, resolved only in double precision
        for _ in range(3 if not big else 8):
            off = [1.0e6, 2.0e6, 1.5e6]
            pts = [[off[i] + rng.uniform(-2.0, 2.0) for i in range(3)] for _ in range(36)]
            if len({tuple(np.float32(c) for c in p) for p in pts}) < len(pts):
                continue
            bf = rng.choice([0.0, 0.0, 0.5])
            out.append({"class": f"dense-far/bf{bf}/k-1", "points": pts, "bf": bf, "k": -1, "exclude_soma": True, "soma": False, "sort": rng.random() < 0.5,
                        "api": "mst" if bf == 0 else "cuntz"})

        def options(plain):
            """no balancing factor and no limit (the MST clause) for `plain`, else any option combination"""
            bf = 0.0 if plain else rng.choice([0.0, 0.25, 0.5, 1.0, 0.75])
            k = -1 if plain else rng.choice([-1, -1, 1, 2, 3])
            return {"bf": bf, "k": k, "exclude_soma": rng.random() < 0.6, "soma": rng.random() < 0.4, "sort": rng.random() < 0.5,
                    "api": "mst" if bf == 0 and rng.random() < 0.5 else "cuntz"}

        # the array type of the cloud × where the cloud lies: single precision (the type the transform is annotated with) and double precision
        # clouds, at the origin and translated by 1e2 … 1e5 units (atlas / stage coordinates: the offset is much larger than the point spacing).
        # The points are the rounded values, so the property speaks about them exactly; every decade × dtype has a case, half of them without
        # balancing factor and limit
        for dt in ("float32", "float64"):
            for di, mag in enumerate((0.0, 1e2, 1e3, 1e4, 1e5)):
                for plain in ((True, False) if big else (di % 2 == (dt == "float32"),)):
                    pts = placed_cloud(rng, rng.choice([6, 9, 14, 22]), rng.uniform(10, 100), random_offset(rng, mag * 10 ** rng.uniform(-0.5, 0.5)), 1.0, dt)
                    if pts is None:
                        continue
                    o = options(plain)
                    out.append({"class": f"placed/{dt}/off{mag:g}/bf{o['bf']}/k{o['k']}", "points": pts, "dtype": dt, **o})
        # … and with hundreds of points (dense relative to the offset), MST clause; one double precision control
        for i in range(5 if not big else 16):
            dt = "float64" if i == 4 else "float32"
            n = rng.randint(100, 300)
            pts = placed_cloud(rng, n, rng.uniform(20, 100), random_offset(rng, 10 ** rng.uniform(3, 5)), 1.0, dt)
            if pts is None:
                continue
            out.append({"class": f"placed-large/{dt}", "points": pts, "dtype": dt, **options(True), "large": True})
        # the same kind of cloud in another length unit: the property is scale free (nm … m for one and the same fragment), so every decade of the
        # unit from 1e-9 to 1e6 has a case; coordinates stay far inside the float32 range the tree stores
        for e in range(-9, 6):
            for plain in (True, False):
                dt = rng.choice(["float64", "float64", "float32"])
                pts = placed_cloud(rng, rng.choice([6, 9, 14, 22, 30]), rng.uniform(10, 100), [0.0, 0.0, 0.0], 10 ** (e + rng.random()), dt)
                if pts is None:
                    continue
                o = options(plain)
                out.append({"class": f"unit/1e{e}/{dt}/bf{o['bf']}/k{o['k']}", "points": pts, "dtype": dt, **o})
        # … with hundreds of points, MST clause: the unit range in strata, both ends (where an absolute threshold would be too coarse or too
        # fine) with a stratum of their own
        for lo, hi in ((-9, -8), (-8, -6), (-6, 0), (0, 4), (4, 6)):
            for _ in range(1 if not big else 3):
                pts = placed_cloud(rng, rng.randint(100, 300), rng.uniform(20, 100), [0.0, 0.0, 0.0], 10 ** rng.uniform(lo, hi), "float64")
                if pts is None:
                    continue
                out.append({"class": f"unit-large/1e{lo}..1e{hi}", "points": pts, "dtype": "float64", **options(True), "large": True})
        # clustered clouds (compact groups of unequal size + stray points, tens to hundreds of points): three of four with the MST clause
        # (no balancing factor, no limit, through both classes, soma given or not), the others with any options
        for i in range(36 if not big else 100):
            dt = "float32" if i % 6 == 5 else "float64"
            pts = clustered_cloud(rng, dt)
            if pts is None:
                continue
            o = options(i % 4 != 3)
            out.append({"class": f"clustered/{dt}/n{'<=40' if len(pts) <= 40 else '<=120' if len(pts) <= 120 else '>120'}/bf{o['bf']}/k{o['k']}/soma{int(o['soma'])}",
                        "points": pts, "dtype": dt, **o, **({"large": True} if len(pts) > 40 else {})})
        # two nearly coincident input points, at the origin and translated by 1e1 … 1e5 units: the soma and a cloud point (soma given), or two
        # cloud points; every input point still has to appear exactly once
        for i, mag in enumerate((0.0, 1e1, 1e2, 1e3, 1e4, 1e5) * (3 if not big else 8)):
            dt = rng.choice(["float64", "float64", "float32"])
            with_root = i % 3 != 2
            made = near_pair_cloud(rng, rng.choice([5, 8, 12, 20, 30]), mag, dt, with_root)
            if made is None:
                continue
            pts, steps = made
            o = options(rng.random() < 0.4)
            if with_root:
                o["soma"] = True
            out.append({"class": f"near-pair/{'soma~point' if with_root else 'point~point'}/{dt}/off{mag:g}/steps{'<=20' if steps <= 20 else '<=200' if steps <= 200 else '>200'}",
                        "points": pts, "dtype": dt, **o})
        # the array type of the cloud × the form of the soma: clouds of integer type (voxel indices) and of either float type, the soma not given
        # or given as a list / tuple of Python floats or as an array of either float type — a position of its own (the centroid of the cloud, the
        # centre of a voxel, any point of the bounding cube: values off the grid of an integer cloud), which has to be the root as given.
        # Every cloud type × soma form has a case; every integer type × form one with a soma off the grid; half of them with the MST clause
        for cdt in INT_DTYPES + ("float32", "float64"):
            integer = cdt in INT_DTYPES
            control = rng.choice(SOMA_FORMS)
            for form in ("none",) + SOMA_FORMS + ((control,) if integer else ()) + (SOMA_FORMS if big else ()):
                n = rng.choice([4, 6, 9, 14, 22, 30])
                if integer:
                    pts, edge = voxel_cloud(rng, n)
                    box = (0, edge)
                else:
                    side = rng.uniform(10, 100)
                    pts, box = placed_cloud(rng, n, side, [0.0, 0.0, 0.0], 1.0, cdt), (-side / 2, side / 2)
                    if pts is None:
                        continue
                kind = "-"
                if form != "none":
                    kind = rng.choice(["centroid", "voxel-centre", "free"] if integer else ["centroid", "free"])
                    if integer and form == control:
                        kind, control = "integral", None       # one control per integer type: a soma on the grid
                    pts = [soma_for(rng, pts, kind, box)] + pts
                    if not distinct_f32(pts):
                        continue
                o = options(rng.random() < 0.5)
                o["soma"] = form != "none"
                out.append({"class": f"types/{cdt}/soma-{form}/{kind}/bf{o['bf']}/k{o['k']}", "points": pts, "cloud_dtype": cdt,
                            **({"soma_as": form} if form != "none" else {}), **o})
        # the spelling of the branching limit: PointsToMST takes it positionally, as `furcations=` or through the still documented deprecated alias
        # `k_furcations=`; PointsToCuntzMST as `furcations=`, or left out where the documented default (2) is meant. Every spelling is the same
        # transform. Clouds large enough for the limit (or its absence: MST clause) to matter, plus hub clouds whose root is limited
        for i in range(16 if not big else 48):
            spell = ("alias", "alias", "positional", "keyword", "alias", "alias", "default", "keyword")[i % 8]
            # no limit and the tightest limit in turn (guaranteed), the others drawn
            k = 2 if spell == "default" else (-1, 1)[(i // 2) % 2] if i < 12 else rng.choice([-1, 1, 2, 3])
            api = "mst" if spell in ("alias", "positional") else rng.choice(["mst", "cuntz"])
            if i % 4 == 1:
                pts = [[0.0, 0.0, 0.0]] + [[10.0 * a + rng.randint(-8, 8) / 16, 10.0 * b + rng.randint(-8, 8) / 16, 10.0 * c + rng.randint(-8, 8) / 16]
                                           for a, b, c in ((1, 0, 0), (-1, 0, 0), (0, 1, 0), (0, -1, 0), (0, 0, 1), (0, 0, -1))]
                ex, soma, shape = False, False, "hub"
            else:
                pts, shape = None, "cloud"
                while pts is None:
                    pts = placed_cloud(rng, rng.randint(24, 40), rng.uniform(10, 100), [0.0, 0.0, 0.0], 1.0, "float64")
                ex, soma = rng.random() < 0.6, rng.random() < 0.4
            out.append({"class": f"spelling/{api}/{spell}/k{k}/{shape}", "points": pts, "bf": 0.0, "k": k, "exclude_soma": ex, "soma": soma,
                        "sort": rng.random() < 0.5, "api": api, "spell": spell})
        return out

    @staticmethod
    def inputs(case):
        """(cloud array, soma or None) as they are handed to the transform. `points` lists the soma (if given) first, then the cloud; every value
        is exact in the array type it is put into. `cloud_dtype` (default: `dtype`, default float64) is the type of the cloud array, `soma_as` the
        form of the soma: `same` (a row of the cloud's type, the default), `list` / `tuple` of Python floats, or an ndarray of the named dtype"""
        dt = np.dtype(case.get("cloud_dtype", case.get("dtype", "float64")))
        rows = case["points"]
        if not (case["soma"] and len(rows) > 1):
            return np.array(rows, dtype=dt), None
        form = case.get("soma_as", "same")
        s = [float(c) for c in rows[0]]
        soma = np.array(s, dtype=dt) if form == "same" else s if form == "list" else tuple(s) if form == "tuple" else np.array(s, dtype=np.dtype(form))
        return np.array(rows[1:], dtype=dt), soma

    @staticmethod
    def dtypes(case):
        """(the float type the distance matrix of the joined soma + cloud array has under numpy's promotion rules, the float type the tolerances
        are taken from: the coarser of it and the cloud's own). Integer arrays are measured in float64"""
        pts, soma = MstSuite.inputs(case)
        joined = pts.dtype if soma is None else np.result_type(pts.dtype, np.asarray(soma).dtype)
        calc = joined if np.issubdtype(joined, np.floating) else np.dtype("float64")
        tol = pts.dtype if np.issubdtype(pts.dtype, np.floating) and np.finfo(pts.dtype).eps > np.finfo(calc).eps else calc
        return calc.name, tol.name

    @staticmethod
    def transform(case):
        from swcgeom.transforms import PointsToCuntzMST, PointsToMST

        spell = case.get("spell", "positional")
        if spell == "default" and case["k"] != 2:
            raise ValueError("the documented default of the limit is 2")
        if case["api"] == "mst" and case["bf"] == 0:
            kw = {"exclude_soma": case["exclude_soma"], "sort": case["sort"]}
            if spell == "alias":
                with warnings.catch_warnings():
                    warnings.simplefilter("ignore", DeprecationWarning)
                    return PointsToMST(k_furcations=case["k"], **kw)
            return PointsToMST(**kw) if spell == "default" else PointsToMST(furcations=case["k"], **kw) if spell == "keyword" else PointsToMST(case["k"], **kw)
        if spell == "default":
            return PointsToCuntzMST(bf=case["bf"], exclude_soma=case["exclude_soma"], sort=case["sort"])
        return PointsToCuntzMST(bf=case["bf"], furcations=case["k"], exclude_soma=case["exclude_soma"], sort=case["sort"])

    @staticmethod
    def table(t):
        return {"pid": t.pid().tolist(), "id": t.id().tolist(), "xyz": t.xyz().astype(float).tolist(), "type": t.type().tolist(),
                "length": float(t.length())}

    def run(self, case):
        pts, soma = self.inputs(case)
        return self.table(self.transform(case)(pts, soma))

    @staticmethod
    def _malformed(case, res):
        """None if the result has the shape of a tree over len(points) nodes, else (key, message)"""
        n = len(case["points"])
        if not isinstance(res, dict) or any(not isinstance(res.get(f), list) for f in ("pid", "id", "xyz")):
            return ("mst-malformed-output", f"no node table in the result: {str(res)[:200]}")
        if len(res["xyz"]) != n or len(res["pid"]) != n or len(res["id"]) != n:
            return ("mst-node-count", f"the tree has {len(res['xyz'])} nodes ({len(res['id'])} ids, {len(res['pid'])} parents) for {n} input points"
                                      f"{' (soma + ' + str(n - 1) + ' cloud points)' if case.get('soma') else ''}: every input point exactly once")
        if any(not isinstance(p, int) or isinstance(p, bool) or not -1 <= p < n for p in res["pid"]):
            return ("mst-malformed-output", f"parent entries outside -1 … {n - 1}: {str(res['pid'])[:200]}")
        if any(not isinstance(q, (list, tuple)) or len(q) != 3 or any(not isinstance(c, (int, float)) for c in q) for q in res["xyz"]):
            return ("mst-malformed-output", f"positions are not triples of numbers: {str(res['xyz'])[:200]}")
        return None

    def _orig_pids(self, case, res):
        """parents in the numbering of the input cloud (positions identify nodes)"""
        if self._malformed(case, res) is not None:
            return None, []
        pos = {tuple(float(np.float32(c)) for c in p): i for i, p in enumerate(case["points"])}
        old = [pos.get(tuple(p)) for p in res["xyz"]]
        if None in old or len(set(old)) != len(old):
            return None, old
        pid = [None] * len(old)
        for j, p in enumerate(res["pid"]):
            pid[old[j]] = -1 if p == -1 else old[p]
        return pid, old

    def lines(self, case, res):
        if not isinstance(res, dict) or "exc" in res:
            return []
        if case.get("large"):
            return []      # the oracle's clauses only: the quadratic reference and the rational model are for the smaller clouds
        pid, _ = self._orig_pids(case, res)
        calc, dt = self.dtypes(case)
        ref, amb = reference(case["points"], case["bf"], case["k"], case["exclude_soma"], rtol_of(dt, 1e-9))
        if pid is None or amb:
            return []
        P = np.array(case["points"], dtype=calc)           # the matrix in the precision of the (soma + cloud) array handed over
        d = np.linalg.norm(P.reshape((-1, 1, 3)) - P.reshape((1, -1, 3)), axis=2)
        rows = ";".join(",".join(str(Fraction(float(v))) for v in row) for row in d)
        args = f"bf={Fraction(case['bf'])} k={case['k']} ex={int(case['exclude_soma'])} d={rows}"
        # `mst`: the hand-written model; `gmst`: the loop GENERATED from the current source, run at Rat on the same matrix
        return [(f"mst {args}", gen.ints(pid)), (f"gmst {args}", gen.ints(pid))]

    def oracle(self, case, res):
        try:
            return self._oracle(case, res)
        except Exception as e:  # noqa: BLE001 - an output the clauses cannot even be evaluated on is a finding, never a crash of the check
            return [("mst-malformed-output", f"the clauses cannot be evaluated on the result ({type(e).__name__}: {str(e)[:200]})")]

    def _oracle(self, case, res):
        pts = case["points"]
        n = len(pts)
        if isinstance(res, dict) and "exc" in res:
            return [("mst-raises", f"{res['exc']}: {res.get('msg')}")]
        bad = self._malformed(case, res)
        if bad is not None:
            return [bad]
        out = []
        pid, old = self._orig_pids(case, res)
        if pid is None:
            lost = [i for i in range(n) if i not in old]
            alien = [j for j, o in enumerate(old) if o is None]
            twice = sorted({o for o in old if o is not None and old.count(o) > 1})
            return [("mst-points", f"result nodes are not the input points exactly once each ({len(res['xyz'])} nodes for {n} points): "
                                   + "; ".join(([f"input point {lost[0]}{' (the soma)' if lost[0] == 0 and case.get('soma') else ''} {pts[lost[0]]} has no node"
                                                 f" ({len(lost)} such)"] if lost else [])
                                               + ([f"node {alien[0]} at {res['xyz'][alien[0]]} is no input point ({len(alien)} such)"] if alien else [])
                                               + ([f"input point {twice[0]} has several nodes"] if twice else [])))]
        if gen.well_formed(res["id"], res["pid"]) is not None and case["sort"]:
            out.append(("mst-not-a-tree", gen.well_formed(res["id"], res["pid"])))
        roots = [i for i in range(n) if pid[i] == -1]
        if roots != [0]:
            out.append(("mst-root", f"roots (input numbering) {roots}; the soma / first point is 0"))
        # single tree: every node reaches 0
        for i in range(n):
            j, s = i, 0
            while j not in (-1, 0) and s <= n:
                j = pid[j]; s += 1
            if j != 0 and i != 0:
                out.append(("mst-not-a-tree", f"point {i} does not reach the root")); break
        cnt = [0] * n
        for p in pid:
            if p >= 0:
                cnt[p] += 1
        if case["k"] != -1:
            bad = [i for i in range(n) if cnt[i] > case["k"] and not (case["exclude_soma"] and i == 0)]
            if bad:
                out.append(("mst-branching-limit", f"points {bad} have {[cnt[i] for i in bad]} children, limit {case['k']}"))
        dt = self.dtypes(case)[1]
        ref, amb = (None, True) if case.get("large") else reference(pts, case["bf"], case["k"], case["exclude_soma"], rtol_of(dt, 1e-9))
        if not amb and pid != ref:
            diff = [i for i in range(n) if pid[i] != ref[i]]
            key = "mst-greedy-rule" + ("/balancing" if case["bf"] > 0 else "")
            out.append((key, f"bf={case['bf']} k={case['k']}: point {diff[0]} attached to {pid[diff[0]]}, the rule (edge + bf·path length of the attachment point) gives {ref[diff[0]]}"))
        if case["bf"] == 0 and case["k"] == -1:
            w = mst_weight(pts)
            # the tree stores float32 coordinates: measure the returned edges on the exact input points
            P = np.array(pts, dtype=np.float64)
            length = sum(float(np.linalg.norm(P[i] - P[p])) for i, p in enumerate(pid) if p >= 0)
            # relative at every length scale; near-ties inside the rounding of the cloud's dtype may be resolved either way
            if abs(length - w) > rtol_of(dt, 1e-7) * w:
                out.append(("mst-weight", f"total length {length}, minimum spanning tree weight {w} ({100 * (length / w - 1):+.3g} %, {dt} cloud of {n} points)"))
        return out[:3]

    def nontrivial(self, case, res):
        return len(case["points"]) >= 4


class ReuseSuite(Suite):
    """ONE transform object applied to several clouds in a row (the way a transform is used in a pipeline / over a batch): every call is an
    instance of the property on its own — the tree of a call depends on that call's cloud and the options the object was made with, not on
    what the object was applied to before. Sizes: tiny clouds (2–3 points) before larger ones, larger before tiny, equal sizes, any order;
    with and without a soma from call to call. Each call is judged by the clauses of `MstSuite` and compared with the model."""
    name = "c17.reuse"
    case_timeout = 60
    repeat = 6

    def cases(self, rng, tier, widen):
        out = []
        big = tier == "thorough" or widen
        orders = ("tiny-first", "tiny-first", "ascending", "descending", "same-size", "any")
        for i in range((3 if not big else 8) * len(orders)):
            order = orders[i % len(orders)]
            m = rng.randint(2, 4)
            pool = [4, 6, 9, 14, 22, 30, 30, 40] + ([rng.randint(60, 150)] if i % 5 == 0 else [])
            if order == "same-size":
                sizes = [rng.choice([2, 3, 4, 6, 9, 14, 22])] * m
            else:
                sizes = [rng.choice(pool) for _ in range(m)]
                if order in ("tiny-first", "any"):
                    sizes = [rng.choice([2, 3])] * rng.choice([1, 1, 2]) + sizes
                if order == "ascending":
                    sizes.sort()
                elif order == "descending":
                    sizes.sort(reverse=True)
                elif order == "any":
                    rng.shuffle(sizes)
            plain = i % 2 == 0              # the MST clause: no balancing factor, no limit
            bf = 0.0 if plain else rng.choice([0.0, 0.25, 0.5, 1.0, 0.75])
            k = -1 if plain else rng.choice([-1, -1, 1, 2, 3])
            dt = rng.choice(["float64", "float64", "float32"])
            clouds, somas = [], []
            for n in sizes:
                pts = None
                while pts is None:
                    pts = cloud(rng, n) if rng.random() < 0.25 else placed_cloud(rng, n, rng.uniform(10, 100), [0.0, 0.0, 0.0], 1.0, dt)
                clouds.append(pts)
                somas.append(rng.random() < 0.3)
            out.append({"class": f"reuse/{order}/calls{len(sizes)}/bf{bf}/k{k}", "clouds": clouds, "somas": somas, "dtype": dt, "bf": bf, "k": k,
                        "exclude_soma": rng.random() < 0.6, "sort": rng.random() < 0.5, "api": "mst" if bf == 0 and rng.random() < 0.5 else "cuntz"})
        return out

    @staticmethod
    def calls(case):
        """the single-call cases of the sequence"""
        return [{"points": pts, "soma": bool(sm), "dtype": case.get("dtype", "float64"), **{f: case[f] for f in ("bf", "k", "exclude_soma", "sort", "api")},
                 **({"large": True} if len(pts) > 40 else {})} for pts, sm in zip(case["clouds"], case["somas"])]

    def run(self, case):
        tr = MstSuite.transform(case)          # one object for the whole sequence
        res = []
        for sub in self.calls(case):
            pts, soma = MstSuite.inputs(sub)
            try:
                res.append(MstSuite.table(tr(pts, soma)))
            except CaseTimeout:
                raise
            except Exception as e:  # noqa: BLE001 - a call that raises is that call's finding; the later calls are still made
                res.append({"exc": type(e).__name__, "msg": str(e)[:300]})
        return {"calls": res}

    def _pairs(self, case, res):
        subs = self.calls(case)
        rs = res.get("calls") if isinstance(res, dict) else None
        if not isinstance(rs, list) or len(rs) != len(subs):
            return None
        return list(zip(subs, rs))

    def oracle(self, case, res):
        if isinstance(res, dict) and "exc" in res:
            return [("mst-raises", f"{res['exc']}: {res.get('msg')}")]
        try:
            pairs = self._pairs(case, res)
        except Exception:  # noqa: BLE001
            pairs = None
        if pairs is None:
            return [("mst-malformed-output", f"no result per call: {str(res)[:200]}")]
        sizes = [len(sub["points"]) for sub, _ in pairs]
        out = []
        for i, (sub, r) in enumerate(pairs):
            for key, msg in MST.oracle(sub, r):
                out.append((key, f"call {i + 1} of {len(pairs)} of one transform object (clouds of {sizes} points incl. soma, in this order): {msg}"))
        return out[:3]

    def lines(self, case, res):
        pairs = None if not isinstance(res, dict) or "exc" in res else self._pairs(case, res)
        out = []
        for sub, r in pairs or []:
            if len(sub["points"]) <= 22:
                out += MST.lines(sub, r)
        return out

    def nontrivial(self, case, res):
        return len(case["clouds"]) >= 2 and max(len(c) for c in case["clouds"]) >= 4


class GenLoopSuite(Suite):
    """The loop GENERATED from the source (`gmst`) against the real function where the property text is silent but the refinement theorem
    is not: limits 0 and below -1 (`RefineMst.limitOf`: a point closes at its first child; once every cell is masked numpy's `argmin`
    returns cell (0, 0)), one and two points, no final sort (the parents as the loop leaves them).  No oracle: these are the code's
    quirks, compared exactly on small integer clouds whose costs are far from ties."""
    name = "c17.genloop"

    def cases(self, rng, tier, widen):
        out = []
        for n in (1, 2, 3, 4, 5, 7):
            for k in (0, -2, 1, -1):
                pts = cloud(rng, n, dim=rng.choice([2, 3]))
                out.append({"class": f"genloop/n{n}/k{k}", "points": pts, "bf": rng.choice([0.0, 0.5, 1.0]), "k": k,
                            "exclude_soma": rng.random() < 0.5})
        return out

    def run(self, case):
        from swcgeom.transforms import PointsToCuntzMST

        pts = np.array(case["points"], dtype=np.float64)
        t = PointsToCuntzMST(bf=case["bf"], furcations=case["k"], exclude_soma=case["exclude_soma"], sort=False)(pts)
        return {"pid": t.pid().tolist()}

    def lines(self, case, res):
        if "exc" in res:
            return []
        _, amb = reference(case["points"], case["bf"], -1, True, 1e-9)        # near-ties are resolved by float rounding: skip
        if amb and len(case["points"]) > 2:
            return []
        P = np.array(case["points"], dtype=np.float64)
        d = np.linalg.norm(P.reshape((-1, 1, 3)) - P.reshape((1, -1, 3)), axis=2)
        rows = ";".join(",".join(str(Fraction(float(v))) for v in row) for row in d)
        return [(f"gmst bf={Fraction(case['bf'])} k={case['k']} ex={int(case['exclude_soma'])} d={rows}", gen.ints(res["pid"]))]

    def nontrivial(self, case, res):
        return len(case["points"]) >= 3


class GenCallSuite(Suite):
    """The WHOLE `PointsToCuntzMST.__call__` / `PointsToMST.__call__` as GENERATED from the source (`gmstcall`: soma handling, distance matrix,
    greedy loop, assembly of the table) against the real call with `sort=False`: ids, types, the radius and the parents compared exactly, x, y, z of
    the tree against the float32 cast (`Tree.__init__`) of the generated float64 columns.
    The vector norm is a parameter of the generated definition: it is given the float norms the library computes, as exact rationals (a table
    difference vector -> norm; a cloud in which one exact difference vector would need two different float norms is skipped). A soma that is not a
    triple must raise in both."""
    name = "c17.gencall"

    def cases(self, rng, tier, widen):
        out = []
        for n in (1, 2, 3, 4, 5, 7):
            for k in (-1, 1, 2, 0):
                for soma in ("none", "list", "array"):
                    lattice = rng.random() < 0.6
                    pts = cloud(rng, n + (soma != "none"), dim=rng.choice([2, 3]))
                    if not lattice:
                        pts = [[c / 8 + rng.uniform(-0.05, 0.05) for c in q] for q in pts]
                    bf = rng.choice([0.0, 0.5, 1.0, 0.4])
                    out.append({"class": f"gencall/n{n}/k{k}/soma-{soma}/{'lattice' if lattice else 'float'}", "points": pts, "bf": bf, "k": k,
                                "exclude_soma": rng.random() < 0.5, "soma": soma, "api": "mst" if bf == 0.0 and rng.random() < 0.5 else "cuntz"})
        for bad in ([1.0, 2.0], [1.0, 2.0, 3.0, 4.0]):
            out.append({"class": f"gencall/bad-soma{len(bad)}", "points": [bad] + cloud(rng, 3), "bf": 0.4, "k": 2, "exclude_soma": True, "soma": "list",
                        "api": "cuntz"})
        return out

    @staticmethod
    def inputs(case):
        rows = case["points"]
        if case["soma"] == "none":
            return np.array(rows, dtype=np.float64), None
        s = [float(c) for c in rows[0]]
        return np.array(rows[1:], dtype=np.float64).reshape((-1, 3)), (s if case["soma"] == "list" else np.array(s, dtype=np.float64))

    def run(self, case):
        from swcgeom.transforms import PointsToCuntzMST, PointsToMST

        pts, soma = self.inputs(case)
        if case["api"] == "mst":
            tr = PointsToMST(case["k"], exclude_soma=case["exclude_soma"], sort=False)
        else:
            tr = PointsToCuntzMST(bf=case["bf"], furcations=case["k"], exclude_soma=case["exclude_soma"], sort=False)
        tg, ts = int(tr.types.glia_processes), int(tr.types.soma)
        try:
            t = tr(pts, soma)
        except Exception as e:  # noqa: BLE001 - the generated definition must raise too
            return {"raised": type(e).__name__, "tg": tg, "ts": ts}
        r = t.r().tolist()
        return {"id": t.id().tolist(), "type": t.type().tolist(), "x": t.x().tolist(), "y": t.y().tolist(), "z": t.z().tolist(), "r": r,
                "pid": t.pid().tolist(), "tg": tg, "ts": ts}

    def lines(self, case, res):
        if not isinstance(res, dict) or "exc" in res:
            return []
        frs = lambda row: ",".join(str(Fraction(float(v))) for v in row) if len(row) else "_"
        pts, soma = self.inputs(case)
        somas = "-" if soma is None else frs(list(soma))
        args = f"bf={Fraction(case['bf'])} k={case['k']} ex={int(case['exclude_soma'])} tg={res['tg']} ts={res['ts']} soma={somas} p={';'.join(frs(q) for q in pts)}"
        if "raised" in res:
            return [(f"gmstcall {args} d=", "E")]
        _, amb = reference(case["points"], case["bf"], -1, True, 1e-9)        # near-ties are resolved by float rounding: skip
        if amb and len(case["points"]) > 2:
            return []
        P = np.array(case["points"], dtype=np.float64)
        d = np.linalg.norm(P.reshape((-1, 1, 3)) - P.reshape((1, -1, 3)), axis=2)
        table = {}
        for i, a in enumerate(case["points"]):
            for j, b in enumerate(case["points"]):
                key = tuple(Fraction(float(x)) - Fraction(float(y)) for x, y in zip(a, b))
                if table.setdefault(key, float(d[i, j])) != float(d[i, j]):
                    return []          # the float norm is not a function of the EXACT difference vector on this cloud
        if len(set(res["r"])) != 1:
            return [(f"gmstcall {args} d={';'.join(frs(row) for row in d)}", f"radius column is not constant: {res['r'][:8]}")]
        # `Tree.__init__` stores x, y, z, r as float32: the real tree's column must be the float32 cast of the generated (float64) column
        allp = [[float(c) for c in q] for q in case["points"]]
        cols = []
        for k, name in enumerate("xyz"):
            col = [q[k] for q in allp]
            cols.append(col if [float(np.float32(c)) for c in col] == [float(c) for c in res[name]] else res[name])
        want = "|".join([gen.ints(res["id"]), gen.ints(res["type"]), frs(cols[0]), frs(cols[1]), frs(cols[2]), str(Fraction(float(res["r"][0]))),
                         gen.ints(res["pid"])])
        return [(f"gmstcall {args} d={';'.join(frs(row) for row in d)}", want)]

    def nontrivial(self, case, res):
        return len(case["points"]) >= 3 and "raised" not in res


class GenRestSuite(Suite):
    """The rest of `transforms/mst.py` as GENERATED from the source: the constructors `PointsToCuntzMST.__init__` / `PointsToMST.__init__` (`gmstctor`:
    the attributes `bf`, `furcations`, `exclude_soma`, `sort` the loop later reads, under every spelling of the arguments — keyword, positional,
    deprecated alias `k_furcations`, default, `sort` forwarded through `**kwargs` — and values of `bf` on both sides of `np.clip`'s interval) and the final
    `if self.sort: t = sort_tree(t)` (`gmsttail`: the columns id / pid / type of the tree built with `sort=False` pushed through the generated tail must be
    those of the tree built with `sort=True`)."""
    name = "c17.genrest"
    CUNTZ_DEFAULTS = {"bf": 0.4, "furcations": 2, "exclude_soma": True, "sort": True}      # checked against the `def` by the spec (`defaults`)

    def cases(self, rng, tier, widen):
        out = []
        for bf in (None, -0.5, 0.0, 0.25, 1.0, 1.5, 3):
            for k in (None, -1, 0, 1, 3):
                kw = {}
                if bf is not None:
                    kw["bf"] = bf
                if k is not None:
                    kw["furcations"] = k
                if rng.random() < 0.5:
                    kw["exclude_soma"] = rng.random() < 0.5
                if rng.random() < 0.5:
                    kw["sort"] = rng.random() < 0.5
                out.append({"class": "genrest/ctor/cuntz", "api": "cuntz", "args": [], "kw": kw})
        for pos in (None, -1, 1, 4):
            for kwf in (None, 3):
                for alias in (None, -1, 5):
                    if pos is not None and kwf is not None:
                        continue
                    kw = {}
                    if kwf is not None:
                        kw["furcations"] = kwf
                    if alias is not None:
                        kw["k_furcations"] = alias
                    if rng.random() < 0.5:
                        kw["exclude_soma"] = rng.random() < 0.5
                    if rng.random() < 0.5:
                        kw["sort"] = rng.random() < 0.5
                    out.append({"class": "genrest/ctor/mst", "api": "mst", "args": [] if pos is None else [pos], "kw": kw})
        for n in (1, 2, 3, 5, 8, 12):
            for k in (-1, 2):
                out.append({"class": f"genrest/tail/n{n}/k{k}", "api": "tail", "points": cloud(rng, n), "bf": rng.choice([0.0, 0.5]), "k": k})
        return out

    def run(self, case):
        from swcgeom.transforms import PointsToCuntzMST, PointsToMST

        if case["api"] == "tail":
            pts = np.array(case["points"], dtype=np.float64)
            cols = lambda t: {"id": t.id().tolist(), "pid": t.pid().tolist(), "type": t.type().tolist()}
            return {"raw": cols(PointsToCuntzMST(bf=case["bf"], furcations=case["k"], sort=False)(pts)),
                    "sorted": cols(PointsToCuntzMST(bf=case["bf"], furcations=case["k"], sort=True)(pts)),
                    "default": cols(PointsToCuntzMST(bf=case["bf"], furcations=case["k"])(pts))}
        cls = PointsToMST if case["api"] == "mst" else PointsToCuntzMST
        with warnings.catch_warnings(record=True) as w:
            warnings.simplefilter("always")
            tr = cls(*case["args"], **case["kw"])
        return {"bf": str(Fraction(float(tr.bf))), "k": int(tr.furcations), "ex": bool(tr.exclude_soma), "sort": bool(tr.sort),
                "warn": sum(1 for x in w if issubclass(x.category, DeprecationWarning))}

    def lines(self, case, res):
        if not isinstance(res, dict) or "exc" in res:
            return []
        if case["api"] == "tail":
            r = res["raw"]
            args = f"ids={gen.ints(r['id'])} pids={gen.ints(r['pid'])} types={gen.ints(r['type'])}"
            show = lambda c: "|".join([gen.ints(c["id"]), gen.ints(c["pid"]), gen.ints(c["type"])])
            return [(f"gmsttail {args} sort=1", show(res["sorted"])), (f"gmsttail {args} sort=0", show(r)),
                    (f"gmsttail {args} sort=1", show(res["default"]))]
        kw = case["kw"]
        b = lambda x: str(int(bool(x)))
        if case["api"] == "cuntz":
            d = dict(self.CUNTZ_DEFAULTS, **kw)
            line = f"gmstctor cls=cuntz bf={Fraction(float(d['bf']))} k={d['furcations']} ex={b(d['exclude_soma'])} sort={b(d['sort'])}"
            return [(line, "|".join([res["bf"], str(res["k"]), b(res["ex"]), b(res["sort"])]))]
        k = case["args"][0] if case["args"] else kw.get("furcations", 2)
        kf = kw.get("k_furcations")
        line = (f"gmstctor cls=mst k={k} kf={'-' if kf is None else kf} ex={b(kw.get('exclude_soma', True))} "
                f"sort={b(kw['sort']) if 'sort' in kw else '-'}")
        return [(line, "|".join([res["bf"], str(res["k"]), b(res["ex"]), b(res["sort"]), ",".join(["0"] * res["warn"])]))]

    def nontrivial(self, case, res):
        return True


MST = MstSuite()
SUITES = [MST, ReuseSuite(), GenLoopSuite(), GenCallSuite(), GenRestSuite()]
TECHNIQUE = ("Lean 4 theorems about the model of the greedy loop (mask invariant: open cells are exactly connected-unsaturated source × unconnected target; each "
             "iteration connects one new point to an earlier one with the least edge + bf·path cost; child counts never exceed the limit; n-1 iterations give a "
             "spanning tree rooted at 0; for bf = 0 and no limit the exchange argument carried through the whole loop: the returned tree is no longer than any connected spanning edge list, and is itself one) + differential correspondence on the code's own distance matrix + independent re-simulation of the stated rule and a "
             "Kruskal oracle for the MST weight")
LEVEL_TEXT = ("Kernel-checked for every distance matrix, balancing factor and branching limit: the loop maintains the mask invariant, so every iteration attaches "
              "a not yet connected point to an already connected, unsaturated one that minimises edge length + bf·(path length of the attachment point); after n-1 "
              "iterations every point has exactly one parent chain to point 0; no non-exempt point exceeds the limit. For bf=0 without a limit the total length equals the minimum over all "
              "connected spanning edge lists of a symmetric non-negative matrix (prim_minimal + prim_attains: Prim's exchange argument, every n); Kruskal is the independent oracle.")
LEVEL_NOTE = "Trusted: Lean kernel; model proved equal to the translated __call__ (soma handling, distance matrix from a parametric norm, greedy loop, table assembly, constructors, final sort) and compared on the code's float64 distance matrix; float rounding of costs; numpy masked argmin."
