"""C10 — morphometric features equal their textbook definitions."""
import math
import os
import shutil
import tempfile
import warnings
from fractions import Fraction

import numpy as np

from harness import gen
from harness.framework import Suite
from harness.swctext import Expect

PID = "C10"
TRANSLATE = True
# Gen/AlgoLMeasure.lean is regenerated on every run from analysis/lmeasure.py (n_stems, n_bifs, n_branch, n_tips, branch_order, terminal_degree,
# partition_asymmetry, fragmentation), tree.py (Tree.soma, Tree.get_tips, Tree.Node.subtree), swc.py (number_of_edges); it calls the node handles
# (Gen/AlgoNode), get_furcations / get_branches (Gen/AlgoBranches) and get_subtree_impl (Gen/AlgoSubtree), all over the generated traversal
TRANSLATE_ALGO = ["AlgoTraverse", "AlgoNode", "AlgoBranches", "AlgoSubtree", "AlgoLMeasure", "AlgoSholl", "AlgoFeatFront", "AlgoBranchTree", "AlgoNodeFeat", "AlgoNodeBranch", "AlgoLmGeo"]
DRIVER_FILES = ["SwcVerif/Model/AlgoRunLMeasure.lean", "SwcVerif/Model/AlgoRunLmGeo.lean", "SwcVerif/Model/PyLmGeo.lean", "SwcVerif/Model/PyMore.lean", "SwcVerif/Model/AlgoRunSholl.lean", "SwcVerif/Model/PySholl.lean",
                "SwcVerif/Model/PyResample.lean", "SwcVerif/Model/AlgoRunNodeFeat.lean", "SwcVerif/Model/PyNodeFeat.lean"]
LEAN_MODS = ["SwcVerif.Props.C10", "SwcVerif.Proofs.Represent", "SwcVerif.Props.C10Gen", "SwcVerif.Props.C10Sholl", "SwcVerif.Props.C10NodeFeat", "SwcVerif.Props.C10NodeFeat2", "SwcVerif.Props.C10LmGeo"]
THEOREMS = [
    "C10.length_eq_sum_edges", "C10.chainLength_eq", "C10.length_eq_sum_branches", "C10.branches_eq", "C10.counts", "C10.path_distance_eq_sum",
    "C10.branch_order_eq_furcations_on_path", "C10.terminal_degree_eq_tips_below", "C10.sholl_eq_straddle_count", "C10.partition_asymmetry_def",
    "C10.fragmentation_eq", "C10.population_rows", "Represent.wf_represented",
    # refinement: the definitions generated from lmeasure.py / tree.py / node.py on this run compute the quantities of their definitions
    "RefineLm.branchOrder_refines", "RefineLm.nStems_refines", "RefineLm.getTips_refines", "RefineLm.nTips_refines", "RefineLm.nBifs_refines",
    "RefineLm.nBranch_refines", "RefineLm.fragmentation_refines", "RefineLm.node_subtree_eq", "RefineLm.terminalDegree_reduces", "RefineLm.subtree_bound",
    "RefineLm.kids_closed", "RefineLm.terminalDegree_refines", "C10.generated_terminal_degree", "C10.generated_terminal_degree_wf",
    "C10.generated_branch_order", "C10.generated_branch_order_eq_model", "C10.generated_n_stems", "C10.generated_n_tips", "C10.generated_n_tips_tree",
    "C10.generated_n_bifs", "C10.generated_n_branch", "C10.generated_fragmentation",
    # refinement (T16): the definitions generated from sholl.py / tree.py / compartment.py / feature_extractor.py on this run
    "RefineSholl.segments_refines", "RefineSholl.compartments_get_ndata_refines", "RefineSholl.init_refines", "RefineSholl.init_single",
    "RefineSholl.intersect_refines", "RefineSholl.get_arr_refines", "RefineSholl.get_arr_eq_intersect", "RefineSholl.get_int_refines",
    "RefineSholl.get_rs_self_int_eq", "RefineSholl.population_refines", "RefineSholl.populations_refines",
    "C10.generated_sholl_init", "C10.generated_sholl_init_single", "C10.generated_sholl_intersect", "C10.generated_sholl_get",
    "C10.generated_sholl_get_steps", "C10.generated_population_rows", "C10.generated_populations_blocks", "C10.generated_populations_empty",
    # refinement (T22): the definitions generated from features.py / path.py / tree.py on this run (Gen/AlgoNodeFeat.lean)
    "RefineNf.seg_length", "RefineNf.length_loop", "RefineNf.tree_length_refines", "RefineNf.tortuosity_refines", "RefineNf.straight_refines",
    "RefineNf.radial_refines", "RefineNf.node_count_refines",
    "C10.generated_tree_length", "C10.generated_tortuosity", "C10.generated_straight_line_distance", "C10.generated_radial_distance",
    "C10.generated_node_count",
    # refinement (T28 `nodefeat2`): branch order = depth in the branch tree, furcation / tip masks and subset features, Path.length on arbitrary
    # row lists, BranchFeatures.get_length, and the sum of the translated branch lengths = the translated Tree.length
    "RefineNf2.assign_depth_eq", "RefineNf2.spec_depth", "RefineNf2.branch_order_refines", "RefineNf2.furcation_nodes_refines",
    "RefineNf2.tip_nodes_refines", "RefineNf2.subset_count_refines", "RefineNf2.subset_radial_refines", "RefineNf2.path_length_refines",
    "RefineNf2.bf_length_refines", "RefineNf2.calc_angle_refines", "C10.generated_calc_angle", "C10.generated_calc_angle_degenerate",
    "C10.generated_nf_branch_order", "C10.generated_nf_branch_order_tree", "C10.generated_furcation_nodes", "C10.generated_tip_nodes",
    "C10.generated_furcation_count", "C10.generated_tip_count", "C10.generated_furcation_radial", "C10.generated_tip_radial",
    "C10.generated_path_length", "C10.generated_bf_length", "C10.generated_sum_branch_lengths_eq_tree_length",
    # refinement (T21 `lmgeo`): the geometric L-Measure functions generated from lmeasure.py / node.py / path.py on this run
    "RefineLmGeo.node_xyz_eq", "RefineLmGeo.node_distance_eq", "RefineLmGeo.pathDistance_refines", "RefineLmGeo.eucDistance_refines",
    "RefineLmGeo.diameter_refines", "RefineLmGeo.rallPowerD_refines", "RefineLmGeo.rallPowerD_not_bif", "RefineLmGeo.rallPowerD_root",
    "RefineLmGeo.pk2_refines", "RefineLmGeo.bifVectorLocal_refines", "RefineLmGeo.bifVectorLocal_not_bif", "RefineLmGeo.bifAmplLocal_refines",
    "RefineLmGeo.pathLength_refines", "RefineLmGeo.branchPathlength_refines", "RefineLmGeo.contraction_refines", "RefineLmGeo.taper1_refines",
    "RefineLmGeo.taper2_refines", "RefineLmGeo.branch_last", "RefineLmGeo.bifVectorRemote_refines", "RefineLmGeo.bifAmplRemote_refines",
    "RefineLmGeo.bifVectorRemote_not_bif", "C10.generated_bif_ampl_remote",
    "RefineLmGeo.length_refines", "RefineLmGeo.sectionArea_refines", "RefineLmGeo.volume_refines", "RefineLmGeo.surface_refines", "RefineLmGeo.comp_point",
    "C10.generated_compartment_measures",
    "C10.generated_path_distance", "C10.generated_euc_distance", "C10.generated_diameter", "C10.generated_rall_power_d", "C10.generated_pk_2",
    "C10.generated_bif_ampl_local", "C10.generated_branch_measures", "C10.generated_contraction_of_node_branch",
]
TRUSTED = ["hand-written models Model/Features.lean (lengths as sums of edge lengths, counts, orders, Sholl straddle rule), tied by the c10.features correspondence "
           "(exact on lattice trees whose edges are axis-aligned with integer length); partition_asymmetry is regenerated from lmeasure.py (Gen/LMeasureArith.lean)",
           "geometric L-Measure functions (Gen/AlgoLmGeo.lean, harness/algo_specs/41_lmgeo.py): the Euclidean norm, `np.degrees` and the module-level `angle` are "
           "pure parameters; glue: a Path's `self.xyz()` = the rows of the tree's coordinate columns at the path's indices, `branch[0]` / `branch[-1]` = the "
           "tree node at that entry of the branch's index list, `branch.length()` = the translated Path.length; the c10.lmgeo correspondence runs the real "
           "functions with numpy.linalg.norm replaced by the sum of squares (exact on integer lattices)"]
ASSUMPTIONS = ["square roots / float32 accumulation are outside the model (values compared with relative tolerance 1e-5)",
               "tortuosity is the library's documented ratio straight-line distance / path length (1 for a zero-length path)",
               "arccos / degrees of the bifurcation angles are monotone externals: the oracle compares angles computed from the dot-product definition",
               "radii within a float32 place of a node distance (c10.shollnear) are asked as float64 lists / arrays / numpy scalars / Python floats on trees whose "
               "distances are stored exactly (no rounding on either side)"]


def lattice_tree(rng, n, shape):
    pids = gen.renumber_root0(rng, gen.parents_sorted(rng, n, shape))
    n = len(pids)
    kids = {}
    for i, p in enumerate(pids):
        kids.setdefault(p, []).append(i)
    xyz = {0: (rng.randint(-3, 3), rng.randint(-3, 3), rng.randint(-3, 3))}
    elen = [0] * n
    st = [0]
    used = {xyz[0]}
    while st:
        v = st.pop()
        for c in kids.get(v, []):
            for _try in range(100):             # no two nodes at the same place (angles / tortuosity are undefined there)
                ax = rng.randrange(3); L = rng.randint(1, 4 + _try // 10)
                q = list(xyz[v]); q[ax] += rng.choice([-1, 1]) * L
                if tuple(q) not in used:
                    break
            used.add(tuple(q))
            xyz[c] = tuple(q); elen[c] = L; st.append(c)
    return {"n": n, "pids": pids, "types": [1] + [rng.choice([2, 3, 4]) for _ in range(n - 1)], "xyz": [[float(c) for c in xyz[i]] for i in range(n)],
            "r": [rng.randint(1, 8) / 4 for _ in range(n)], "elen": elen}


def truth(t):
    """every quantity straight from its definition, in float64"""
    n, pids = t["n"], t["pids"]
    P = np.array(t["xyz"], dtype=np.float64)
    kids = {}
    for i, p in enumerate(pids):
        kids.setdefault(p, []).append(i)
    nk = lambda v: len(kids.get(v, []))
    d = lambda a, b: float(np.linalg.norm(P[a] - P[b]))
    out = {}
    out["length"] = sum(d(i, pids[i]) for i in range(1, n))
    tips = [i for i in range(n) if nk(i) == 0]
    furc = [i for i in range(n) if nk(i) > 1]
    out["counts"] = {"node": n, "tip": len(tips), "furcation": len(furc), "stems": nk(0)}
    # branches: root/furcation -> furcation/tip through pass-through nodes
    brs = []
    for v in range(n):
        if v == 0 or nk(v) > 1:
            for c in kids.get(v, []):
                b = [v, c]
                while nk(b[-1]) == 1:
                    b.append(kids[b[-1]][0])
                brs.append(b)
    out["branches"] = brs
    plen = lambda b: sum(d(a, c) for a, c in zip(b, b[1:]))
    out["branch_length"] = sorted(plen(b) for b in brs)
    out["branch_tortuosity"] = sorted((d(b[0], b[-1]) / plen(b)) if plen(b) > 0 else 1.0 for b in brs)
    paths = []
    for tip in tips:
        p = [tip]
        while pids[p[-1]] != -1:
            p.append(pids[p[-1]])
        paths.append(p[::-1])
    out["path_length"] = sorted(plen(p) for p in paths)
    out["path_tortuosity"] = sorted((d(p[0], p[-1]) / plen(p)) if plen(p) > 0 else 1.0 for p in paths)
    out["radial"] = [d(i, 0) for i in range(n)]
    def root_path(i):
        p = [i]
        while pids[p[-1]] != -1:
            p.append(pids[p[-1]])
        return p
    out["path_distance"] = [sum(d(a, pids[a]) for a in root_path(i)[:-1]) for i in range(n)]
    out["branch_order_lm"] = [sum(1 for v in root_path(i) if nk(v) > 1) for i in range(n)]
    def tips_below(v):
        st, c = [v], 0
        while st:
            x = st.pop()
            if nk(x) == 0:
                c += 1
            st.extend(kids.get(x, []))
        return c
    out["terminal_degree"] = [tips_below(i) for i in range(n)]
    out["n_branch"] = len(brs)
    pa = {}
    ang_local, ang_remote = {}, {}
    for v in furc:
        if nk(v) == 2:
            a, b = kids[v]
            n1, n2 = tips_below(a), tips_below(b)
            pa[v] = 0.0 if n1 == n2 else abs(n1 - n2) / (n1 + n2 - 2)
            def ang(u, w):
                cu = float(np.dot(u, w) / (np.linalg.norm(u) * np.linalg.norm(w)))
                return math.degrees(math.acos(max(-1.0, min(1.0, cu))))
            ang_local[v] = ang(P[a] - P[v], P[b] - P[v])
            ea, eb = a, b
            while nk(ea) == 1:
                ea = kids[ea][0]
            while nk(eb) == 1:
                eb = kids[eb][0]
            ang_remote[v] = ang(P[ea] - P[v], P[eb] - P[v])
    out["partition_asymmetry"] = pa
    out["bif_ampl_local"] = ang_local
    out["bif_ampl_remote"] = ang_remote
    # tilt: the smaller of the two angles between the parent compartment (seen from the bifurcation) and the daughters;
    # torque: the angle between the plane of this bifurcation and that of the previous branch point (when that is a bifurcation)
    def ang2(u, w):
        nu, nw = np.linalg.norm(u), np.linalg.norm(w)
        if nu < 1e-9 or nw < 1e-9:
            return None
        return math.degrees(math.acos(max(-1.0, min(1.0, float(np.dot(u, w) / (nu * nw))))))
    def far(c):
        while nk(c) == 1:
            c = kids[c][0]
        return c
    tilt_l, tilt_r, tor_l, tor_r = {}, {}, {}, {}
    for v in furc:
        if nk(v) != 2 or v == 0:
            continue
        a, b = kids[v]
        back = P[pids[v]] - P[v]
        tilt_l[v] = min(ang2(back, P[a] - P[v]), ang2(back, P[b] - P[v]))
        tilt_r[v] = min(ang2(back, P[far(a)] - P[v]), ang2(back, P[far(b)] - P[v]))
        q = pids[v]
        while q != 0 and nk(q) == 1:
            q = pids[q]
        if nk(q) == 2:
            qa, qb = kids[q]
            tor_l[v] = ang2(np.cross(P[qa] - P[q], P[qb] - P[q]), np.cross(P[a] - P[v], P[b] - P[v]))
            tor_r[v] = ang2(np.cross(P[far(qa)] - P[q], P[far(qb)] - P[q]), np.cross(P[far(a)] - P[v], P[far(b)] - P[v]))
    out["bif_tilt_local"], out["bif_tilt_remote"], out["bif_torque_local"], out["bif_torque_remote"] = tilt_l, tilt_r, tor_l, tor_r
    # branch order of critical nodes = depth in the branch tree
    crit = [i for i in range(n) if i == 0 or nk(i) != 1]
    def bt_depth(i):
        dpt, j = 0, i
        while j != 0:
            j = pids[j]
            while j != 0 and nk(j) == 1:
                j = pids[j]
            dpt += 1
        return dpt
    out["bt_order"] = sorted((tuple(t["xyz"][i]), bt_depth(i)) for i in crit)
    return out


def glm_lines(t, lm, order, degree, pa, frag):
    """protocol lines for the GENERATED L-Measure functions (driver op `glm`); `lm` = the four counts or None (they raised), `pa` = node -> value
    or "E" (AssertionError: not a bifurcation)"""
    g = f"glm pids={gen.ints(t['pids'])} types={gen.ints(t['types'])}"
    out = []
    if lm is not None:
        out.append((f"{g} what=counts", " ".join(str(lm[k]) for k in ("n_stems", "n_bifs", "n_branch", "n_tips"))))
    out += [(f"{g} what=branch_order", gen.ints(order)), (f"{g} what=terminal_degree", gen.ints(degree)), (f"{g} what=fragmentation", gen.ints(frag))]
    if pa:
        def same(want):
            def f(got):
                vals = got.split()
                if len(vals) != len(want):
                    return False
                for x, w in zip(vals, want):
                    if w == "E" or x == "E":
                        if x != w:
                            return False
                    else:
                        a, b = x.split("/")
                        if int(a) / int(b) != w:          # Python's int / int is the correctly rounded quotient: exact comparison
                            return False
                return True
            return f
        nodes = sorted(pa, key=int)
        want = [pa[v] for v in nodes]
        out.append((f"{g} what=partition_asymmetry nodes={gen.ints([int(v) for v in nodes])}", Expect(same(want), str(want))))
    return out


def lm_topo_measure(lm, t, n):
    """the topological L-Measure functions of the analyser `lm` on the tree `t`, at every node / branch"""
    res = {}
    with warnings.catch_warnings():
        warnings.simplefilter("ignore")
        try:
            res["lm"] = {"n_stems": int(lm.n_stems(t)), "n_bifs": int(lm.n_bifs(t)), "n_branch": int(lm.n_branch(t)), "n_tips": int(lm.n_tips(t))}
        except ValueError as e:
            res["lm"] = None
            res["lm_exc"] = str(e)[:40]
            res["lm_rest"] = [int(lm.n_bifs(t)), int(lm.n_branch(t)), int(lm.n_tips(t))]
        res["order"] = [int(lm.branch_order(t.node(i))) for i in range(n)]
        res["degree"] = [int(lm.terminal_degree(t.node(i))) for i in range(n)]
        res["pa"] = {}
        for i in range(n):
            try:
                res["pa"][str(i)] = float(lm.partition_asymmetry(t.node(i)))
            except AssertionError:
                res["pa"][str(i)] = "E"
        res["frag"] = [int(lm.fragmentation(b)) for b in t.get_branches()]
    return res


class LmTopo(Suite):
    """the topological L-Measure functions on trees of every shape and numbering (parents may follow their children), on every small tree
    exhaustively, at every node; the counts also on trees whose root is not typed as soma (`Tree.soma` refuses)"""
    name = "c10.lmtopo"

    def cases(self, rng, tier, widen):
        out = []
        big = tier == "thorough" or widen
        for n in range(1, 6 if big else 5):
            for pids in gen.all_root0_trees(n):
                out.append({"class": f"all-n{n}", "n": n, "pids": pids, "types": [1] + [3] * (n - 1)})
        k = 0
        for n in gen.sizes(tier, widen):
            for _ in range(3 if not big else 6):
                shape = gen.pick_shape(rng, k); k += 1
                pids = gen.parents_sorted(rng, n, shape)
                if k % 3:
                    pids = gen.renumber_root0(rng, pids)
                ty = [1 if k % 5 else rng.choice([0, 2, 3])] + [rng.choice([1, 2, 3, 4]) for _ in range(len(pids) - 1)]
                out.append({"class": shape + ("/root0" if k % 3 else "/sorted") + ("" if ty[0] == 1 else "/no-soma"), "n": len(pids), "pids": pids, "types": ty})
        return out

    def run(self, case):
        from swcgeom.analysis.lmeasure import LMeasure

        n = case["n"]
        t = gen.make_tree(dict(case, xyz=[[float(i), float(i * i % 7), float(i % 3)] for i in range(n)], r=[1.0] * n))
        return lm_topo_measure(LMeasure(), t, n)

    def lines(self, case, res):
        if "exc" in res:
            return []
        out = glm_lines(case, res["lm"], res["order"], res["degree"], res["pa"], res["frag"])
        if res["lm"] is None:
            out.append((f"glm pids={gen.ints(case['pids'])} types={gen.ints(case['types'])} what=counts", "E " + " ".join(str(v) for v in res["lm_rest"])))
        return out

    def oracle(self, case, res):
        pids, n = case["pids"], case["n"]
        if "exc" in res:
            return [("lm-raises", f"{res['exc']}: {res.get('msg')} on pids={pids}")]
        kids = {}
        for i, p in enumerate(pids):
            kids.setdefault(p, []).append(i)
        nk = lambda v: len(kids.get(v, []))
        def below(v):
            st, c = [v], 0
            while st:
                x = st.pop()
                c += nk(x) == 0
                st.extend(kids.get(x, []))
            return c
        def up(i):
            p = [i]
            while pids[p[-1]] != -1:
                p.append(pids[p[-1]])
            return p
        out = []
        tips, furc = sum(1 for i in range(n) if nk(i) == 0), sum(1 for i in range(n) if nk(i) > 1)
        nbr = sum(nk(v) for v in range(n) if v == 0 or nk(v) > 1)
        if case["types"][0] == 1:
            if res["lm"] is None:
                out.append(("lm-counts", f"the counts raised {res.get('lm_exc')} on a tree with a soma (pids={pids})"))
            elif [res["lm"][k] for k in ("n_stems", "n_bifs", "n_branch", "n_tips")] != [nk(0), furc, nbr, tips]:
                out.append(("lm-counts", f"n_stems/n_bifs/n_branch/n_tips {res['lm']}, the definitions give {[nk(0), furc, nbr, tips]} (pids={pids})"))
        elif res["lm"] is None and res["lm_rest"] != [furc, nbr, tips]:
            out.append(("lm-counts", f"n_bifs/n_branch/n_tips {res['lm_rest']}, the definitions give {[furc, nbr, tips]} (pids={pids})"))
        want = [sum(1 for v in up(i) if nk(v) > 1) for i in range(n)]
        if res["order"] != want:
            out.append(("lm-branch-order", f"branch order {res['order']}, furcations on the root paths: {want} (pids={pids})"))
        want = [below(i) for i in range(n)]
        if res["degree"] != want:
            out.append(("lm-terminal-degree", f"terminal degree {res['degree']}, tips at or below: {want} (pids={pids})"))
        for i in range(n):
            got = res["pa"][str(i)]
            if nk(i) == 2:
                a, b = (below(c) for c in kids[i])
                w = 0.0 if a == b else abs(a - b) / (a + b - 2)
                if got == "E" or abs(got - w) > 1e-12:
                    out.append(("lm-partition-asymmetry", f"partition asymmetry at {i}: {got}, the definition gives {w} (pids={pids})")); break
        return out[:3]

    def nontrivial(self, case, res):
        return case["n"] >= 3


class Features(Suite):
    name = "c10.features"
    case_timeout = 120

    def cases(self, rng, tier, widen):
        out = []
        big = tier == "thorough" or widen
        k = 0
        for n in [1, 2, 3, 4, 6, 9, 14, 25] + ([60, 150] if big else []):
            for _ in range(2 if not big else 5):
                shape = gen.pick_shape(rng, k); k += 1
                t = lattice_tree(rng, n, shape)
                # radii strictly between node distances, and radii that coincide EXACTLY with node distances (perfect squares, exact in
                # float32 and float64): the count "at any radius" includes the boundary convention (one end ≤ r, the other > r)
                rs2 = sorted({rng.randint(0, 40) + 0.5 for _ in range(5)} | {1.0, 4.0, 9.0, 16.0, 25.0})
                # "at any radius": the caller's radii in any order (descending, outside-in, shuffled), some beyond the tree's extent
                rs2 = rs2 + [400.5, 900.0, 2500.5]
                order = k % 4
                if order == 1:
                    rs2.reverse()
                elif order == 2:
                    rs2 = [v for pair in zip(rs2[::-1], rs2) for v in pair][:len(rs2)]
                elif order == 3:
                    rng.shuffle(rs2)
                case = {"class": shape, "tree": t, "sholl_r2": rs2, "population": rng.random() < (0.3 if not big else 0.5)}
                # a third of the trees are DERIVED from a tree that was measured before (copy + node edits, or a library transform):
                # what is reported must be the derived tree's own morphometrics
                m = k % 3
                if m == 1 and t["n"] >= 2:
                    case["warm"] = {"how": "scale2", "xyz": t["xyz"]}
                    case["tree"] = dict(t, xyz=[[2 * c for c in q] for q in t["xyz"]], elen=[2 * e for e in t["elen"]])
                    case["class"] = shape + "/derived-scale"
                elif m == 2 and t["n"] >= 2:
                    other = lattice_tree(rng, t["n"], shape)
                    case["warm"] = {"how": "edit", "xyz": [[c * 3.0 + 0.5 for c in q] for q in t["xyz"]]}
                    case["class"] = shape + "/derived-edit"
                out.append(case)
        return out

    def run(self, case):
        from swcgeom.analysis import Sholl, extract_feature
        from swcgeom.analysis.features import BranchFeatures, FurcationFeatures, NodeFeatures, PathFeatures, TipFeatures
        from swcgeom.analysis.lmeasure import LMeasure
        from swcgeom.core import Population

        n = case["tree"]["n"]
        if case.get("warm"):
            from swcgeom.transforms import Scale

            t0 = gen.make_tree(dict(case["tree"], xyz=case["warm"]["xyz"]))
            with warnings.catch_warnings():
                warnings.simplefilter("ignore")
                t0.length(); fe0 = extract_feature(t0); fe0.get("length"); fe0.get("branch_length"); Sholl(t0).get(); t0.get_branches(); t0.get_paths()
                NodeFeatures(t0).get_radial_distance(); LMeasure().path_distance(t0.node(n - 1))
            if case["warm"]["how"] == "scale2":
                t = Scale(2, 2, 2, center="origin")(t0)
            else:
                t = t0.copy()
                for i, q in enumerate(case["tree"]["xyz"]):
                    nd = t.node(i); nd.x, nd.y, nd.z = q
            assert np.array_equal(t.xyz().astype(float), np.array(case["tree"]["xyz"], dtype=float)), "harness: derived tree is not where it should be"
        else:
            t = gen.make_tree(case["tree"])
        res = {}
        with warnings.catch_warnings():
            warnings.simplefilter("ignore")
            res["length"] = float(t.length())
            nf = NodeFeatures(t)
            res["node_count"] = float(nf.get_count()[0])
            res["radial"] = [float(v) for v in nf.get_radial_distance()]
            if n > 1:
                order = nf.get_branch_order()
                bt = nf._branch_tree
                res["bt_order"] = sorted((tuple(float(c) for c in bt.xyz()[i]), int(order[i])) for i in range(len(order)))
            res["tip_count"] = float(TipFeatures(nf).get_count()[0])
            res["furcation_count"] = float(FurcationFeatures(nf).get_count()[0])
            res["tip_radial"] = sorted(float(v) for v in TipFeatures(nf).get_radial_distance())
            pf, bf = PathFeatures(t), BranchFeatures(t)
            res["path_count"] = int(pf.get_count()); res["branch_count"] = int(bf.get_count())
            res["path_length"] = sorted(float(v) for v in pf.get_length())
            res["path_tortuosity"] = sorted(float(v) for v in pf.get_tortuosity())
            res["branch_length"] = sorted(float(v) for v in bf.get_length())
            res["branch_tortuosity"] = sorted(float(v) for v in bf.get_tortuosity())
            if n > 1:
                sh = Sholl(t)
                rs = [math.sqrt(v) for v in case["sholl_r2"]]
                res["sholl_get"] = [int(v) for v in sh.get(steps=rs)]
                res["sholl_intersect"] = [int(sh.intersect(r)) for r in rs]
            lm = LMeasure()
            res["lm"] = {"n_stems": int(lm.n_stems(t)), "n_bifs": int(lm.n_bifs(t)), "n_branch": int(lm.n_branch(t)), "n_tips": int(lm.n_tips(t))}
            res["path_distance"] = [float(lm.path_distance(t.node(i))) for i in range(n)]
            res["euc_distance"] = [float(lm.euc_distance(t.node(i))) for i in range(n)]
            res["branch_order_lm"] = [int(lm.branch_order(t.node(i))) for i in range(n)]
            res["terminal_degree"] = [int(lm.terminal_degree(t.node(i))) for i in range(n)]
            kids = {}
            for i, p in enumerate(case["tree"]["pids"]):
                kids.setdefault(p, []).append(i)
            res["partition_asymmetry"] = {}; res["bif_ampl_local"] = {}; res["bif_ampl_remote"] = {}
            for v, ks in kids.items():
                if v >= 0 and len(ks) == 2:
                    res["partition_asymmetry"][str(v)] = float(lm.partition_asymmetry(t.node(v)))
                    res["bif_ampl_local"][str(v)] = float(lm.bif_ampl_local(t.node(v)))
                    res["bif_ampl_remote"][str(v)] = float(lm.bif_ampl_remote(t.node(v)))
            res["bif_tilt_local"] = {}; res["bif_tilt_remote"] = {}; res["bif_torque_local"] = {}; res["bif_torque_remote"] = {}
            for v, ks in kids.items():
                if v > 0 and len(ks) == 2:
                    for name in ("bif_tilt_local", "bif_tilt_remote", "bif_torque_local", "bif_torque_remote"):
                        try:
                            res[name][str(v)] = float(getattr(lm, name)(t.node(v)))
                        except AssertionError as e:      # "only defined for bifurcations": the previous branch point has not two children
                            res[name][str(v)] = {"undefined": str(e)[:60]}
                        except Exception as e:  # noqa: BLE001
                            res[name][str(v)] = {"exc": type(e).__name__, "msg": str(e)[:80]}
            brs = t.get_branches()
            res["fragmentation"] = sorted(int(lm.fragmentation(b)) for b in brs)
            res["fragmentation_ordered"] = [int(lm.fragmentation(b)) for b in brs]
            res["contraction"] = sorted(float(lm.contraction(b)) for b in brs)
            fe = extract_feature(t)
            res["fe"] = {k: [float(v) for v in np.atleast_1d(fe.get(k))] for k in
                         ["length", "node_count", "tip_count", "furcation_count", "path_length", "branch_length", "node_radial_distance"]}
            res["fe"]["path_length"].sort(); res["fe"]["branch_length"].sort()
            # every named feature of the front end, in its three calling forms (name, list, dict)
            from swcgeom.analysis import get_volume

            names = ["node_branch_order", "furcation_radial_distance", "tip_radial_distance", "branch_tortuosity", "path_tortuosity"]
            res["fe2"] = {k: sorted(float(v) for v in np.atleast_1d(fe.get(k))) for k in names} if n > 1 else {}
            res["fe_volume"] = [float(v) for v in np.atleast_1d(fe.get("volume", accuracy=3))]      # an analytic level: deterministic
            res["volume_direct"] = float(get_volume(t, accuracy=3))
            if n > 1:
                rs_ = [math.sqrt(v) for v in case["sholl_r2"]]
                res["fe_sholl"] = [float(v) for v in fe.get("sholl", steps=rs_)]
                lst = fe.get(["length", ("sholl", {"steps": rs_}), "tip_count"])
                dct = fe.get({"length": {}, "sholl": {"steps": rs_}})
                res["fe_forms"] = {"list": [[float(v) for v in np.atleast_1d(x)] for x in lst], "dict": {k: [float(v) for v in np.atleast_1d(x)] for k, x in dct.items()}}
                sh_ = Sholl(t)
                res["sholl_steps"] = {str(k): [int(v) for v in sh_.get(steps=k)] for k in (1, 4, 20)}
                res["sholl_rmax"] = float(sh_.rmax)
                res["sholl_dep"] = [[int(v) for v in sh_.get_count()], float(sh_.avg()), float(sh_.std()), int(sh_.sum())]
                res["branch_angle"] = np.asarray(bf.get_angle()).astype(float).tolist()
            if case["population"]:
                tmp = tempfile.mkdtemp(prefix="c10_")
                try:
                    t.to_swc(os.path.join(tmp, "a.swc"))
                    with open(os.path.join(tmp, "b.swc"), "w") as f:
                        f.write("1 1 0 0 0 1 -1\n2 3 3 0 0 1 1\n3 3 3 4 0 1 2\n")
                    pop = Population.from_swc(tmp)
                    names = [os.path.basename(s) for s in pop.trees.swcs]
                    pe = extract_feature(pop)
                    rows = pe.get("branch_length")
                    res["pop"] = {"names": names, "rows": [[float(v) for v in r] for r in rows], "length": [[float(v) for v in r] for r in pe.get("length")]}
                finally:
                    shutil.rmtree(tmp, ignore_errors=True)
        return res

    def lines(self, case, res):
        if "exc" in res:
            return []
        t = case["tree"]
        n = t["n"]
        a = f"pids={gen.ints(t['pids'])} elen={gen.ints(t['elen'])}"

        def close(want, sort=False):
            def f(got):
                vals = [float(Fraction(x)) for x in got.replace(" ", ",").split(",") if x not in ("", "_")]
                w = list(want)
                if sort:
                    vals.sort(); w = sorted(w)
                return len(vals) == len(w) and all(abs(x - y) <= 1e-5 * max(1.0, abs(y)) for x, y in zip(vals, w))
            return f

        out = [(f"feat {a} what=length", Expect(close([res["length"]]), str(res["length"]))),
               (f"feat {a} what=branch_length", Expect(close(res["branch_length"], sort=True), str(res["branch_length"]))),
               (f"feat {a} what=path_length", Expect(close(res["path_length"], sort=True), str(res["path_length"]))),
               (f"feat {a} what=counts", f"{int(res['node_count'])} {int(res['tip_count'])} {int(res['furcation_count'])} {res['branch_count']} {res['path_count']} {res['lm']['n_stems']}"),
               (f"feat {a} what=path_distance", Expect(close(res["path_distance"]), str(res["path_distance"]))),
               (f"feat {a} what=branch_order", gen.ints(res["branch_order_lm"])),
               (f"feat {a} what=terminal_degree", gen.ints(res["terminal_degree"]))]
        if "sholl_get" in res:
            P = t["xyz"]
            rad2 = [sum((P[i][k] - P[0][k]) ** 2 for k in range(3)) for i in range(n)]
            out.append((f"feat {a} what=sholl rad2={gen.ints(rad2)} r2={','.join(str(Fraction(v)) for v in case['sholl_r2'])}", gen.ints(res["sholl_get"])))
        # the definitions GENERATED from the current source of the L-Measure functions, run on the same tree
        out += glm_lines(t, res["lm"], res["branch_order_lm"], res["terminal_degree"], res["partition_asymmetry"], res["fragmentation_ordered"])
        return out

    def oracle(self, case, res):
        t = case["tree"]
        if "exc" in res:
            return [("features-raise", f"{res['exc']}: {res.get('msg')} on pids={t['pids']}")]
        tr = truth(t)
        out = []
        close = lambda a, b: abs(a - b) <= 2e-5 * max(1.0, abs(b))
        lclose = lambda A, B: len(A) == len(B) and all(close(a, b) for a, b in zip(A, B))
        def same(g, w):
            if isinstance(w, (list, tuple)):
                return isinstance(g, (list, tuple)) and len(g) == len(w) and all(same(a, b) for a, b in zip(g, w))
            if isinstance(w, float) or isinstance(g, float):
                return close(float(g), float(w))
            return g == w

        def chk(key, got, want, what):
            ok = same(got, want)
            if not ok:
                out.append((key, f"{what}: library says {str(got)[:200]}, the definition gives {str(want)[:200]} (pids={t['pids']})"))
        chk("length", res["length"], tr["length"], "tree length = Σ parent-child distances")
        chk("length-vs-branches", res["length"], float(sum(res["branch_length"])), "tree length = Σ branch lengths")
        chk("node-count", res["node_count"], float(tr["counts"]["node"]), "node count")
        chk("tip-count", res["tip_count"], float(tr["counts"]["tip"]), "tip count")
        chk("furcation-count", res["furcation_count"], float(tr["counts"]["furcation"]), "furcation count")
        chk("branch-length", res["branch_length"], tr["branch_length"], "branch lengths")
        chk("branch-tortuosity", res["branch_tortuosity"], tr["branch_tortuosity"], "branch tortuosity (straight / path)")
        chk("path-length", res["path_length"], tr["path_length"], "path lengths")
        chk("path-tortuosity", res["path_tortuosity"], tr["path_tortuosity"], "path tortuosity")
        chk("radial-distance", res["radial"], tr["radial"], "radial distance")
        chk("tip-radial", res["tip_radial"], sorted(tr["radial"][i] for i in range(t["n"]) if i not in t["pids"]), "radial distance of tips")
        if "bt_order" in res:
            chk("branch-order", [list(x) for x in res["bt_order"]], [list(x) for x in tr["bt_order"]], "branch order of critical nodes")
        lm = res["lm"]
        chk("lm-counts", [lm["n_stems"], lm["n_bifs"], lm["n_branch"], lm["n_tips"]],
            [tr["counts"]["stems"], tr["counts"]["furcation"], tr["n_branch"], tr["counts"]["tip"]], "L-Measure n_stems/n_bifs/n_branch/n_tips")
        chk("lm-path-distance", res["path_distance"], tr["path_distance"], "path distance to the soma")
        chk("lm-euc-distance", res["euc_distance"], tr["radial"], "Euclidean distance to the soma")
        chk("lm-branch-order", res["branch_order_lm"], tr["branch_order_lm"], "L-Measure branch order")
        chk("lm-terminal-degree", res["terminal_degree"], tr["terminal_degree"], "terminal degree")
        for v, want in tr["partition_asymmetry"].items():
            chk("lm-partition-asymmetry", res["partition_asymmetry"][str(v)], float(want), f"partition asymmetry at {v}")
            chk("lm-bif-angle-local", res["bif_ampl_local"][str(v)], float(tr["bif_ampl_local"][v]), f"local bifurcation angle at {v}")
            chk("lm-bif-angle-remote", res["bif_ampl_remote"][str(v)], float(tr["bif_ampl_remote"][v]), f"remote bifurcation angle at {v}")
        for name in ("bif_tilt_local", "bif_tilt_remote"):
            for v, want in tr[name].items():
                got = res.get(name, {}).get(str(v))
                if isinstance(got, dict):
                    out.append((f"lm-{name.replace('_', '-')}-raises", f"{name} at bifurcation {v} raised {got} (pids={t['pids']})"))
                elif want is not None and got is not None and not abs(got - want) <= 0.05:
                    out.append((f"lm-{name.replace('_', '-')}", f"{name} at {v}: library says {got}, the definition gives {want} (pids={t['pids']})"))
        for name in ("bif_torque_local", "bif_torque_remote"):
            for v, want in tr[name].items():
                got = res.get(name, {}).get(str(v))
                if want is None:
                    continue      # one of the two planes is degenerate (collinear daughters): the angle is undefined, the library refuses
                if isinstance(got, dict) and "exc" in got:
                    out.append((f"lm-{name.replace('_', '-')}-raises", f"{name} at bifurcation {v} (previous branch point is a bifurcation too) raised {got['exc']}: {got['msg']} (pids={t['pids']})"))
                elif want is not None and isinstance(got, float) and not (abs(got - want) <= 0.05 or abs(got - (180 - want)) <= 0.05):
                    out.append((f"lm-{name.replace('_', '-')}", f"{name} at {v}: library says {got}, the angle between the two bifurcation planes is {want} (or its supplement) (pids={t['pids']})"))
        chk("lm-fragmentation", res["fragmentation"], sorted(len(b) - 1 for b in tr["branches"]), "fragmentation")
        chk("lm-contraction", res["contraction"], tr["branch_tortuosity"], "contraction")
        if "sholl_get" in res:
            P = np.array(t["xyz"], dtype=np.float64)
            rad = np.linalg.norm(P - P[0], axis=1)
            want = []
            for r2 in case["sholl_r2"]:
                r = math.sqrt(r2)
                want.append(sum(1 for i in range(1, t["n"]) if (rad[t["pids"][i]] <= r < rad[i]) or (rad[i] <= r < rad[t["pids"][i]])))
            chk("sholl", res["sholl_get"], want, "Sholl intersections")
            chk("sholl-intersect", res["sholl_intersect"], want, "Sholl.intersect")
        fe = res["fe"]
        chk("extract-single", [fe["length"], fe["node_count"], fe["tip_count"], fe["furcation_count"]],
            [[res["length"]], [res["node_count"]], [res["tip_count"]], [res["furcation_count"]]], "extract_feature(tree) vs direct")
        chk("extract-single", fe["path_length"], res["path_length"], "extract_feature path_length")
        chk("extract-single", fe["branch_length"], res["branch_length"], "extract_feature branch_length")
        chk("extract-single", fe["node_radial_distance"], res["radial"], "extract_feature node_radial_distance")
        if res.get("fe2"):
            chk("extract-single", res["fe2"]["branch_tortuosity"], res["branch_tortuosity"], "extract_feature branch_tortuosity")
            chk("extract-single", res["fe2"]["path_tortuosity"], res["path_tortuosity"], "extract_feature path_tortuosity")
            chk("extract-single", res["fe2"]["tip_radial_distance"], res["tip_radial"], "extract_feature tip_radial_distance")
            chk("extract-single", res["fe2"]["furcation_radial_distance"], sorted(tr["radial"][i] for i in range(t["n"]) if t["pids"].count(i) >= 2),
                "extract_feature furcation_radial_distance")
            chk("extract-single", res["fe2"]["node_branch_order"], sorted(float(x[1]) for x in res.get("bt_order", [])), "extract_feature node_branch_order")
        chk("extract-single", res["fe_volume"], [res["volume_direct"]], "extract_feature volume vs get_volume")
        if "fe_sholl" in res:
            chk("extract-single", res["fe_sholl"], [float(v) for v in res["sholl_get"]], "extract_feature sholl(steps=radii) vs Sholl.get")
            chk("extract-forms", res["fe_forms"]["list"], [[res["length"]], [float(v) for v in res["sholl_get"]], [res["tip_count"]]], "extract_feature([...]) list form")
            chk("extract-forms", res["fe_forms"]["dict"], {"length": [res["length"]], "sholl": [float(v) for v in res["sholl_get"]]}, "extract_feature({...}) dict form")
            # step counts: radii s, 2s, … below the farthest node, s = rmax / (steps + 1); compared where no node sits within 1e-5 of a radius
            P = np.array(t["xyz"], dtype=np.float64)
            rad = np.linalg.norm(P - P[0], axis=1)
            cnt = lambda r: sum(1 for i in range(1, t["n"]) if (rad[t["pids"][i]] <= r < rad[i]) or (rad[i] <= r < rad[t["pids"][i]]))
            rmax = float(rad.max())
            if not close(res["sholl_rmax"], rmax):
                out.append(("sholl-rmax", f"Sholl.rmax {res['sholl_rmax']}, farthest node is at {rmax}"))
            for k, got in res["sholl_steps"].items():
                s_ = rmax / (int(k) + 1)
                rs = list(np.arange(s_, rmax, s_))
                if len(got) != len(rs):
                    if abs(len(got) - len(rs)) > 1:
                        out.append(("sholl-steps", f"Sholl.get(steps={k}) has {len(got)} radii, expected {len(rs)}"))
                    continue
                for g, r in zip(got, rs):
                    lo, hi = cnt(r * (1 - 1e-5)), cnt(r * (1 + 1e-5))
                    if lo == hi and g != lo:
                        out.append(("sholl-steps", f"Sholl.get(steps={k}) counts {g} intersections at radius {r}, the definition gives {lo}")); break
            dep = res["sholl_dep"]
            d20 = res["sholl_steps"]["20"]
            if dep[0] != d20 or not close(dep[1], float(np.mean(d20)) if d20 else dep[1]) or (d20 and dep[3] != sum(d20)):
                out.append(("sholl-deprecated", f"get_count/avg/std/sum {dep} disagree with Sholl.get() = {d20}"))
            # angles between branches (radians): arccos of the normalised dot product of the end-to-end vectors
            brv = [P[b[-1]] - P[b[0]] for b in tr["branches"]]
            A = res["branch_angle"]
            brs_lib = sorted(tr["branches"])
            if len(A) == len(brv):
                # the library's branch order is its own: compare the multiset of pairwise angles
                # (cosine 0 - a right angle - where one of the two branches has length zero; no absolute term in the divisor: scale free)
                cosd = lambda u, w: float(np.dot(u, w) / (np.linalg.norm(u) * np.linalg.norm(w))) if np.linalg.norm(u) * np.linalg.norm(w) != 0 else 0.0
                want = sorted(round(math.acos(max(-1.0, min(1.0, cosd(u, w)))), 3) for u in brv for w in brv)
                got = sorted(round(float(v), 3) for row in A for v in row)
                if len(got) != len(want) or any(abs(a - b) > 2e-3 for a, b in zip(got, want)):
                    out.append(("branch-angle", f"BranchFeatures.get_angle() {got[:6]}… differs from the pairwise angles of the branches' end-to-end vectors {want[:6]}…"))
            else:
                out.append(("branch-angle", f"angle matrix of size {len(A)} for {len(brv)} branches"))
        if "pop" in res:
            names, rows = res["pop"]["names"], res["pop"]["rows"]
            m = max(len(res["branch_length"]), 2)
            for nm, row, ln in zip(names, rows, res["pop"]["length"]):
                want = ([3.0, 4.0] if nm == "b.swc" else None)
                if len(row) != max(len(r) for r in rows):
                    out.append(("extract-population", "rows of different length"))
                if nm == "b.swc":
                    if not (lclose(sorted(row[:1] + row[1:]), sorted([7.0] + [0.0] * (len(row) - 1))) and close(ln[0], 7.0)):
                        out.append(("extract-population", f"row of b.swc: {row}, length {ln}; expected its single branch of length 7 zero-padded"))
                else:
                    nz = sorted(v for v in row if v != 0)
                    if not lclose(nz, sorted(v for v in res["branch_length"] if v != 0)) or any(v != 0 for v in row[len(res['branch_length']):]):
                        out.append(("extract-population", f"row of a.swc {row} is not the tree's branch lengths zero-padded"))
        return out[:4]

    def nontrivial(self, case, res):
        return case["tree"]["n"] >= 4


class Angles(Suite):
    """bifurcations whose defining vectors are exactly collinear (daughters leaving in opposite or in the same direction, a daughter
    continuing the parent segment): the angles are 180 / 0 degrees — boundary values of arccos"""
    name = "c10.angles"

    def cases(self, rng, tier, widen):
        out = []
        dirs = [(3, 3, 0), (1, 2, 3), (1, 1, 1), (2, -1, 5), (0, 3, 3), (7, 1, 0), (1, 0, 0), (5, 5, 5), (3, -3, 0), (1, 3, 0), (2, 2, 1), (6, 3, 2)]
        if tier == "thorough" or widen:
            dirs += [(rng.randint(-9, 9), rng.randint(-9, 9), rng.randint(1, 9)) for _ in range(40)]
        for d in dirs:
            for kind in ("opposite", "same"):
                a = rng.randint(1, 3); b = rng.randint(1, 3) + (a if kind == "same" else 0)
                sgn = -1 if kind == "opposite" else 1
                o = [rng.randint(-5, 5) for _ in range(3)]
                stem = [o[i] - 2 * d[i] for i in range(3)]      # the bifurcation continues its parent segment exactly
                xyz = [stem, o, [o[i] + a * d[i] for i in range(3)], [o[i] + sgn * b * d[i] for i in range(3)]]
                out.append({"class": kind, "tree": {"n": 4, "pids": [-1, 0, 1, 1], "types": [1, 3, 3, 3], "xyz": [[float(c) for c in q] for q in xyz],
                                                    "r": [1.0] * 4}, "want": 180.0 if kind == "opposite" else 0.0})
        return out

    def run(self, case):
        from swcgeom.analysis.lmeasure import LMeasure

        t = gen.make_tree(case["tree"])
        lm = LMeasure()
        with warnings.catch_warnings():
            warnings.simplefilter("ignore")
            return {"local": float(lm.bif_ampl_local(t.node(1))), "remote": float(lm.bif_ampl_remote(t.node(1)))}

    def oracle(self, case, res):
        if "exc" in res:
            return [("features-raise", f"{res['exc']}: {res.get('msg')}")]
        out = []
        for k in ("local", "remote"):
            if not abs(res[k] - case["want"]) <= 0.05:
                out.append((f"lm-bif-angle-{k}", f"daughters of node 1 leave in exactly {case['class']} directions {case['tree']['xyz'][2:]} from {case['tree']['xyz'][1]}: "
                                                   f"{k} amplitude reported {res[k]}, the definition gives {case['want']}"))
        return out

    def nontrivial(self, case, res):
        return True


class Closed(Suite):
    """branches and paths that come back to where they started (the property's "coincident points"): straight-line distance 0,
    positive length — tortuosity (straight / path) is 0 there; and zero-length branches, where it is 1 by the library's convention"""
    name = "c10.closed"

    def cases(self, rng, tier, widen):
        out = []
        for rep in range(4 if tier == "quick" and not widen else 16):
            o = [rng.randint(-5, 5) for _ in range(3)]
            a = rng.randint(1, 4); b = rng.randint(1, 4)
            P = lambda dx, dy, dz=0: [float(o[0] + dx), float(o[1] + dy), float(o[2] + dz)]
            # root → (a,0) → (a,b) → back to the root position (a closed path and branch); a second, open neurite
            xyz = [P(0, 0), P(a, 0), P(a, b), P(0, 0), P(0, -3), P(2, -3)]
            pids = [-1, 0, 1, 2, 0, 4]
            want_path = sorted([0.0, math.hypot(2, 3) / 5.0])
            L = a + b + math.hypot(a, b)
            out.append({"class": "closed-at-root", "tree": {"n": 6, "pids": pids, "types": [1, 3, 3, 3, 3, 3], "xyz": xyz, "r": [1.0] * 6},
                        "branch_tort": sorted([0.0, math.hypot(2, 3) / 5.0]), "path_tort": want_path, "length": L + 5.0})
            # a branch between two furcation-like ends that coincide: root → f; f → … → back to f's position → tip1 / tip2
            xyz = [P(0, 0), P(0, 2), P(a, 2), P(a, 2 + b), P(0, 2), P(-1, 2), P(0, 3, 1)]
            pids = [-1, 0, 1, 2, 3, 4, 4]
            out.append({"class": "closed-between-furcations", "tree": {"n": 7, "pids": pids, "types": [1] + [3] * 6, "xyz": xyz, "r": [1.0] * 7},
                        "branch_tort": None, "path_tort": None, "length": 2 + a + b + math.hypot(a, b) + 1 + math.sqrt(2)})
        return out

    def run(self, case):
        from swcgeom.analysis import extract_feature
        from swcgeom.analysis.features import BranchFeatures, PathFeatures

        t = gen.make_tree(case["tree"])
        with warnings.catch_warnings():
            warnings.simplefilter("ignore")
            brs = t.get_branches()
            res = {"branches": [[int(v) for v in b.get_ndata("id")] for b in brs],
                   "branch_tort": [float(b.tortuosity()) for b in brs], "branch_len": [float(b.length()) for b in brs],
                   "branch_straight": [float(b.straight_line_distance()) for b in brs],
                   "paths": [[int(v) for v in p.get_ndata("id")] for p in t.get_paths()],
                   "path_tort": [float(p.tortuosity()) for p in t.get_paths()], "path_len": [float(p.length()) for p in t.get_paths()],
                   "path_straight": [float(p.straight_line_distance()) for p in t.get_paths()],
                   "bf_tort": sorted(float(v) for v in BranchFeatures(t).get_tortuosity()), "pf_tort": sorted(float(v) for v in PathFeatures(t).get_tortuosity()),
                   "fe_branch_tort": sorted(float(v) for v in np.atleast_1d(extract_feature(t).get("branch_tortuosity"))),
                   "length": float(t.length())}
        return res

    def oracle(self, case, res):
        if "exc" in res:
            return [("features-raise", f"{res['exc']}: {res.get('msg')}")]
        out = []
        close = lambda a, b: abs(a - b) <= 2e-5 * max(1.0, abs(b))
        P = np.array(case["tree"]["xyz"], dtype=np.float64)
        for kind in ("branch", "path"):
            for ids, tv, ln, st in zip(res[kind + "es" if kind == "branch" else "paths"], res[kind + "_tort"], res[kind + "_len"], res[kind + "_straight"]):
                L = float(sum(np.linalg.norm(P[b] - P[a]) for a, b in zip(ids, ids[1:])))
                S = float(np.linalg.norm(P[ids[-1]] - P[ids[0]]))
                want = 1.0 if L == 0 else S / L
                if not (close(ln, L) and close(st, S) and close(tv, want)):
                    out.append((f"{kind}-tortuosity", f"{kind} {ids}: length {ln} (definition {L}), straight-line {st} ({S}), tortuosity {tv}; straight / path = {want}"))
        for key in ("bf_tort", "fe_branch_tort"):
            if not (len(res[key]) == len(res["branch_tort"]) and all(close(a, b) for a, b in zip(res[key], sorted(res["branch_tort"])))):
                out.append(("branch-tortuosity", f"{key} {res[key]} differs from the branches' own tortuosity {sorted(res['branch_tort'])}"))
        if not (len(res["pf_tort"]) == len(res["path_tort"]) and all(close(a, b) for a, b in zip(res["pf_tort"], sorted(res["path_tort"])))):
            out.append(("path-tortuosity", f"PathFeatures tortuosity {res['pf_tort']} differs from the paths' own {sorted(res['path_tort'])}"))
        if not close(res["length"], case["length"]):
            out.append(("length", f"tree length {res['length']}, sum of the segment lengths {case['length']}"))
        return out[:3]

    def nontrivial(self, case, res):
        return True


def _f32(v):
    return float(np.float32(v))


def _f32step(v, k):
    """the float32 value k places above (k > 0) / below (k < 0) the positive float32 value v"""
    x = np.float32(v)
    for _ in range(abs(k)):
        y = np.nextafter(x, np.float32(np.inf) if k > 0 else np.float32(0))
        if not (y > 0 and np.isfinite(y)):
            break
        x = y
    return float(x)


def axis_tree(rng, n, shape, offset):
    """any branching pattern; every node sits on a coordinate axis through the root, so its root distance IS the stored coordinate
    difference — a float32 value the library obtains without any rounding (sqrt(fl(x*x)) = |x|).  Distances come from a small pool of
    base values and their float32 neighbours (tips / turning points at equal and at adjacent representable distances; coincident
    points and zero-length segments occur)."""
    pids = gen.renumber_root0(rng, gen.parents_sorted(rng, n, shape))
    n = len(pids)
    if offset:       # root away from the origin: coordinates on a 2^-12 grid below 64 (sums and differences exact in float32)
        root = [float(rng.randint(-3, 3)) for _ in range(3)]
        bases = [rng.randint(1, 20 * 4096) / 4096.0 for _ in range(3)]
        mag = lambda: max(1 / 4096.0, rng.choice(bases) + rng.choice([-1, 0, 0, 0, 1]) / 4096.0)
    else:
        root = [0.0, 0.0, 0.0]
        fam = [lambda: float(rng.randint(1, 12)), lambda: rng.randint(1, 400) / 8.0, lambda: _f32(rng.uniform(0.05, 80.0)),
               lambda: _f32(rng.uniform(1.0, 2.0)) * 2.0 ** rng.randint(-8, 12)]
        bases = [rng.choice(fam)() for _ in range(3)]
        mag = lambda: _f32step(rng.choice(bases), rng.choice([-2, -1, 0, 0, 0, 1, 2]))
    xyz, dist = [root], [0.0]
    for _ in range(1, n):
        m = mag(); ax = rng.randrange(3); q = list(root); q[ax] = root[ax] + rng.choice([-1, 1]) * m
        assert _f32(q[ax]) == q[ax] and abs(q[ax] - root[ax]) == m, "harness: axis tree coordinate is not exact in float32"
        xyz.append(q); dist.append(m)
    return {"n": n, "pids": pids, "types": [1] + [3] * (n - 1), "xyz": xyz, "r": [1.0] * n, "dist": dist}


def radii_near(rng, dists, per_target=6):
    """float64 radii next to node distances: on them, fractions of a float32 place below / above them (NOT representable in float32),
    their float32 and float64 neighbours, the midpoints between adjacent float32 values; plus a few radii anywhere"""
    ds = sorted({d for d in dists if d > 0})
    targets = rng.sample(ds, min(4, len(ds)))
    out = []
    for d in targets:
        below = d - _f32step(d, -1) or float(np.spacing(np.float32(d)))
        above = _f32step(d, 1) - d
        frac = lambda: rng.choice([0.25, 0.49, 0.125, 2.0 ** -rng.randint(3, 20), rng.uniform(0.01, 0.49)])
        cand = [d, d - frac() * below, d + frac() * above]            # guaranteed: on the node, within half a place below, and above
        pool = [d - frac() * below, d + frac() * above, d - 0.5 * below, d + 0.5 * above, d - rng.uniform(0.51, 0.99) * below,
                d + rng.uniform(0.51, 0.99) * above, d - below, d + above, d - 1.5 * below, d + 1.5 * above,
                float(np.nextafter(d, 0.0)), float(np.nextafter(d, np.inf)), d * (1 - 1e-8), d * (1 + 1e-8), d * (1 - 1e-6), d * (1 + 1e-6)]
        cand += rng.sample(pool, max(0, per_target - 3))
        out += [r for r in cand if r > 0]
    top = max(ds) if ds else 1.0
    out += [rng.uniform(0, 1.2 * top) for _ in range(2)] + [2.5 * top]
    out = list(dict.fromkeys(out))
    rng.shuffle(out)
    return out


def sholl_exact(t, radii):
    """the definition on the stored coordinates in exact rational arithmetic: segment (parent, child) is crossed at r iff
    min(dp, dc) ≤ r < max(dp, dc)"""
    P = [[Fraction(c) for c in q] for q in t["xyz"]]
    d2 = [sum((P[i][k] - P[0][k]) ** 2 for k in range(3)) for i in range(t["n"])]
    out = []
    for r in radii:
        r2 = Fraction(r) ** 2
        out.append(sum(1 for i in range(1, t["n"]) if min(d2[i], d2[t["pids"][i]]) <= r2 < max(d2[i], d2[t["pids"][i]])))
    return out


def _short_tree(t):
    """the axis tree with every root distance rounded to a positive multiple of 1/8, root at the origin (short float32 mantissas: the
    library's float32 arithmetic on `rmax` is exact)"""
    root = t["xyz"][0]
    xyz, dist = [[0.0, 0.0, 0.0]], [0.0]
    for q in t["xyz"][1:]:
        d = [q[k] - root[k] for k in range(3)]
        ax = max(range(3), key=lambda k: abs(d[k]))
        m = max(0.125, round(abs(d[ax]) * 8) / 8)
        p = [0.0, 0.0, 0.0]; p[ax] = m if d[ax] >= 0 else -m
        xyz.append(p); dist.append(m)
    return dict(t, xyz=xyz, dist=dist)


def _q(x):
    """a float as the exact rational the driver reads / prints (`showRat`)"""
    f = Fraction(float(x))
    return str(f.numerator) if f.denominator == 1 else f"{f.numerator}/{f.denominator}"


def _qs(xs):
    xs = list(xs)
    return ",".join(_q(x) for x in xs) if xs else "_"


def _qrows(m):
    return ";".join(_qs(r) for r in m)


class ShollNear(Suite):
    """the Sholl count "at any radius": caller-supplied float64 radii that lie a fraction of a float32 place away from the root distance
    of a node (and on it, and on its float32 / float64 neighbours).  The trees are axis trees: every distance is stored exactly, the
    definition is evaluated in rational arithmetic, so there is no tolerance in this suite — the answer at each radius is determined."""
    name = "c10.shollnear"

    def cases(self, rng, tier, widen):
        out = []
        big = tier == "thorough" or widen
        k = 0
        for n in [2, 3, 4, 5, 7, 10] + ([20, 40, 120] if big else []):
            for rep in range(4 if not big else 10):
                shape = gen.SHAPES[1:][k % (len(gen.SHAPES) - 1)]; k += 1
                offset = rep % 4 == 3
                t = axis_tree(rng, n, shape, offset)
                case = {"class": shape + ("/offset-root" if offset else "/origin-root"), "tree": t, "radii": radii_near(rng, t["dist"]),
                        "legacy_step": rng.choice([0.25, 0.5, 1.5, 2.0, 0.375])}
                if rep % 2 == 0:        # the same radii asked of a population: the other tree has distances next to them, too
                    t2 = axis_tree(rng, rng.choice([2, 3, 5]), "random", False)
                    t2["xyz"] = [[0.0, 0.0, 0.0]] + [[(1 if c > 0 else -1) * _f32step(rng.choice(t["dist"][1:]), rng.choice([-1, 0, 1])) if c != 0 else 0.0 for c in q]
                                                      for q in t2["xyz"][1:]]
                    t2["dist"] = [max(abs(c) for c in q) for q in t2["xyz"]]
                    case["other"] = t2
                out.append(case)
        return out

    def run(self, case):
        from swcgeom.analysis import Sholl, extract_feature
        from swcgeom.core import Population

        t = gen.make_tree(case["tree"])
        assert np.array_equal(t.xyz().astype(np.float64), np.array(case["tree"]["xyz"], dtype=np.float64)), "harness: coordinates not exact in float32"
        rs = [float(r) for r in case["radii"]]
        res = {}
        with warnings.catch_warnings():
            warnings.simplefilter("ignore")
            sh = Sholl(t)
            res["get_list"] = [int(v) for v in sh.get(steps=rs)]
            res["get_array"] = [int(v) for v in sh.get(steps=np.array(rs, dtype=np.float64))]
            # numpy float64 scalars (what iterating an array of radii gives) and bare Python floats (the annotated argument type; a "weak"
            # scalar for NumPy ≥ 2, which the library must not let numpy round to the float32 precision of the stored distances: D29)
            res["intersect"] = [int(sh.intersect(np.float64(r))) for r in rs]
            res["intersect_py"] = [int(sh.intersect(float(r))) for r in rs]
            # for the GENERATED definitions (Gen/AlgoSholl.lean, driver op `gsholl`): the object `__init__` builds, the radii of an integer step
            # count (k + 1 a power of two: `rmax / (k + 1)` and every multiple are exact in float64, as in the driver's rationals) and the
            # legacy `Sholl(tree, step=…)` radii
            res["obj"] = {"rmax": float(sh.rmax), "rs": [[float(a), float(b)] for a, b in np.asarray(sh.rs)]}
            # (the library divides and subtracts at float32: exact only while (k + 1) * mantissa(rmax) fits 24 bits — decided in `lines` from the
            # INPUT; a copy of the tree with every distance rounded to eighths always qualifies)
            res["getn"] = {str(k): {"rs": [float(v) for v in sh._get_rs(k)], "counts": [int(v) for v in sh.get(steps=k)]} for k in (1, 3, 7)}
            short = _short_tree(case["tree"])
            shs = Sholl(gen.make_tree(short))
            res["short"] = {"dist": short["dist"], "rmax": float(shs.rmax), "rs": [[float(a), float(b)] for a, b in np.asarray(shs.rs)],
                            "getn": {str(k): {"rs": [float(v) for v in shs._get_rs(k)], "counts": [int(v) for v in shs.get(steps=k)]} for k in (1, 3, 7, 15)}}
            lstep = case.get("legacy_step", 0.5)
            shl = Sholl(t, step=lstep)
            def counts(f):            # no radius below the tree's extent: numpy's AxisError (`np.count_nonzero([], axis=1)`), as the generated `get`
                try:
                    return [int(v) for v in f()]
                except Exception:  # noqa: BLE001 - compared with the generated definition
                    return "E"
            res["legacy"] = {"step": lstep, "rs": [float(v) for v in shl._get_rs(20)], "counts": counts(lambda: shl.get()),
                             "counts_list": counts(lambda: shl.get(steps=rs))}
            try:
                Sholl(gen.make_tree({"n": 1, "pids": [-1], "types": [1], "xyz": [[1.0, 2.0, 3.0]], "r": [1.0]}))
                res["single"] = "ok"
            except Exception as e:  # noqa: BLE001 - compared with the generated __init__
                res["single"] = "X:" + type(e).__name__
            try:
                sh.get(steps=[])
                res["nosteps"] = "ok"
            except Exception as e:  # noqa: BLE001 - numpy's AxisError: compared with the generated `get`
                res["nosteps"] = "E"
            fe = extract_feature(t)
            res["fe"] = [float(v) for v in fe.get("sholl", steps=rs)]
            res["fe_list"] = [float(v) for v in fe.get([("sholl", {"steps": rs})])[0]]
            if "other" in case:
                rows = extract_feature(Population([t, gen.make_tree(case["other"])])).get("sholl", steps=rs)
                res["pop"] = [[float(v) for v in row] for row in np.asarray(rows)]
        return res

    def lines(self, case, res):
        """the definitions GENERATED from sholl.py / tree.py / compartment.py on this run, executed at exact rationals on the same tree (the
        distances to the root are the exact `dist` of the axis tree) and radii"""
        if "exc" in res or "obj" not in res:
            return []
        t = case["tree"]
        g = f"gsholl pids={gen.ints(t['pids'])} rad={_qs(t['dist'])}"
        rq = _qs(case["radii"])
        out = [(f"{g} what=init", f"{_q(res['obj']['rmax'])} {_qrows(res['obj']['rs'])} w=0"),
               (f"{g} what=intersect r={rq}", gen.ints(res["intersect"])),
               (f"{g} what=intersect r={rq}", gen.ints(res["intersect_py"])),
               (f"{g} what=get r={rq}", gen.ints(res["get_list"])),
               (f"{g} what=get r={rq}", gen.ints(res["get_array"])),
               (f"{g} what=rs r={rq}", rq),
               (f"{g} what=get r=_", res["nosteps"]),
               ("gsholl pids=-1 rad=0 what=init", res["single"])]
        num = Fraction(max(t["dist"])).numerator
        while num and num % 2 == 0:
            num //= 2
        for k, v in res["getn"].items():
            if num * (int(k) + 1) < 2 ** 24:         # the float32 quotient `rmax / (k + 1)`, its multiples and `rmax - s` are exact
                out += [(f"{g} what=rsn n={k}", _qs(v["rs"])), (f"{g} what=getn n={k}", gen.ints(v["counts"]))]
        sh_ = res["short"]
        gs = f"gsholl pids={gen.ints(t['pids'])} rad={_qs(sh_['dist'])}"
        out.append((f"{gs} what=init", f"{_q(sh_['rmax'])} {_qrows(sh_['rs'])} w=0"))
        for k, v in sh_["getn"].items():
            out += [(f"{gs} what=rsn n={k}", _qs(v["rs"])), (f"{gs} what=getn n={k}", gen.ints(v["counts"]))]
        lg = res["legacy"]
        gl = f"{g} step={_q(lg['step'])}"
        out += [(f"{gl} what=init", f"{_q(res['obj']['rmax'])} {_qrows(res['obj']['rs'])} w=1"),
                (f"{gl} what=rsn n=20", _qs(lg["rs"])), (f"{gl} what=getn n=20", lg["counts"] if lg["counts"] == "E" else gen.ints(lg["counts"])),
                (f"{gl} what=get r={rq}", lg["counts_list"] if lg["counts_list"] == "E" else gen.ints(lg["counts_list"])),
                (f"{gl} what=rs r={rq}", _qs(lg["rs"]))]
        return out

    def oracle(self, case, res):
        t = case["tree"]
        if "exc" in res:
            return [("features-raise", f"{res['exc']}: {res.get('msg')} on pids={t['pids']}")]
        rs = case["radii"]
        want = sholl_exact(t, rs)
        out = []

        def chk(key, got, want_, tree, what):
            got = [int(v) if float(v) == int(v) else v for v in got]
            if got == want_:
                return
            if len(got) != len(want_):
                out.append((key, f"{what}: {len(got)} counts for {len(want_)} radii (pids={tree['pids']})")); return
            j = next(i for i in range(len(got)) if got[i] != want_[i])
            near = min((d for d in tree["dist"]), key=lambda d: abs(d - rs[j]))
            out.append((key, f"{what}: {got[j]} intersections at radius {rs[j]!r}, the definition (min(dp,dc) <= r < max(dp,dc), exact) gives {want_[j]}; "
                             f"nearest node distance {near!r} (r - d = {rs[j] - near:.3g}); pids={tree['pids']} distances={tree['dist']}"))
        chk("sholl", res["get_list"], want, t, "Sholl.get(steps=[radii])")
        chk("sholl", res["get_array"], want, t, "Sholl.get(steps=float64 array)")
        chk("sholl-intersect", res["intersect"], want, t, "Sholl.intersect(float64 radius)")
        chk("sholl-intersect", res["intersect_py"], want, t, "Sholl.intersect(python float radius)")
        chk("extract-single", res["fe"], want, t, "extract_feature(tree).get('sholl', steps=radii)")
        chk("extract-forms", res["fe_list"], want, t, "extract_feature(tree).get([('sholl', {steps: radii})])")
        if "pop" in res:
            if len(res["pop"]) != 2:
                out.append(("extract-population", f"{len(res['pop'])} Sholl rows for a population of 2 trees"))
            else:
                chk("extract-population", res["pop"][0], want, t, "extract_feature(population).get('sholl', steps=radii), row of tree 0")
                chk("extract-population", res["pop"][1], sholl_exact(case["other"], rs), case["other"], "extract_feature(population).get('sholl', steps=radii), row of tree 1")
        return out[:4]

    def nontrivial(self, case, res):
        return case["tree"]["n"] >= 3


PLAIN_FEATURES = ["length", "node_count", "tip_count", "furcation_count", "branch_length", "path_length", "node_radial_distance", "tip_radial_distance"]


class Requests(Suite):
    """one extractor object, many requests: what the front end returns is a function of the object measured and of the request — not of
    what was requested before.  ONE extract_feature(...) object of a tree / a Population / a Populations is asked a sequence of features:
    the same feature again, the same feature with OTHER keyword values (Sholl radii lists of equal and of different length, step counts,
    the default), other features in between, in the three calling forms; some returned arrays are overwritten in place by the caller
    before the next request.  Every answer is compared with the definition, evaluated for the arguments of THAT request."""
    name = "c10.requests"

    def cases(self, rng, tier, widen):
        out = []
        big = tier == "thorough" or widen
        kinds = ["population", "tree", "population", "populations"]
        for k in range(20 if not big else 80):
            kind = kinds[k % 4]
            shapes = [s for s in gen.SHAPES if s != "single"]
            mk = lambda: lattice_tree(rng, rng.choice([2, 3, 5, 8, 12] + ([30] if big else [])), rng.choice(shapes))
            if kind == "tree":
                groups = [[mk()]]
            elif kind == "population":
                groups = [[mk() for _ in range(rng.choice([1, 2, 2, 3, 4]))]]
            else:
                groups = [[mk() for _ in range(rng.randint(1, 3))] for _ in range(rng.randint(2, 3))]
            # radii² = integer + ½ (no node of a lattice tree within 1e-2 of the radius) and perfect squares (on nodes, exact)
            def radii2(m):
                v = [rng.randint(0, 45) + 0.5 for _ in range(m)]
                if rng.random() < 0.5:
                    v[rng.randrange(m)] = float(rng.choice([1, 4, 9, 16, 25]))
                return v
            m = rng.randint(2, 6)
            first = radii2(m)
            reqs = [["sholl", {"r2": first}], ["sholl", {"r2": radii2(m)}],                       # same length, other radii
                    ["sholl", {"r2": radii2(rng.choice([x for x in range(1, 8) if x != m]))}],    # other length
                    ["sholl", {"r2": first}],                                                      # the first radii again
                    ["sholl", {"steps": rng.choice([1, 2, 4])}], ["sholl", {"steps": rng.choice([7, 12, 20])}], ["sholl", {}]]
            reqs = rng.sample(reqs, rng.randint(4, len(reqs)))
            if not any("r2" in kw and kw["r2"] != first for _, kw in reqs):
                reqs.append(["sholl", {"r2": radii2(m)}])
            if not any(kw.get("r2") == first for _, kw in reqs):
                reqs.insert(0, ["sholl", {"r2": first}])
            for _ in range(rng.randint(2, 4)):
                f = rng.choice(PLAIN_FEATURES)
                reqs.insert(rng.randint(0, len(reqs)), [f, {}])
                if rng.random() < 0.5:
                    reqs.insert(rng.randint(0, len(reqs)), [f, {}])                               # and the same one again, somewhere
            reqs = [{"feat": f, "kw": kw, "form": rng.choice(["kw", "kw", "list", "dict"]), "scribble": rng.random() < 0.3} for f, kw in reqs]
            out.append({"class": kind, "kind": kind, "groups": groups, "requests": reqs})
        return out

    def run(self, case):
        from swcgeom.analysis import extract_feature
        from swcgeom.core import Population, Populations

        trees = [[gen.make_tree(t) for t in g] for g in case["groups"]]
        with warnings.catch_warnings():
            warnings.simplefilter("ignore")
            if case["kind"] == "tree":
                ex = extract_feature(trees[0][0])
            elif case["kind"] == "population":
                ex = extract_feature(Population(trees[0]))
            else:
                ex = extract_feature(Populations([Population(g) for g in trees]))
            answers = []
            for q in case["requests"]:
                kw = {}
                if "r2" in q["kw"]:
                    kw["steps"] = [math.sqrt(v) for v in q["kw"]["r2"]]
                elif "steps" in q["kw"]:
                    kw["steps"] = int(q["kw"]["steps"])
                if q["form"] == "kw":
                    a = ex.get(q["feat"], **kw)
                elif q["form"] == "list":
                    a = ex.get([(q["feat"], kw)])[0]
                else:
                    a = ex.get({q["feat"]: kw})[q["feat"]]
                answers.append(np.asarray(a).astype(float).tolist())
                if q["scribble"] and isinstance(a, np.ndarray) and a.size:      # the caller owns what was returned to it
                    a[...] = -7
        return {"answers": answers}

    def oracle(self, case, res):
        if "exc" in res:
            return [("features-raise", f"{res['exc']}: {res.get('msg')} for requests {[(q['feat'], q['kw']) for q in case['requests']]}")]
        out = []
        close = lambda a, b: abs(a - b) <= 2e-5 * max(1.0, abs(b))
        groups = case["groups"]
        flat = [t for g in groups for t in g]
        trs = {id(t): truth(t) for t in flat}
        rad = {id(t): np.linalg.norm(np.array(t["xyz"], dtype=np.float64) - np.array(t["xyz"][0], dtype=np.float64), axis=1) for t in flat}
        rmax = max(float(rad[id(t)].max()) for t in flat)       # the radii of a step count are common to the whole request

        def cnt(t, r):
            d, p = rad[id(t)], t["pids"]
            return sum(1 for i in range(1, t["n"]) if (d[p[i]] <= r < d[i]) or (d[i] <= r < d[p[i]]))

        def row_ok(t, q, row, width):
            """(ok, expected) for the row of one tree, zero-padded to `width`"""
            tr, f, kw = trs[id(t)], q["feat"], q["kw"]
            if f == "sholl" and "r2" in kw:
                want = [float(cnt(t, math.sqrt(v))) for v in kw["r2"]]
                return row == want, want
            if f == "sholl":
                k = int(kw.get("steps", 20))
                s_ = rmax / (k + 1)
                rs = list(np.arange(s_, rmax, s_))
                if abs(len(row) - len(rs)) > 1:
                    return False, f"{len(rs)} counts (radii s, 2s, … below the farthest node, s = rmax / (steps + 1))"
                if len(row) != len(rs):
                    return True, None       # the last radius is the farthest node up to rounding
                for g, r in zip(row, rs):   # compared where no node sits within 1e-5 of the radius
                    lo, hi = cnt(t, r * (1 - 1e-5)), cnt(t, r * (1 + 1e-5))
                    if lo == hi and g != lo:
                        return False, f"{lo} at radius {r}"
                return True, None
            n = t["n"]
            tips = [i for i in range(n) if i not in t["pids"]]
            want = {"length": [tr["length"]], "node_count": [float(n)], "tip_count": [float(tr["counts"]["tip"])],
                    "furcation_count": [float(tr["counts"]["furcation"])], "branch_length": tr["branch_length"], "path_length": tr["path_length"],
                    "node_radial_distance": tr["radial"], "tip_radial_distance": sorted(tr["radial"][i] for i in tips)}[f]
            if len(row) < len(want) or any(v != 0 for v in row[len(want):]):
                return False, list(want) + [0.0] * (width - len(want))
            got = row[:len(want)]
            if f != "node_radial_distance":
                got = sorted(got)
            return all(close(a, b) for a, b in zip(got, want)), list(want) + [0.0] * (width - len(want))

        def say(q):
            kw = q["kw"]
            a = "steps=" + str([round(math.sqrt(v), 4) for v in kw["r2"]]) if "r2" in kw else ("steps=%d" % kw["steps"] if "steps" in kw else "")
            return f"{q['feat']}({a})"

        for j, (q, ans) in enumerate(zip(case["requests"], res["answers"])):
            before = ", ".join(say(p) + ("[returned array overwritten by the caller]" if p["scribble"] else "") for p in case["requests"][:j]) or "nothing"
            where = f"request #{j} {say(q)} ({q['form']} form) to one extract_feature({case['kind']}) object, after {before}"
            key = f"extract-{'single' if case['kind'] == 'tree' else case['kind']}" + ("-again" if j else "")
            if case["kind"] == "tree":
                rows, owners = [ans], [flat[0]]
                shape_ok = isinstance(ans, list) and all(not isinstance(v, list) for v in ans)
            elif case["kind"] == "population":
                rows, owners = ans, flat
                shape_ok = isinstance(ans, list) and len(ans) == len(flat) and all(isinstance(r, list) for r in ans)
            else:
                shape_ok = (isinstance(ans, list) and len(ans) == len(groups) and all(isinstance(b, list) and len(b) == max(len(g) for g in groups) for b in ans)
                            and all(isinstance(r, list) for b in ans for r in b))
                rows, owners = [], []
                if shape_ok:
                    for b, g in zip(ans, groups):
                        rows += b[:len(g)]; owners += g
                        if any(v != 0 for r in b[len(g):] for v in r):
                            out.append((key, f"{where}: a row beyond the trees of a population is not zero: {b[len(g):]}"))
            if not shape_ok:
                out.append((key, f"{where}: answer of the wrong shape {str(ans)[:160]} — expected one row per tree ({[len(g) for g in groups]} trees)")); continue
            width = max(len(r) for r in rows)
            if any(len(r) != width for r in rows):
                out.append((key, f"{where}: rows of different length")); continue
            for i, (t, row) in enumerate(zip(owners, rows)):
                ok, want = row_ok(t, q, row, width)
                if not ok:
                    out.append((key, f"{where}: row of tree {i} is {str(row)[:160]}, the definition gives {str(want)[:160]} (pids={t['pids']}, xyz={t['xyz']})"))
                    break
        return out[:4]

    def nontrivial(self, case, res):
        return sum(t["n"] for g in case["groups"] for t in g) >= 6


ROW_FEATURES = ["length", "node_count", "tip_count", "furcation_count", "node_radial_distance", "node_branch_order", "tip_radial_distance",
                "furcation_radial_distance", "branch_length", "branch_tortuosity", "path_length", "path_tortuosity"]
ROW_ORDERED = {"node_radial_distance"}       # one value per node, in node order; the others are compared as multisets


def definition_vectors(t):
    """the value vector of every named feature of ONE tree, straight from the definitions (`truth`); a vector may be EMPTY: a tree
    without a furcation has no furcation radial distance, a single-node tree has no branch"""
    tr = truth(t)
    n = t["n"]
    nk = [t["pids"].count(i) for i in range(n)]
    return {"length": [tr["length"]], "node_count": [float(n)], "tip_count": [float(tr["counts"]["tip"])], "furcation_count": [float(tr["counts"]["furcation"])],
            "node_radial_distance": list(tr["radial"]), "node_branch_order": sorted(float(o) for _, o in tr["bt_order"]),
            "tip_radial_distance": sorted(tr["radial"][i] for i in range(n) if nk[i] == 0),
            "furcation_radial_distance": sorted(tr["radial"][i] for i in range(n) if nk[i] > 1),
            "branch_length": tr["branch_length"], "branch_tortuosity": tr["branch_tortuosity"],
            "path_length": tr["path_length"], "path_tortuosity": tr["path_tortuosity"]}


class PopulationRows(Suite):
    """"one zero-padded row per tree for a population", over populations whose trees have value vectors of DIFFERENT and of ZERO length:
    single-node trees (no branch, no furcation), unbranched neurites (no furcation), branching trees — populations made of one kind
    only (every vector of a feature empty: the answer is N rows of width 0), and mixed ones (empty rows next to long ones).  Every named
    feature is asked of extract_feature(Population) / extract_feature(Populations) and of extract_feature(tree) for each member; the
    answers are compared with the definitions: N rows (P blocks of rows), row i = the values of tree i followed by zeros."""
    name = "c10.poprows"

    MIXES = ["all-single-node", "all-unbranched", "some-single-node", "some-unbranched", "single-node+unbranched", "all-branching"]

    def cases(self, rng, tier, widen):
        out = []
        big = tier == "thorough" or widen
        branching = [s for s in gen.SHAPES if s not in ("single", "chain", "two")]
        dot = lambda: lattice_tree(rng, 1, "single")
        line = lambda: lattice_tree(rng, rng.choice([2, 2, 3, 4, 6]), "chain")
        def bush():
            for _ in range(50):
                t = lattice_tree(rng, rng.choice([3, 4, 5, 8, 12] + ([30] if big else [])), rng.choice(branching))
                if any(t["pids"].count(i) > 1 for i in range(t["n"])):
                    return t
            return lattice_tree(rng, 4, "star")
        def members(mix, m):
            if mix == "all-single-node":
                ts = [dot() for _ in range(m)]
            elif mix == "all-unbranched":
                ts = [line() for _ in range(m)]
            elif mix == "all-branching":
                ts = [bush() for _ in range(m)]
            else:
                a, b = {"some-single-node": (dot, bush), "some-unbranched": (line, bush), "single-node+unbranched": (dot, line)}[mix]
                ts = [a(), b()] + [rng.choice([a, b])() for _ in range(max(0, m - 2))]
                rng.shuffle(ts)
            return ts
        for k in range(3 * len(self.MIXES) if not big else 12 * len(self.MIXES)):
            mix = self.MIXES[k % len(self.MIXES)]
            kind = "populations" if (k // len(self.MIXES) + k) % 3 == 2 else "population"      # every mix as a Population (twice) and as Populations
            if kind == "population":
                groups = [members(mix, rng.choice([1, 2, 2, 3, 4]) if not mix.startswith(("some", "single-node+")) else rng.choice([2, 3, 4]))]
            else:
                groups = [members(mix, rng.choice([2, 3])) for _ in range(rng.randint(2, 3))]
                if rng.random() < 0.5:
                    groups[rng.randrange(len(groups))] = groups[0][:1]        # populations of different sizes: rows beyond the trees are zero
            feats = list(ROW_FEATURES)
            rng.shuffle(feats)
            reqs = [{"feat": f, "form": rng.choice(["kw", "kw", "list", "dict"])} for f in feats]
            out.append({"class": f"{kind}/{mix}", "kind": kind, "groups": groups, "requests": reqs})
        # the smallest collections: Populations of ONE population, populations of ONE tree (a directory with a single file)
        for k, (np_, nt) in enumerate([(1, 1), (1, 2), (2, 1), (1, 3)] * (1 if not big else 3)):
            mix = self.MIXES[(k * 5 + 1) % len(self.MIXES)]
            if mix.startswith(("some", "single-node+")) and nt < 2:
                mix = "all-branching"
            groups = [members(mix, nt) for _ in range(np_)]
            feats = list(ROW_FEATURES)
            rng.shuffle(feats)
            reqs = [{"feat": f, "form": ["kw", "list", "dict"][(k + j) % 3]} for j, f in enumerate(feats)]
            out.append({"class": f"populations/{np_}x{nt}/{mix}", "kind": "populations", "groups": groups, "requests": reqs})
        return out

    def run(self, case):
        from swcgeom.analysis import extract_feature
        from swcgeom.core import Population, Populations

        def ask(ex, q):
            try:
                if q["form"] == "kw":
                    a = ex.get(q["feat"])
                elif q["form"] == "list":
                    a = ex.get([q["feat"]])[0]
                else:
                    a = ex.get({q["feat"]: {}})[q["feat"]]
                a = np.asarray(a)
                return {"shape": [int(v) for v in a.shape], "values": a.astype(float).tolist()}
            except Exception as e:  # noqa: BLE001 - the oracle decides
                return {"exc": type(e).__name__, "msg": str(e)[:160]}

        trees = [[gen.make_tree(t) for t in g] for g in case["groups"]]
        with warnings.catch_warnings():
            warnings.simplefilter("ignore")
            ex = extract_feature(Population(trees[0])) if case["kind"] == "population" else extract_feature(Populations([Population(g) for g in trees]))
            answers = [ask(ex, q) for q in case["requests"]]
            single = [[ask(extract_feature(t), {"feat": q["feat"], "form": "kw"}) for q in case["requests"]] for g in trees for t in g]
        return {"answers": answers, "single": single}

    def lines(self, case, res):
        """the GENERATED `_get_impl` of the Population / Populations extractor (Gen/AlgoFeatFront.lean) on the value vectors the real
        per-tree extractor returned, against what the real population extractor returned (float32 values as exact rationals)"""
        if not isinstance(res, dict) or "answers" not in res or "single" not in res:
            return []
        out = []
        sizes = [len(g) for g in case["groups"]]
        for k, (q, ans) in enumerate(zip(case["requests"], res["answers"])):
            vecs = [per[k].get("values") if isinstance(per, list) and k < len(per) and isinstance(per[k], dict) else None for per in res["single"]]
            if any(not isinstance(v, list) for v in vecs) or len(vecs) != sum(sizes):
                continue
            if case["kind"] == "population":
                line = "gpoprows vals=" + _qrows(vecs)
                want = "E" if "exc" in ans else _qrows(ans["values"])
            else:
                blocks, at = [], 0
                for m in sizes:
                    blocks.append(vecs[at:at + m]); at += m
                line = "gpoprows3 vals=" + "|".join(_qrows(b) if b else "~" for b in blocks)
                want = "E" if "exc" in ans else "|".join(_qrows(b) if b else "~" for b in ans["values"])
            out.append((line, want))
        return out

    def oracle(self, case, res):
        try:
            return self._oracle(case, res)
        except Exception as e:  # noqa: BLE001 - a malformed answer must not crash the check
            return [("extract-" + str(case.get("kind", "population")), f"the answers of the front end could not be judged ({type(e).__name__}: {e}): {str(res)[:300]}")]

    def _oracle(self, case, res):
        if not isinstance(res, dict) or "exc" in res or "answers" not in res:
            r = res if isinstance(res, dict) else {}
            return [("features-raise", f"{r.get('exc')}: {r.get('msg')} for {case['class']} trees {[t['pids'] for g in case['groups'] for t in g]}")]
        out = []
        close = lambda a, b: abs(a - b) <= 2e-5 * max(1.0, abs(b))
        groups = case["groups"]
        flat = [t for g in groups for t in g]
        defs = [definition_vectors(t) for t in flat]
        num = lambda v: isinstance(v, (int, float)) and not isinstance(v, bool) and math.isfinite(v)
        isrow = lambda r: isinstance(r, list) and all(num(v) for v in r)
        desc = f"trees with parents {[t['pids'] for t in flat]}" + (f" in populations of {[len(g) for g in groups]}" if case["kind"] == "populations" else "")

        def judge(row, want, f):
            """row = the values of the definition (as a multiset, except per-node vectors) followed by zeros only"""
            if len(row) < len(want) or any(v != 0 for v in row[len(want):]):
                return False
            got = row[:len(want)] if f in ROW_ORDERED else sorted(row[:len(want)])
            return all(close(a, b) for a, b in zip(got, want))

        answers = res["answers"] if isinstance(res["answers"], list) else []
        if len(answers) != len(case["requests"]):
            out.append(("extract-" + case["kind"], f"{len(answers)} answers for {len(case['requests'])} requests"))
        for q, ans in zip(case["requests"], answers):
            f = q["feat"]
            key = "extract-" + case["kind"]
            wants = [d[f] for d in defs]
            where = f"extract_feature({case['kind']}).get({f!r}) ({q['form']} form), {desc}"
            if not isinstance(ans, dict) or "exc" in ans or "values" not in ans:
                a = ans if isinstance(ans, dict) else {}
                out.append((key + "-raises", f"{where}: raised {a.get('exc')}: {a.get('msg')}; every tree has a (possibly empty) value vector, of lengths {[len(w) for w in wants]}"))
                continue
            v, shape = ans["values"], ans.get("shape")
            if case["kind"] == "population":
                ok = isinstance(v, list) and len(v) == len(flat) and all(isrow(r) for r in v)
                rows = v if ok else []
                expect = f"{len(flat)} rows, one per tree, of the {[len(w) for w in wants]} values of the trees zero-padded to a common width"
            else:
                nmax = max(len(g) for g in groups)
                ok = (isinstance(v, list) and len(v) == len(groups) and all(isinstance(b, list) and len(b) >= len(g) and len(b) == nmax for b, g in zip(v, groups))
                      and all(isrow(r) for b in v for r in b))
                rows = []
                expect = f"{len(groups)} blocks of {nmax} rows, the first {[len(g) for g in groups]} of them the trees' {[len(w) for w in wants]} values zero-padded to a common width"
                if ok:
                    for b, g in zip(v, groups):
                        rows += b[:len(g)]
                        if any(x != 0 for r in b[len(g):] for x in r):
                            out.append((key, f"{where}: a row beyond the trees of a population is not zero: {b[len(g):]}"))
            if not ok:
                out.append((key, f"{where}: answer of shape {shape} = {str(v)[:120]} — expected {expect}"))
                continue
            allrows = rows if case["kind"] == "population" else [r for b in v for r in b]
            if len({len(r) for r in allrows}) > 1:
                out.append((key, f"{where}: rows of different widths {[len(r) for r in allrows]}"))
                continue
            for i, (row, want) in enumerate(zip(rows, wants)):
                if not judge(row, want, f):
                    out.append((key, f"{where}: row of tree {i} is {str(row)[:160]}, the definition gives {str(want)[:160]} followed by zeros (xyz={flat[i]['xyz']})"))
                    break
        single = res.get("single") if isinstance(res.get("single"), list) else []
        for i, (t, per, d) in enumerate(zip(flat, single, defs)):
            for q, ans in zip(case["requests"], per if isinstance(per, list) else []):
                f = q["feat"]
                where = f"extract_feature(tree).get({f!r}), tree with parents {t['pids']}, xyz={t['xyz']}"
                if not isinstance(ans, dict) or "exc" in ans or "values" not in ans:
                    a = ans if isinstance(ans, dict) else {}
                    out.append(("extract-single-raises", f"{where}: raised {a.get('exc')}: {a.get('msg')}; the definition gives {str(d[f])[:160]}"))
                elif not (isrow(ans["values"]) and len(ans["values"]) == len(d[f]) and judge(ans["values"], d[f], f)):
                    out.append(("extract-single", f"{where}: answer {str(ans['values'])[:160]} (shape {ans.get('shape')}), the definition gives the {len(d[f])} values {str(d[f])[:160]}"))
        return out[:4]

    def nontrivial(self, case, res):
        return len([t for g in case["groups"] for t in g]) >= 2



# ----------------------------------------------------------------------------- finely sampled reconstructions

def sampled_tree(desc):
    """expand the description of a finely sampled reconstruction: `skeleton` = sorted parent array of the branch points / ends,
    the edge into skeleton node j is an unbranched straight run of `runs[j]` segments of length `steps[j]` in direction `dirs[j]`.
    Nodes are numbered run by run (ids sorted, every parent before its children).  Coordinates are rounded to float32 here: the
    definitions are evaluated on exactly what the library stores."""
    sk, runs, dirs, steps = desc["skeleton"], desc["runs"], desc["dirs"], desc["steps"]
    pos = [np.array(desc["origin"], dtype=np.float64)]
    end = [0]
    pid_parts, xyz_parts = [np.array([-1], dtype=np.int64)], [pos[0][None, :]]
    n = 1
    for j in range(1, len(sk)):
        k = int(runs[j])
        u = np.array(dirs[j], dtype=np.float64)
        u = u / np.linalg.norm(u)
        pts = pos[sk[j]][None, :] + np.arange(1, k + 1, dtype=np.float64)[:, None] * (float(steps[j]) * u)[None, :]
        ids = np.arange(n, n + k, dtype=np.int64)
        pid_parts.append(np.concatenate([[end[sk[j]]], ids[:-1]]))
        xyz_parts.append(pts)
        pos.append(pts[-1]); end.append(n + k - 1)
        n += k
    xyz = np.concatenate(xyz_parts).astype(np.float32).astype(np.float64)
    return {"n": n, "pids": np.concatenate(pid_parts), "types": [1] + [3] * (n - 1), "xyz": xyz, "r": np.ones(n), "ends": end}


def sampled_truth(T):
    """every quantity of a (large) tree straight from its definition, float64, in time linear in the number of nodes"""
    n, pids, P = T["n"], [int(p) for p in T["pids"]], T["xyz"]
    d = np.zeros(n)
    d[1:] = np.linalg.norm(P[1:] - P[np.array(pids[1:], dtype=np.int64)], axis=1) if n > 1 else []
    nk = [0] * n
    for p in pids[1:]:
        nk[p] += 1
    kids = {}
    for i in range(1, n):
        if nk[pids[i]] > 1 or pids[i] == 0:
            kids.setdefault(pids[i], []).append(i)
    only = [0] * n                      # the child of a pass-through node
    for i in range(1, n):
        if nk[pids[i]] == 1:
            only[pids[i]] = i
    pd, bo, depth = [0.0] * n, [0] * n, [0] * n
    bo[0] = int(nk[0] > 1)
    for i in range(1, n):               # parents come before their children
        pd[i] = pd[pids[i]] + float(d[i]); bo[i] = bo[pids[i]] + int(nk[i] > 1); depth[i] = depth[pids[i]] + 1
    td = [int(nk[i] == 0) for i in range(n)]
    for i in range(n - 1, 0, -1):
        td[pids[i]] += td[i]
    branches = []                       # (start, first, end, number of segments)
    for v in range(n):
        if (v == 0 or nk[v] > 1) and nk[v] > 0:
            for c in (kids.get(v, []) if (nk[v] > 1 or v == 0) else []):
                e, m = c, 1
                while nk[e] == 1:
                    e = only[e]; m += 1
                branches.append((v, c, e, m))
    dist = lambda a, b: float(np.linalg.norm(P[a] - P[b]))
    blen = [pd[e] - pd[v] for v, c, e, m in branches]
    tips = [i for i in range(n) if nk[i] == 0]
    return {"d": d, "nk": nk, "kids": kids, "only": only, "pd": pd, "bo": bo, "td": td, "depth": max(depth), "branches": branches,
            "length": math.fsum(float(x) for x in d[1:]), "branch_length": blen,
            "branch_tortuosity": [(dist(v, e) / L) if L > 0 else 1.0 for (v, c, e, m), L in zip(branches, blen)],
            "tips": tips, "path_length": [pd[i] for i in tips],
            "counts": {"node": n, "tip": len(tips), "furcation": sum(1 for v in nk if v > 1), "stems": nk[0], "branch": len(branches)},
            "radial": np.linalg.norm(P - P[0], axis=1)}


class Sampled(Suite):
    """finely sampled reconstructions: a handful of branch points joined by long unbranched runs of nodes at a fixed sampling step (what
    tracing software and resampling produce).  Two regimes that small random trees never reach, both inside "for all trees":
    DEEP trees — the nesting (nodes between a node and its deepest descendant / the root) exceeds the interpreter's recursion limit,
    read from sys.getrecursionlimit(), by a random factor — and trees of MANY SEGMENTS (10^4 and more equal steps, where a sum that is
    not accumulated carefully drifts systematically).  A few short members of the same construction ride along as a control.  Every
    quantity is computed from its definition in float64 on the stored coordinates, in linear time, and compared with the tolerance
    1e-5 of the ASSUMPTIONS; every call must return (the property is quantified over all trees)."""
    name = "c10.sampled"
    case_timeout = 120
    RTOL = 1e-5

    def cases(self, rng, tier, widen):
        import sys

        out = []
        big = tier == "thorough" or widen
        rl = sys.getrecursionlimit()
        plan = [("short", 2), ("deep", 3), ("many-segments", 2)] if not big else [("short", 4), ("deep", 8), ("many-segments", 5)]
        shapes = ["binary", "caterpillar", "random", "stem", "star", "highdeg", "chain", "binary"]
        k = 0
        for regime, count in plan:
            for _ in range(count):
                shape = shapes[k % len(shapes)]; k += 1
                m = rng.randint(2, 4) if shape == "chain" else rng.randint(3, 6 if regime == "deep" and not big else 9)
                sk = gen.parents_sorted(rng, m, shape)
                m = len(sk)
                if regime == "short":
                    runs = [0] + [rng.randint(1, 40) for _ in range(m - 1)]
                elif regime == "deep":      # every run a random fraction / multiple of the recursion limit; the deepest node lies beyond it
                    runs = [0] + [int(rl * rng.choice([0.02, 0.1, 0.3, 0.6])) + rng.randint(1, rl // 8) for _ in range(m - 1)]
                    runs[rng.randrange(1, m)] += int(rl * rng.uniform(1.05, 1.6 if not big else 4.0))
                else:
                    total = rng.randint(12000, 18000 if not big else 45000)
                    w = [rng.uniform(0.2, 1.0) for _ in range(m - 1)]
                    runs = [0] + [max(1, int(total * x / sum(w))) for x in w]
                # sibling runs leave in pairwise non-parallel directions (bifurcation angles are generic, no coincident neighbours)
                dirs = [[0, 0, 0]]
                for j in range(1, m):
                    for _try in range(200):
                        dv = [rng.randint(-3, 3) for _ in range(3)]
                        sib = [dirs[i] for i in range(1, j) if sk[i] == sk[j]] + ([[-c for c in dirs[sk[j]]]] if sk[j] else [])
                        if any(dv) and all(any(np.cross(dv, s)) for s in sib):
                            break
                    dirs.append(dv)
                base = rng.choice([0.05, 0.1, 0.25, 0.5, 1.0, rng.uniform(0.03, 2.0)])      # one sampling step per reconstruction, or one per neurite
                steps = [0.0] + [base if k % 2 else round(rng.uniform(0.03, 2.0), 3) for _ in range(m - 1)]
                desc = {"skeleton": sk, "runs": runs, "dirs": dirs, "steps": steps, "origin": [float(rng.randint(-3, 3)) for _ in range(3)]}
                T = sampled_tree(desc)
                nk = np.bincount(T["pids"][1:], minlength=T["n"])
                first = [int(i) for i in range(1, T["n"]) if nk[T["pids"][i]] > 1]
                ask = [0] + [e for e in T["ends"][1:]] + first
                lim = {"short": 40, "deep": 14, "many-segments": 5}[regime] * (2 if big else 1)
                rng.shuffle(ask)
                furc = [v for v in ask if nk[v] > 1]
                ask = list(dict.fromkeys([0] + furc[:2] + ask))[:lim - 2] + [rng.randrange(T["n"]) for _ in range(2)]
                rad = np.linalg.norm(T["xyz"] - T["xyz"][0], axis=1)
                radii = [float(rng.uniform(0.02, 1.1) * rad.max()) for _ in range(4)]
                case = dict(desc, nodes=sorted(set(int(v) for v in ask)), radii=radii, paths=regime != "many-segments")
                case["class"] = regime + "/" + shape
                if regime != "short":
                    case["big"] = True      # not part of the second pass (cost)
                out.append(case)
        return out

    def run(self, case):
        from swcgeom.analysis import Sholl, extract_feature
        from swcgeom.analysis.features import BranchFeatures, FurcationFeatures, NodeFeatures, PathFeatures, TipFeatures
        from swcgeom.analysis.lmeasure import LMeasure

        T = sampled_tree(case)
        t = gen.make_tree(T)
        assert np.array_equal(t.xyz().astype(np.float64), T["xyz"]), "harness: coordinates not exact in float32"

        def ev(f):
            try:
                return f()
            except Exception as e:  # noqa: BLE001 - the oracle decides: every one of these calls must return
                return {"exc": type(e).__name__, "msg": str(e)[:120]}
        fl = lambda a: [float(v) for v in np.atleast_1d(a)]
        res = {"n": T["n"]}
        nk = np.bincount(T["pids"][1:], minlength=T["n"])
        with warnings.catch_warnings():
            warnings.simplefilter("ignore")
            lm = LMeasure()
            res["length"] = ev(lambda: float(t.length()))
            res["branch_length"] = ev(lambda: fl(BranchFeatures(t).get_length()))
            res["branch_length_direct"] = ev(lambda: [float(b.length()) for b in t.get_branches()])
            res["branch_tortuosity"] = ev(lambda: fl(BranchFeatures(t).get_tortuosity()))
            nf = NodeFeatures(t)
            res["counts"] = ev(lambda: [int(nf.get_count()[0]), int(TipFeatures(nf).get_count()[0]), int(FurcationFeatures(nf).get_count()[0]),
                                        int(BranchFeatures(t).get_count())])
            res["lm_counts"] = ev(lambda: [int(lm.n_stems(t)), int(lm.n_bifs(t)), int(lm.n_branch(t)), int(lm.n_tips(t))])
            res["radial"] = ev(lambda: [float(v) for v in np.asarray(nf.get_radial_distance())[case["nodes"]]])
            res["radial_size"] = ev(lambda: int(np.asarray(nf.get_radial_distance()).size))
            res["fragmentation"] = ev(lambda: [int(lm.fragmentation(b)) for b in t.get_branches()])
            res["contraction"] = ev(lambda: [float(lm.contraction(b)) for b in t.get_branches()])
            if case["paths"]:
                res["path_length"] = ev(lambda: fl(PathFeatures(t).get_length()))
            res["sholl"] = ev(lambda: [int(v) for v in Sholl(t).get(steps=[float(r) for r in case["radii"]])])
            fe = ev(lambda: extract_feature(t))
            for name in ["length", "branch_length", "node_count", "tip_count", "furcation_count"]:
                res["fe_" + name] = fe if isinstance(fe, dict) else ev(lambda: fl(fe.get(name)))
            per = {}
            for v in case["nodes"]:
                nd = ev(lambda: t.node(v))
                if isinstance(nd, dict):
                    per[str(v)] = {"node": nd}; continue
                q = {"path_distance": ev(lambda: float(lm.path_distance(nd))), "euc_distance": ev(lambda: float(lm.euc_distance(nd))),
                     "branch_order": ev(lambda: int(lm.branch_order(nd))), "terminal_degree": ev(lambda: int(lm.terminal_degree(nd)))}
                if nk[v] == 2:
                    q["partition_asymmetry"] = ev(lambda: float(lm.partition_asymmetry(nd)))
                    q["bif_ampl_local"] = ev(lambda: float(lm.bif_ampl_local(nd)))
                    q["bif_ampl_remote"] = ev(lambda: float(lm.bif_ampl_remote(nd)))
                per[str(v)] = q
            res["per"] = per
        return res

    def oracle(self, case, res):
        try:
            return self._oracle(case, res)
        except Exception as e:  # noqa: BLE001 - a malformed answer must not crash the check
            return [("features-raise", f"the answers for the sampled tree {self._say(case)} could not be judged ({type(e).__name__}: {e}): {str(res)[:300]}")]

    @staticmethod
    def _say(case):
        return (f"(skeleton parents {case['skeleton']}, unbranched runs of {case['runs'][1:]} segments with steps {case['steps'][1:]} in directions "
                f"{case['dirs'][1:]} from {case['origin']})")

    def _oracle(self, case, res):
        import sys

        say = self._say(case)
        if not isinstance(res, dict) or "exc" in res or "per" not in res:
            r = res if isinstance(res, dict) else {}
            return [("features-raise", f"{r.get('exc')}: {r.get('msg')} on the sampled tree {say}")]
        T = sampled_tree(case)
        tr = sampled_truth(T)
        n = T["n"]
        where = f"tree of {n} nodes, depth {tr['depth']} (recursion limit {sys.getrecursionlimit()}) {say}"
        out = []
        num = lambda v: isinstance(v, (int, float)) and not isinstance(v, bool) and math.isfinite(v)
        close = lambda a, b: num(a) and abs(a - b) <= self.RTOL * max(1.0, abs(b))

        def judge(key, got, want, what, sort=False, tol=None):
            """got: a number / a list of numbers / {"exc": …}"""
            if isinstance(got, dict):
                out.append((key + "-raises", f"{what} raised {got.get('exc')}: {got.get('msg')}; the definition gives {str(want)[:120]} — {where}")); return
            ok_ = (lambda a, b: num(a) and abs(a - b) <= tol) if tol is not None else close
            if isinstance(want, list):
                ok = isinstance(got, list) and len(got) == len(want) and all(num(v) for v in got)
                if ok:
                    g, w = (sorted(got), sorted(want)) if sort else (got, want)
                    ok = all((a == b) if isinstance(b, int) else ok_(a, b) for a, b in zip(g, w))
            else:
                ok = (got == want) if isinstance(want, int) else ok_(got, want)
            if not ok:
                out.append((key, f"{what}: library says {str(got)[:160]}, the definition gives {str(want)[:160]} — {where}"))

        c = tr["counts"]
        judge("length", res.get("length"), tr["length"], "Tree.length() = Σ parent-child distances")
        bl = res.get("branch_length")
        if isinstance(bl, list) and all(num(v) for v in bl) and num(res.get("length")):
            judge("length-vs-branches", res["length"], math.fsum(bl), "Tree.length() = Σ BranchFeatures.get_length()")
        judge("branch-length", bl, tr["branch_length"], "BranchFeatures.get_length()", sort=True)
        judge("branch-length", res.get("branch_length_direct"), tr["branch_length"], "Branch.length() of get_branches()", sort=True)
        judge("branch-tortuosity", res.get("branch_tortuosity"), tr["branch_tortuosity"], "BranchFeatures.get_tortuosity()", sort=True)
        cnt = res.get("counts")
        judge("node-count", cnt, [c["node"], c["tip"], c["furcation"], c["branch"]], "node / tip / furcation / branch counts")
        judge("lm-counts", res.get("lm_counts"), [c["stems"], c["furcation"], c["branch"], c["tip"]], "L-Measure n_stems/n_bifs/n_branch/n_tips")
        judge("radial-distance", res.get("radial"), [float(tr["radial"][v]) for v in case["nodes"]], f"radial distance of nodes {case['nodes']}")
        judge("radial-distance", res.get("radial_size"), n, "number of radial distances")
        judge("lm-fragmentation", res.get("fragmentation"), [int(b[3]) for b in tr["branches"]], "fragmentation of the branches", sort=True)
        judge("lm-contraction", res.get("contraction"), tr["branch_tortuosity"], "contraction of the branches", sort=True)
        if case.get("paths"):
            judge("path-length", res.get("path_length"), tr["path_length"], "PathFeatures.get_length()", sort=True)
        sh = res.get("sholl")
        if isinstance(sh, dict):
            judge("sholl", sh, None, f"Sholl.get(steps={case['radii']})")
        elif not (isinstance(sh, list) and len(sh) == len(case["radii"])):
            out.append(("sholl", f"Sholl.get(steps={case['radii']}) returned {str(sh)[:120]} — {where}"))
        else:
            rad, pp = tr["radial"], np.array([0] + [int(p) for p in T["pids"][1:]])
            lo_, hi_ = np.minimum(rad, rad[pp])[1:], np.maximum(rad, rad[pp])[1:]
            for g, r in zip(sh, case["radii"]):      # judged where no node sits within 1e-5 of the radius
                lo, hi = (int(np.sum((lo_ <= x) & (x < hi_))) for x in (r * (1 - 1e-5), r * (1 + 1e-5)))
                if lo == hi and g != lo:
                    out.append(("sholl", f"Sholl.get counts {g} intersections at radius {r}, the definition gives {lo} — {where}")); break
        judge("extract-single", res.get("fe_length"), [tr["length"]], "extract_feature(tree).get('length')")
        judge("extract-single", res.get("fe_branch_length"), tr["branch_length"], "extract_feature(tree).get('branch_length')", sort=True)
        for name, want in (("node_count", c["node"]), ("tip_count", c["tip"]), ("furcation_count", c["furcation"])):
            judge("extract-single", res.get("fe_" + name), [float(want)], f"extract_feature(tree).get({name!r})")
        P = T["xyz"]

        def ang(u, w):
            return math.degrees(math.acos(max(-1.0, min(1.0, float(np.dot(u, w) / (np.linalg.norm(u) * np.linalg.norm(w)))))))
        for v in case["nodes"]:
            q = res["per"].get(str(v))
            if not isinstance(q, dict) or "node" in q:
                out.append(("features-raise", f"Tree.node({v}) failed: {q} — {where}")); continue
            at = f"at node {v} ({tr['nk'][v]} children, {int(tr['bo'][v])} furcations above or at it)"
            judge("lm-path-distance", q.get("path_distance"), tr["pd"][v], f"path distance to the soma {at}")
            judge("lm-euc-distance", q.get("euc_distance"), float(tr["radial"][v]), f"Euclidean distance to the soma {at}")
            judge("lm-branch-order", q.get("branch_order"), int(tr["bo"][v]), f"L-Measure branch order {at}")
            judge("lm-terminal-degree", q.get("terminal_degree"), int(tr["td"][v]), f"terminal degree (tips at or below) {at}")
            if tr["nk"][v] == 2:
                a, b = tr["kids"][v]
                n1, n2 = tr["td"][a], tr["td"][b]
                judge("lm-partition-asymmetry", q.get("partition_asymmetry"), 0.0 if n1 == n2 else abs(n1 - n2) / (n1 + n2 - 2),
                      f"partition asymmetry (daughters carry {n1} and {n2} tips) {at}")
                ea, eb = a, b
                while tr["nk"][ea] == 1:
                    ea = tr["only"][ea]
                while tr["nk"][eb] == 1:
                    eb = tr["only"][eb]
                judge("lm-bif-angle-local", q.get("bif_ampl_local"), ang(P[a] - P[v], P[b] - P[v]), f"local bifurcation angle {at}", tol=0.05)
                judge("lm-bif-angle-remote", q.get("bif_ampl_remote"), ang(P[ea] - P[v], P[eb] - P[v]), f"remote bifurcation angle {at}", tol=0.05)
        seen, uniq = set(), []
        for key, msg in out:                # one message per key: the evidence stays readable
            if key not in seen:
                seen.add(key); uniq.append((key, msg))
        return uniq[:6]

    def nontrivial(self, case, res):
        return len(case["skeleton"]) >= 3



# ---- T22 `nodefeat`: the definitions GENERATED from features.py / path.py / node.py / tree.py (Gen/AlgoNodeFeat.lean) against the real functions ----
_NF_STEPS = [(3, 4, 0), (0, 0, 5), (1, 2, 2), (2, 3, 6), (1, 0, 0), (0, 2, 0), (4, 0, 3), (0, 0, 1), (2, 6, 3), (0, 5, 12)]


def nf_tree(rng, n, shape, soma=True):
    """a tree on the integer lattice whose every EDGE has integer length (3-4-5, 1-2-2, 2-3-6, … steps in any orientation and sign), no two nodes
    at one place; the other distances (to the root, end to end) are square roots of arbitrary integers"""
    pids = gen.renumber_root0(rng, gen.parents_sorted(rng, n, shape))
    n = len(pids)
    xyz = {0: (rng.randint(-3, 3), rng.randint(-3, 3), rng.randint(-3, 3))}
    used = {xyz[0]}
    order = sorted(range(1, n), key=lambda i: 0)       # parents may follow their children: place nodes by walking up
    def place(i):
        if i in xyz:
            return
        place(pids[i])
        for _try in range(200):
            st = list(rng.choice(_NF_STEPS)); rng.shuffle(st)
            q = tuple(xyz[pids[i]][k] + rng.choice([-1, 1]) * st[k] * (1 + _try // 50) for k in range(3))
            if q not in used:
                break
        used.add(q); xyz[i] = q
    for i in order:
        place(i)
    return {"n": n, "pids": pids, "types": [1 if soma else 3] + [rng.choice([2, 3, 4]) for _ in range(n - 1)],
            "xyz": [[float(c) for c in xyz[i]] for i in range(n)], "r": [1.0] * n}


def _nf_parse(got):
    return [Fraction(x) for x in got.replace(";", ",").split(",") if x not in ("", "_")]


def _nf_close(f, x, scale=None):
    """`x`: the driver's exact value of a norm-valued quantity (`-q` = the marker for sqrt(q), optionally divided by the exact `scale`)"""
    if x >= 0:
        return abs(f - float(x)) <= 2e-5 * max(1.0, abs(float(x)))
    q = float(-x) * (scale if scale is not None else 1.0)          # x = -q / scale
    want = math.sqrt(q) / (scale if scale is not None else 1.0)
    return abs(f - want) <= 2e-5 * max(1.0, want)


class NodeFeat(Suite):
    """the generated `Tree.length`, `Path.length / straight_line_distance / tortuosity`, `Node.distance`, `NodeFeatures`, `FurcationFeatures` /
    `TipFeatures`, `PathFeatures`, `BranchFeatures` run at Rat on the inputs of the real functions (trees whose edges have integer length in
    oblique directions; a few without a soma-typed root, where `get_radial_distance` raises)"""
    name = "c10.nodefeat"

    def cases(self, rng, tier, widen):
        out = []
        big = tier == "thorough" or widen
        k = 0
        for n in [1, 2, 3, 4, 5, 7, 10, 16] + ([30, 60] if big else []):
            for _ in range(2 if not big else 4):
                shape = gen.pick_shape(rng, k); k += 1
                tr_ = nf_tree(rng, n, shape, soma=bool(k % 6))
                out.append({"class": shape + ("" if k % 6 else "/no-soma"), "tree": tr_,
                            "pairs": [(rng.randrange(tr_["n"]), rng.randrange(tr_["n"])) for _ in range(3)]})
        return out

    def run(self, case):
        from swcgeom.analysis.features import BranchFeatures, FurcationFeatures, NodeFeatures, PathFeatures, TipFeatures

        t = gen.make_tree(case["tree"])
        P = case["tree"]["xyz"]
        res = {}
        with warnings.catch_warnings():
            warnings.simplefilter("ignore")
            nf = NodeFeatures(t)
            ff, tf, pf, bf = FurcationFeatures(nf), TipFeatures(nf), PathFeatures(t), BranchFeatures(t)
            res["length"] = float(t.length())
            for key, fn in (("radial", nf.get_radial_distance), ("fradial", ff.get_radial_distance), ("tradial", tf.get_radial_distance)):
                try:
                    res[key] = [float(v) for v in fn()]
                except ValueError:
                    res[key] = "E"
            res["counts"] = [float(nf.get_count()[0]), float(ff.get_count()[0]), float(tf.get_count()[0])]
            res["plen"] = [float(v) for v in pf.get_length()]; res["blen"] = [float(v) for v in bf.get_length()]
            res["ptort"] = [float(v) for v in pf.get_tortuosity()]; res["btort"] = [float(v) for v in bf.get_tortuosity()]
            res["paths"] = [[int(i) for i in p.idx] for p in t.get_paths()]
            res["branches"] = [[int(i) for i in b.idx] for b in t.get_branches()]
            order = nf.get_branch_order()
            bt = nf._branch_tree
            where = {tuple(q): i for i, q in enumerate(P)}
            res["border"] = [[where[tuple(float(c) for c in bt.xyz()[i])] for i in range(len(order))], [int(v) for v in order]]
            res["angle"] = [[float(v) for v in row] for row in bf.get_angle(eps=1e-7)] if res["branches"] else []
            res["dist"] = [float(t.node(a).distance(t.node(b))) for a, b in case["pairs"]]
            res["pathq"] = [[float(p.length()), float(p.straight_line_distance()), float(p.tortuosity())] for p in t.get_paths()]
        return res

    def lines(self, case, res):
        if "exc" in res:
            return []
        t = case["tree"]
        n = t["n"]
        P = [[int(c) for c in q] for q in t["xyz"]]
        a = f"pids={gen.ints(t['pids'])} types={gen.ints(t['types'])} xyz={';'.join(gen.ints(q) for q in P)}"
        sq = lambda u, w: sum((P[u][k] - P[w][k]) ** 2 for k in range(3))
        elen = lambda u, w: math.isqrt(sq(u, w))                       # every edge has integer length
        plen = lambda idx: sum(elen(x, y) for x, y in zip(idx, idx[1:]))

        def vals(want, scales=None):
            def f(got):
                xs = _nf_parse(got)
                return len(xs) == len(want) and all(_nf_close(w, x, None if scales is None else scales[i]) for i, (w, x) in enumerate(zip(want, xs)))
            return Expect(f, str(want))

        rt, sqm = f"gnodefeat {a} mode=rt", f"gnodefeat {a} mode=sq"
        rs = lambda l: ",".join(str(v) for v in l) if l else "_"
        out = [(f"{rt} what=length", vals([res["length"]])),
               # the squared quantities, recomputed here from the inputs: which vectors the norm is applied to, in which order
               (f"{sqm} what=length", rs([sum(sq(t["pids"][i], i) for i in range(1, n))])),
               (f"{rt} what=counts", " ".join(str(int(v)) for v in res["counts"])),
               (f"{rt} what=plen", vals(res["plen"])), (f"{rt} what=blen", vals(res["blen"])),
               (f"{sqm} what=plen", rs([sum(sq(x, y) for x, y in zip(p, p[1:])) for p in res["paths"]])),
               (f"{sqm} what=blen", rs([sum(sq(x, y) for x, y in zip(b, b[1:])) for b in res["branches"]])),
               (f"{rt} what=ptort", vals(res["ptort"], [plen(p) for p in res["paths"]])),
               (f"{rt} what=btort", vals(res["btort"], [plen(b) for b in res["branches"]])),
               (f"{rt} what=border", f"{gen.ints(res['border'][0])} {gen.ints(res['border'][1])}")]
        for key, sel in (("radial", lambda i: True), ("fradial", lambda i: t["pids"].count(i) > 1), ("tradial", lambda i: t["pids"].count(i) == 0)):
            if res[key] == "E":
                out += [(f"{rt} what={key}", "E"), (f"{sqm} what={key}", "E")]
            else:
                out += [(f"{rt} what={key}", vals(res[key])), (f"{sqm} what={key}", rs([sq(i, 0) for i in range(n) if sel(i)]))]
        for (u, w), d in zip(case["pairs"], res["dist"]):
            out += [(f"{rt} what=dist a={u} b={w}", vals([d])), (f"{sqm} what=dist a={u} b={w}", str(sq(u, w)))]
        for p, q in zip(res["paths"][:3], res["pathq"]):
            def pq(got, p=p, q=q):
                xs = [Fraction(x) for x in got.split(" ")]
                return len(xs) == 3 and _nf_close(q[0], xs[0]) and _nf_close(q[1], xs[1]) and _nf_close(q[2], xs[2], plen(p))
            out.append((f"{rt} what=pathq idx={gen.ints(p)}", Expect(pq, str(q))))
        if res["branches"]:
            # the angle matrix with norm := the squared norm and acos := the identity: recomputed here from the inputs (the divisor is the
            # product of the norms, 1 where that product is 0; the `eps` handed in is ignored); the real angles are compared with
            # arccos(clip(dot / (|u||v|))) of the SAME vectors (cosine 0 where a branch has length zero)
            V = [[P[b[-1]][k] - P[b[0]][k] for k in range(3)] for b in res["branches"]]
            dot = lambda u, w: sum(x * y for x, y in zip(u, w))
            clip = lambda x: max(Fraction(-1), min(Fraction(1), x))
            want = ";".join(",".join(str(clip(Fraction(dot(u, w)) / (dot(u, u) * dot(w, w) or 1))) for w in V) for u in V)
            out.append((f"{sqm} what=angle eps=1/10000000", want))
        return out

    def oracle(self, case, res):
        if "exc" in res:
            return [("features-raise", f"{res['exc']}: {res.get('msg')}")]
        out = []
        P = np.array(case["tree"]["xyz"], dtype=np.float64)
        if res["branches"]:
            V = [P[b[-1]] - P[b[0]] for b in res["branches"]]
            for i, u in enumerate(V):
                for j, w in enumerate(V):
                    den = float(np.linalg.norm(u)) * float(np.linalg.norm(w))
                    want = math.acos(max(-1.0, min(1.0, float(u @ w) / den))) if den != 0 else math.pi / 2
                    if abs(res["angle"][i][j] - want) > 2e-3:
                        out.append(("branch-angle", f"angle between branches {res['branches'][i]} and {res['branches'][j]}: {res['angle'][i][j]}, definition {want}"))
        return out[:3]

    def nontrivial(self, case, res):
        return case["tree"]["n"] >= 3


# ----------------------------------------------------------------------------------------------------------------------------------
# T21 `lmgeo`: the GENERATED geometric L-Measure functions (Gen/AlgoLmGeo.lean, driver op `glmgeo`)

class _SumSqNorm:
    """`numpy.linalg.norm` replaced by the SUM OF SQUARES (float64) while the real functions run: on integer-lattice trees every value the
    functions compute is then an exact integer / a quotient of exact integers, and equals what the generated definitions compute at `Rat` with
    `norm` := sum of squares.  (numpy is patched, not the library; what is pinned is WHICH nodes / vectors / radii each function reads.)"""

    def __enter__(self):
        self.old = np.linalg.norm
        np.linalg.norm = lambda x, ord=None, axis=None, keepdims=False: (np.asarray(x, dtype=np.float64) ** 2).sum(axis=axis)
        return self

    def __exit__(self, *a):
        np.linalg.norm = self.old


LMGEO_NODE = ["path_distance", "euc_distance", "diameter"]
LMGEO_BIF = ["rall_power_d", "pk_2", "bif_vector_local", "bif_ampl_local", "bif_vector_remote", "bif_ampl_remote"]
LMGEO_BRANCH = ["branch_pathlength", "contraction", "taper_1", "taper_2"]


def _lg_val(f):
    """a real result as JSON: "E" = raised / not finite (a numpy division by zero), else the float (tuples / arrays element-wise)"""
    try:
        v = f()
    except (AssertionError, ValueError, ZeroDivisionError, IndexError) as e:
        return "E"
    if isinstance(v, tuple):
        return [[float(x) for x in np.asarray(c).reshape(-1)] for c in v]
    v = float(v)
    return v if math.isfinite(v) else "E"


def _lg_close(x, w, exact):
    if w == "E" or x == "E":
        return x == w
    q = Fraction(x)
    if exact:
        return q.numerator / q.denominator == w          # int / int is the correctly rounded quotient
    return abs(q.numerator / q.denominator - w) <= 1e-6 * max(1.0, abs(w))


class LmGeo(Suite):
    """the geometric L-Measure functions on integer-lattice trees of every shape and numbering, at every node / bifurcation candidate / branch;
    trees with coincident points (zero-length branches, zero bifurcation vectors) and trees without a soma root included"""
    name = "c10.lmgeo"

    def cases(self, rng, tier, widen):
        out = []
        big = tier == "thorough" or widen
        k = 0
        def coords(n, lo, hi):
            return [[rng.randint(lo, hi) for _ in range(3)] for _ in range(n)]
        for n in range(1, 5):
            for pids in gen.all_root0_trees(n):
                k += 1
                out.append({"class": f"all-n{n}", "n": n, "pids": pids, "types": [1] + [3] * (n - 1), "xyz": coords(n, -1 if k % 2 else -3, 1 if k % 2 else 3),
                            "r": [rng.randint(1, 3) for _ in range(n)]})
        for n in [s for s in gen.sizes(tier, widen) if s <= (70 if big else 24)]:
            for _ in range(3 if not big else 6):
                shape = gen.pick_shape(rng, k); k += 1
                pids = gen.parents_sorted(rng, n, shape)
                if k % 3:
                    pids = gen.renumber_root0(rng, pids)
                m = len(pids)
                ty = [1 if k % 5 else rng.choice([0, 2, 3])] + [rng.choice([1, 2, 3, 4]) for _ in range(m - 1)]
                span = 1 if k % 4 == 0 else 5          # span 1: many coincident points
                out.append({"class": shape + ("/root0" if k % 3 else "/sorted") + ("" if ty[0] == 1 else "/no-soma") + ("/dense" if span == 1 else ""),
                            "n": m, "pids": pids, "types": ty, "xyz": coords(m, -span, span), "r": [rng.randint(1, 4) for _ in range(m)]})
        return out

    def run(self, case):
        from swcgeom.analysis.lmeasure import LMeasure

        n = case["n"]
        t = gen.make_tree(dict(case, xyz=[[float(a) for a in p] for p in case["xyz"]], r=[float(a) for a in case["r"]]))
        lm = LMeasure()
        res = {}
        with warnings.catch_warnings(), np.errstate(all="ignore"), _SumSqNorm():
            warnings.simplefilter("ignore")
            res["path_distance"] = [_lg_val(lambda: lm.path_distance(t.node(i))) for i in range(n)]
            res["euc_distance"] = [_lg_val(lambda: lm.euc_distance(t.node(i))) for i in range(n)]
            res["diameter"] = [_lg_val(lambda: lm.diameter(t.node(i))) for i in range(n)]
            res["rall_power_d"] = [_lg_val(lambda: tuple(np.float64(x) for x in lm._rall_power_d(t.node(i)))) for i in range(n)]
            res["pk_2"] = [_lg_val(lambda: lm.pk_2(t.node(i))) for i in range(n)]
            res["bif_vector_local"] = [_lg_val(lambda: lm._bif_vector_local(t.node(i))) for i in range(n)]
            res["bif_ampl_local"] = [_lg_val(lambda: lm.bif_ampl_local(t.node(i))) for i in range(n)]
            res["bif_vector_remote"] = [_lg_val(lambda: lm._bif_vector_remote(t.node(i))) for i in range(n)]
            res["bif_ampl_remote"] = [_lg_val(lambda: lm.bif_ampl_remote(t.node(i))) for i in range(n)]
            comps = t.get_compartments()
            res["comps"] = [[int(x) for x in c.origin_id()] for c in comps]
            res["length"] = [_lg_val(lambda: lm.length(c)) for c in comps]
            res["section_area"] = [_lg_val(lambda: lm.section_area(t.node(i))) for i in range(n)]
            for cp in (0, -1):
                lmc = LMeasure(compartment_point=cp)
                res[f"surface{cp}"] = [_lg_val(lambda: lmc.surface(c)) for c in comps]
                res[f"volume{cp}"] = [_lg_val(lambda: lmc.volume(c)) for c in comps]
            brs = t.get_branches()
            res["branches"] = [[int(x) for x in b.origin_id()] for b in brs]
            res["branch_pathlength"] = [_lg_val(lambda: lm.branch_pathlength(b)) for b in brs]
            res["contraction"] = [_lg_val(lambda: lm.contraction(b)) for b in brs]
            res["taper_1"] = [_lg_val(lambda: lm.taper_1(b)) for b in brs]
            res["taper_2"] = [_lg_val(lambda: lm.taper_2(b)) for b in brs]
        return res

    def lines(self, case, res):
        if "exc" in res:
            return []
        n = case["n"]
        xyz = case["xyz"]
        g = (f"glmgeo pids={gen.ints(case['pids'])} types={gen.ints(case['types'])} xs={gen.ints([p[0] for p in xyz])} ys={gen.ints([p[1] for p in xyz])} "
             f"zs={gen.ints([p[2] for p in xyz])} rs={gen.ints(case['r'])}")
        def scal(want, exact):
            def f(got):
                vals = [] if got == "_" else got.split()
                return len(vals) == len(want) and all(_lg_close(x, w, exact) for x, w in zip(vals, want))
            return Expect(f, str(want))
        def vecs(want):
            def f(got):
                vals = got.split()
                if len(vals) != len(want):
                    return False
                for x, w in zip(vals, want):
                    if w == "E" or x == "E":
                        if x != w:
                            return False
                    elif [[float(Fraction(c)) for c in part.split(",")] for part in x.split(";")] != w:
                        return False
                return True
            return Expect(f, str(want))
        def ampl(want):
            def f(got):
                vals = got.split()
                if len(vals) != len(want):
                    return False
                for x, w in zip(vals, want):
                    if w == "E" or x == "E":
                        if x != w:
                            return False
                    else:
                        c = float(Fraction(x))
                        if abs(math.degrees(math.acos(max(-1.0, min(1.0, c)))) - w) > 1e-3:
                            return False
                return True
            return Expect(f, str(want))
        nodes = gen.ints(list(range(n)))
        out = [(f"{g} what={w}", scal(res[w], True)) for w in LMGEO_NODE]
        out.append((f"{g} what=rall_power_d nodes={nodes}", Expect(lambda got, want=res["rall_power_d"]: [
            "E" if x == "E" else [[float(Fraction(c))] for c in x.split(",")] for x in got.split()] == want, str(res["rall_power_d"]))))
        out.append((f"{g} what=pk_2 nodes={nodes}", scal(res["pk_2"], False)))
        out.append((f"{g} what=bif_vector_local nodes={nodes}", vecs(res["bif_vector_local"])))
        out.append((f"{g} what=bif_ampl_local nodes={nodes}", ampl(res["bif_ampl_local"])))
        out.append((f"{g} what=bif_vector_remote nodes={nodes}", vecs(res["bif_vector_remote"])))
        out.append((f"{g} what=bif_ampl_remote nodes={nodes}", ampl(res["bif_ampl_remote"])))
        if res["comps"] == [[case["pids"][i], i] for i in range(1, n)]:
            # the compartments `[parent, node]` of the rows 1 .. n-1, in row order (Tree.get_compartments); pi = the double math.pi as an exact rational
            pi = Fraction(math.pi)
            ps = f"pi={pi.numerator}/{pi.denominator}"
            out.append((f"{g} what=length", scal(res["length"], True)))
            out.append((f"{g} what=section_area {ps}", scal(res["section_area"], False)))
            for cp in (0, -1):
                out.append((f"{g} what=surface {ps} cp={cp}", scal(res[f"surface{cp}"], False)))
                out.append((f"{g} what=volume {ps} cp={cp}", scal(res[f"volume{cp}"], False)))
        out += [(f"{g} what={w}", scal(res[w], w in ("branch_pathlength", "contraction"))) for w in LMGEO_BRANCH]      # taper_1 / taper_2 are float32 quotients
        return out

    def oracle(self, case, res):
        """the definitions, computed directly from the case data (squared lengths, as the patched norm gives them)"""
        pids, n, xyz, r = case["pids"], case["n"], case["xyz"], case["r"]
        if "exc" in res:
            return [("lmgeo-raises", f"{res['exc']}: {res.get('msg')} on pids={pids}")]
        d2 = lambda a, b: sum((xyz[a][k] - xyz[b][k]) ** 2 for k in range(3))
        out = []
        def up(i):
            s = 0
            while pids[i] != -1:
                s += d2(i, pids[i]); i = pids[i]
            return s
        want = [float(up(i)) for i in range(n)]
        if res["path_distance"] != want:
            out.append(("lmgeo-path-distance", f"path_distance {res['path_distance']}, sum of the (squared) edge lengths to the root: {want} (pids={pids})"))
        want = [float(d2(i, 0)) for i in range(n)] if case["types"][0] == 1 else ["E"] * n
        if res["euc_distance"] != want:
            out.append(("lmgeo-euc-distance", f"euc_distance {res['euc_distance']}, (squared) distance to the soma: {want} (pids={pids})"))
        if res["diameter"] != [2.0 * a for a in r]:
            out.append(("lmgeo-diameter", f"diameter {res['diameter']} of radii {r}"))
        kids = {}
        for i, p in enumerate(pids):
            kids.setdefault(p, []).append(i)
        for i in range(n):
            ks = kids.get(i, [])
            wv = [[float(xyz[c][k] - xyz[i][k]) for k in range(3)] for c in ks] if len(ks) == 2 else "E"
            wd = [[2.0 * r[pids[i]]], [2.0 * r[ks[0]]], [2.0 * r[ks[1]]]] if len(ks) == 2 and pids[i] != -1 else "E"
            def far(c):
                while len(kids.get(c, [])) == 1:
                    c = kids[c][0]
                return c
            wr = [[float(xyz[far(c)][k] - xyz[i][k]) for k in range(3)] for c in ks] if len(ks) == 2 else "E"
            if res["bif_vector_remote"][i] != wr:
                out.append(("lmgeo-bifurcation-remote", f"node {i}: _bif_vector_remote {res['bif_vector_remote'][i]}; (end of the child's branch − node) vectors {wr} "
                                                        f"(pids={pids})"))
                break
            if res["bif_vector_local"][i] != wv or res["rall_power_d"][i] != wd:
                out.append(("lmgeo-bifurcation", f"node {i}: _bif_vector_local {res['bif_vector_local'][i]} / _rall_power_d {res['rall_power_d'][i]}; "
                                                 f"child − node vectors {wv}, diameters (parent, children) {wd} (pids={pids})"))
                break
        for j, (a, b) in enumerate(res["comps"]):
            h = d2(a, b)
            wants = {"length": float(h), "surface0": 2 * math.pi * r[a] * h, "surface-1": 2 * math.pi * r[b] * h,
                     "volume0": math.pi * r[a] ** 2 * h, "volume-1": math.pi * r[b] ** 2 * h}
            bad = [k for k, w in wants.items() if abs(res[k][j] - w) > 1e-5 * max(1.0, abs(w))]
            if bad:
                out.append(("lmgeo-compartment", f"compartment {a}->{b}: {bad[0]} = {res[bad[0]][j]}, the definition gives {wants[bad[0]]} (radii {r[a]}, {r[b]})"))
                break
        for b, L, c, t1, t2 in zip(res["branches"], res["branch_pathlength"], res["contraction"], res["taper_1"], res["taper_2"]):
            wl = float(sum(d2(u, v) for u, v in zip(b, b[1:])))
            wc = "E" if wl == 0 else d2(b[0], b[-1]) / wl
            w1 = "E" if wl == 0 else (2 * r[b[0]] - 2 * r[b[-1]]) / wl
            w2 = (2 * r[b[0]] - 2 * r[b[-1]]) / (2 * r[b[0]])
            if L != wl or c != wc or (t1 != w1 and not (t1 != "E" and w1 != "E" and abs(t1 - w1) < 1e-6)) or abs(t2 - w2) > 1e-6:
                out.append(("lmgeo-branch", f"branch {b}: pathlength/contraction/taper_1/taper_2 = {L}, {c}, {t1}, {t2}; the definitions give {wl}, {wc}, {w1}, {w2}"))
                break
        return out[:3]

    def nontrivial(self, case, res):
        return case["n"] >= 3


REUSE_SHAPES = ["chain", "stem", "star", "caterpillar", "binary", "random", "highdeg"]
REUSE_MODES = ["released", "rebound", "kept", "revisit", "edited"]


def _apply_edit(d, e):
    """the tree description after the in-place edit `e` ({"node", "pid"}: the node hangs under another parent; {"node", "xyz"}: the node moves)"""
    d = dict(d, pids=list(d["pids"]), xyz=[list(p) for p in d["xyz"]])
    if "pid" in e:
        d["pids"][e["node"]] = e["pid"]
    else:
        d["xyz"][e["node"]] = list(e["xyz"])
    return d


def _reuse_stages(case):
    """the tree description each stage of the case measures"""
    if case["mode"] == "edited":
        ds = [case["trees"][0]]
        for e in case["edits"]:
            ds.append(_apply_edit(ds[-1], e))
        return ds
    return [case["trees"][k] for k in case["visit"]]


class LmReuse(Suite):
    """ONE LMeasure analyser asked about MORE THAN ONE tree: a stream of trees each released before / when the next one is built (the batch loop
    `for f in files: t = read(f); lm.f(t)`), of equal or of different sizes; all trees kept alive; trees revisited in turn (A B A B); one tree edited in
    place between the calls (a node hung under another parent / moved, through the public Node setters). Every answer must equal the definition
    evaluated on the tree that is asked about AT THAT MOMENT: the topological functions at every node, path and Euclidean distance at every node."""
    name = "c10.lmreuse"

    def cases(self, rng, tier, widen):
        out = []
        big = tier == "thorough" or widen
        for k in range(60 if big else 25):
            mode = REUSE_MODES[k % len(REUSE_MODES)]
            same = k % 2 == 0
            n0 = rng.randint(3, 40 if big else 14)
            if mode == "edited":
                d = lattice_tree(rng, max(n0, 4), rng.choice(REUSE_SHAPES))
                n, cur, edits = d["n"], d, []
                for _ in range(rng.randint(2, 5)):
                    i = rng.randrange(1, n)
                    if rng.random() < 0.7:
                        sub, grew = {i}, True
                        while grew:
                            grew = False
                            for j, q in enumerate(cur["pids"]):
                                if q in sub and j not in sub:
                                    sub.add(j); grew = True
                        cand = [j for j in range(n) if j not in sub and j != cur["pids"][i]]
                        if not cand:
                            continue
                        e = {"node": i, "pid": rng.choice(cand)}
                    else:
                        e = {"node": i, "xyz": [float(rng.randint(-9, 9)) for _ in range(3)]}
                    edits.append(e); cur = _apply_edit(cur, e)
                out.append({"class": "one-analyser/edited-in-place", "mode": mode, "trees": [d], "visit": [0], "edits": edits})
                continue
            m = rng.randint(2, 4) if mode == "revisit" else rng.randint(4, 10)
            trees = [lattice_tree(rng, n0 if same else rng.randint(2, 40 if big else 14), rng.choice(REUSE_SHAPES)) for _ in range(m)]
            visit = list(range(m)) if mode != "revisit" else [rng.randrange(m) for _ in range(2 * m + 2)]
            out.append({"class": f"one-analyser/{mode}/" + ("same-size" if same else "mixed-size"), "mode": mode, "trees": trees, "visit": visit, "edits": []})
        return out

    @staticmethod
    def _measure(lm, t, n):
        try:
            res = lm_topo_measure(lm, t, n)
            with warnings.catch_warnings(), np.errstate(all="ignore"):
                warnings.simplefilter("ignore")
                res["path_distance"] = [_lg_val(lambda: lm.path_distance(t.node(i))) for i in range(n)]
                res["euc_distance"] = [_lg_val(lambda: lm.euc_distance(t.node(i))) for i in range(n)]
            return res
        except Exception as e:                                             # a finding of this stage; the later stages are still measured
            return {"exc": type(e).__name__, "msg": str(e)[:200]}

    def run(self, case):
        from swcgeom.analysis.lmeasure import LMeasure

        lm = LMeasure()
        mode, out = case["mode"], []
        if mode == "edited":
            d = case["trees"][0]
            t = gen.make_tree(d)
            out.append(self._measure(lm, t, d["n"]))
            for e in case["edits"]:
                nd = t.node(e["node"])
                if "pid" in e:
                    nd.pid = e["pid"]
                else:
                    nd.x, nd.y, nd.z = e["xyz"]
                out.append(self._measure(lm, t, d["n"]))
        elif mode in ("kept", "revisit"):
            ts = [gen.make_tree(d) for d in case["trees"]]
            for k in case["visit"]:
                out.append(self._measure(lm, ts[k], case["trees"][k]["n"]))
        else:
            t = None
            for d in case["trees"]:
                if mode == "released":
                    t = None                                               # the previous tree is gone before the next one exists
                t = gen.make_tree(d)                                       # "rebound": the previous tree goes when the name is bound again
                out.append(self._measure(lm, t, d["n"]))
        return {"stages": out}

    def oracle(self, case, res):
        try:
            return self._oracle(case, res)
        except Exception as e:                                             # a result of an unexpected form is a finding, never a crash
            return [("lm-reuse-malformed", f"result of an unexpected form ({type(e).__name__}: {e}) for {self._say(case, 0)}")]

    @staticmethod
    def _say(case, j):
        if case["mode"] == "edited":
            return f"one LMeasure on a tree edited in place, after edits {case['edits'][:j]} of pids={case['trees'][0]['pids']}"
        return (f"one LMeasure over a stream of trees ({case['mode']}), stage {j} = tree {case['visit'][j]} of sizes "
                f"{[d['n'] for d in case['trees']]}")

    def _oracle(self, case, res):
        if "exc" in res:
            return [("lm-reuse-raises", f"{res['exc']}: {res.get('msg')} for {self._say(case, 0)}")]
        stages = _reuse_stages(case)
        got = res.get("stages")
        if not isinstance(got, list) or len(got) != len(stages):
            return [("lm-reuse-malformed", f"{0 if not isinstance(got, list) else len(got)} answers for {len(stages)} stages ({self._say(case, 0)})")]
        out, topo = [], LmTopo()
        for j, (d, r) in enumerate(zip(stages, got)):
            if not isinstance(r, dict) or "exc" in r:
                out.append(("lm-reuse-raises", f"{r.get('exc') if isinstance(r, dict) else r}: {r.get('msg') if isinstance(r, dict) else ''} for {self._say(case, j)}, "
                                               f"pids={d['pids']}"))
                continue
            out += [(k, f"{m} [{self._say(case, j)}]") for k, m in topo.oracle(d, r)]
            P = np.array(d["xyz"], dtype=np.float64)
            pids, n = d["pids"], d["n"]
            dist = lambda a, b: float(np.linalg.norm(P[a] - P[b]))
            def up(i):
                s = 0.0
                while pids[i] != -1:
                    s += dist(i, pids[i]); i = pids[i]
                return s
            for key, what, want in (("lm-path-distance", "path_distance", [up(i) for i in range(n)]),
                                    ("lm-euc-distance", "euc_distance", [dist(i, 0) for i in range(n)])):
                g = r.get(what)
                if (not isinstance(g, list) or len(g) != n
                        or any(not isinstance(x, (int, float)) or abs(x - w) > 1e-5 * max(1.0, abs(w)) for x, w in zip(g, want))):
                    out.append((key, f"{what} {g}, the definition gives {want} (pids={pids}) [{self._say(case, j)}]"))
            if len(out) >= 3:
                break
        return out[:3]

    def nontrivial(self, case, res):
        return len(case["trees"]) + len(case["edits"]) >= 2

    def klass(self, case, res):
        return case.get("class", "-")


SUITES = [NodeFeat(), Features(), Angles(), Closed(), ShollNear(), Requests(), PopulationRows(), Sampled(), LmTopo(), LmGeo(), LmReuse()]
TECHNIQUE = ("Lean 4 theorems about the feature models (tree length = Σ edge lengths = Σ branch lengths via C08's edge partition; path length = path distance of its tip; "
             "counts, branch order, terminal degree, Sholl straddle count read off their definitions; partition asymmetry REGENERATED from lmeasure.py; zero-padded "
             "population rows) + differential correspondence (exact on integer-edge lattice trees) + an oracle computing every quantity from its definition in float64")
LEVEL_TEXT = ("Kernel-checked for every tree shape with arbitrary non-negative edge lengths: total length is the sum of the parent–child distances and equals the sum of "
              "the branch lengths (each edge lies in exactly one branch, C08); a root-to-tip path's length is the path distance of its tip; branch order counts the "
              "furcations on the root path; the Sholl count is the number of segments whose end radii straddle r; partition asymmetry is |n1−n2|/(n1+n2−2) (0 when equal), "
              "symmetric and within [0,1]; population rows are the per-tree vectors zero-padded to the longest.")
LEVEL_NOTE = "Trusted: Lean kernel; models tied by correspondence on lattice trees; square roots, arccos and float32 summation are outside (tolerance 1e-5)."
