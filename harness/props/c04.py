"""C04 — tree traversal is structural recursion, at any depth."""
import ast
import inspect
import sys
import threading

import numpy as np

from harness import gen
from harness.framework import Suite

PID = "C04"
LEAN_MODS = ["SwcVerif.Props.C04", "SwcVerif.Props.C04Gen"]
TRANSLATE_ALGO = ["AlgoTraverse"]      # Gen/AlgoTraverse.lean is regenerated from swc_utils/base.py::_traverse_dfs on every run
DRIVER_FILES = ["SwcVerif/Model/AlgoRun.lean"]
THEOREMS = [
    "C04.traverse_eq_spec", "C04.fuel_suffices", "C04.outside_untouched",
    "C04.enter_once_per_subtree_node", "C04.leave_once_per_subtree_node",
    "C04.spec_unfold", "C04.specRev_length", "C04.enterOrder_perm", "C04.leaveOrder_perm",
    # refinement: the definition generated from _traverse_dfs on this run IS the structural recursion
    "RefineTrav.traverse_refines", "C04.generated_traverse_eq_spec", "C04.generated_eq_model",
    "C04.generated_enter_once", "C04.generated_leave_once",
]
TRUSTED = ["hand-written model Model/Traverse.lean of _traverse_dfs, tied by the c04.trav correspondence suite"]
ASSUMPTIONS = [
    "CPython dict/list semantics as modelled (params/vals as point-updated functions)",
    "the interpreter's recursion limit itself is observed (10^5 chain run + AST check that _traverse_dfs is not recursive), not proved",
]
M = 1000003


def _callbacks(log):
    def enter(i, pv):
        i = int(i)
        log.append(f"E{i}:{'N' if pv is None else pv}")
        return ((7 if pv is None else pv) * 31 + i) % M

    def leave(i, ks):
        i = int(i)
        log.append(f"L{i}:[{','.join(str(k) for k in ks)}]")
        a = i % M
        for k in ks:
            a = (a * 17 + k) % M
        # the list belongs to the callback: editing it must not leak into any other call
        ks.append(("self", i)); ks.reverse()
        return a

    return enter, leave


def _ref(kids, root):
    """recursive reference traversal (the property read literally; children order free => we
    record per-node facts, not the global order)"""
    facts = {}

    def go(i, pv):
        ev = ((7 if pv is None else pv) * 31 + i) % M
        vals = [go(c, ev) for c in kids.get(i, [])]
        a = i % M
        for k in vals:
            a = (a * 17 + k) % M
        facts[i] = (pv, vals, a)
        return a

    ret = go(root, None)
    return facts, ret


class Trav(Suite):
    name = "c04.trav"

    def cases(self, rng, tier, widen):
        out = []
        reps = 12 if tier == "quick" and not widen else 30
        k = 0
        for n in gen.sizes(tier, widen):
            for _ in range(reps):
                shape = gen.pick_shape(rng, k); k += 1
                pids = gen.parents_sorted(rng, n, shape)
                numbering = rng.choice(["sorted", "root0", "root0"])
                if numbering == "root0":
                    pids = gen.renumber_root0(rng, pids)
                nn = len(pids)
                root = 0 if rng.random() < 0.3 else rng.randrange(nn)
                if root != 0 and rng.random() < 0.75:
                    inner = sorted({p for p in pids if p > 0})          # non-root nodes that have children
                    if inner:
                        root = rng.choice(inner)
                api = rng.choice(["swc_utils", "tree", "node"])
                out.append({"class": f"{shape}/{numbering}/{api}", "n": nn, "pids": pids, "root": root, "api": api})
        # small scope, exhaustively: every tree with the root first on up to 4 (5) nodes, every start node, all three entry points in turn
        kk = 0
        for n in range(1, (6 if tier == "thorough" or widen else 5)):
            for pids in gen.all_root0_trees(n):
                for root in range(n):
                    api = ["swc_utils", "tree", "node"][kk % 3]; kk += 1
                    out.append({"class": f"all-n{n}/{api}", "n": n, "pids": pids, "root": root, "api": api})
        # the tree as it is NOW: traverse, re-parent one node in place through its node handle, traverse again
        for _ in range(8 if tier == "quick" and not widen else 30):
            n = rng.choice([5, 7, 9, 12, 16])
            pre = gen.renumber_root0(rng, gen.parents_sorted(rng, n, gen.pick_shape(rng, rng.randrange(50))))
            nn = len(pre)
            if nn < 3:
                continue
            kids = {}
            for i, p in enumerate(pre):
                kids.setdefault(p, []).append(i)
            i = rng.randrange(1, nn)
            below, todo = {i}, [i]
            while todo:
                for c in kids.get(todo.pop(), []):
                    below.add(c); todo.append(c)
            cand = [q for q in range(nn) if q not in below and q != pre[i]]
            if not cand:
                continue
            q = rng.choice(cand)
            post = list(pre); post[i] = q
            root = rng.choice([0, 0, q, pre[i], i])
            out.append({"class": f"edited/{rng.choice(['tree', 'node'])}", "n": nn, "pids": post, "pre_pids": pre, "edit": [i, q],
                        "root": root, "api": rng.choice(["tree", "node"])})
        # deeply NESTED furcations (a comb: every spine node also carries a tip): depth of the furcation nesting,
        # not only of the chain, must not be bounded by the interpreter's recursion limit
        m = 3000 if tier == "quick" and not widen else 20000
        comb = [-1] + [v for k in range(1, m) for v in (2 * (k - 1), 2 * (k - 1))]
        out.append({"class": "deepcomb/sorted/swc_utils", "n": len(comb), "pids": comb, "root": 0, "api": "swc_utils", "big": True})
        out.append({"class": "deepcomb/sorted/tree", "n": len(comb), "pids": comb, "root": 0, "api": rng.choice(["tree", "node"]), "big": True})
        if tier == "thorough" and not widen:
            out.append({"class": "deepchain/sorted/swc_utils", "n": 100000, "pids": [-1] + list(range(99999)), "root": 0, "api": "swc_utils", "big": True})
            out.append({"class": "deepchain/sorted/tree", "n": 30000, "pids": [-1] + list(range(29999)), "root": 0, "api": "tree", "big": True})
        else:
            out.append({"class": "deepchain/sorted/swc_utils", "n": 20000, "pids": [-1] + list(range(19999)), "root": 0, "api": "swc_utils", "big": True})
        return out

    def run(self, case):
        from swcgeom.core import swc_utils

        n, pids, root, api = case["n"], case["pids"], case["root"], case["api"]
        ids = np.arange(n, dtype=np.int32)
        p = np.array(pids, dtype=np.int32)
        log = []
        enter, leave = _callbacks(log)
        if api == "swc_utils":
            ret = swc_utils.traverse((ids, p), enter=enter, leave=leave, root=root)
        else:
            t = gen.make_tree({"n": n, "pids": case.get("pre_pids", pids), "types": [1] * n, "xyz": [[0, 0, 0]] * n, "r": [1] * n})
            if "pre_pids" in case:
                # use the tree first (traversals, decomposition), then re-parent one node through its handle
                t.traverse(enter=lambda nd, pv: 0, leave=lambda nd, ks: 0)
                t.node(root).traverse(leave=lambda nd, ks: 0)
                t.get_branches(); t.get_tips()
                t.node(case["edit"][0]).pid = case["edit"][1]
                assert t.pid().tolist() == pids
            e2 = lambda nd, pv: enter(nd.id, pv)
            l2 = lambda nd, ks: leave(nd.id, ks)
            nodeobs = {"P": {}, "C": {}}
            if case.get("nodevals", (n + root) % 2 == 0):
                # callbacks whose VALUES carry the node object itself (as the library's own callbacks do: CutShortTipBranch keeps
                # `(dis, n)`, ToImageStack returns `n`): what a later call receives must still be the node the earlier call saw
                def e2(nd, pv):
                    if pv is not None:
                        nodeobs["P"][int(nd.id)] = int(pv[0].id)
                    return (nd, enter(nd.id, None if pv is None else pv[1]))

                def l2(nd, ks):
                    nodeobs["C"][int(nd.id)] = [int(k[0].id) for k in ks]
                    vals = [k[1] for k in ks]
                    out = leave(nd.id, vals)
                    ks.clear()
                    return (nd, out)
            if api == "tree":
                ret = t.traverse(enter=e2, leave=l2, root=root)
            else:
                ret = t.node(root).traverse(enter=e2, leave=l2)
        if isinstance(ret, tuple):
            ret = ret[1]
        if case.get("big"):
            return {"n_log": len(log), "first": log[:2], "last": log[-1], "ret": int(ret)}
        res = {"log": log, "ret": int(ret)}
        if api != "swc_utils":
            res["nodeobs"] = nodeobs
        return res

    def lines(self, case, res):
        if case.get("big") or "exc" in res:
            return []
        n = case["n"]
        line = f"trav ids={gen.ints(range(n))} pids={gen.ints(case['pids'])} root={case['root']}"
        want = " ".join(res["log"]) + f" ret={res['ret']} stack=0"
        # the hand-written step machine AND the definition generated from _traverse_dfs on this run (translator cross-check)
        return [(line, want), ("g" + line, want)]

    def oracle(self, case, res):
        n, pids, root = case["n"], case["pids"], case["root"]
        if "exc" in res:
            key = "recursion-limit" if res["exc"] == "RecursionError" else "traverse-raises"
            return [(key, f"traversal raised {res['exc']}: {res.get('msg')}")]
        if case.get("big"):
            bad = []
            if res["n_log"] != 2 * n:
                bad.append(("call-count", f"{res['n_log']} callback calls on a tree of {n} nodes"))
            return bad
        kids = {}
        for i, p in enumerate(pids):
            kids.setdefault(p, []).append(i)
        facts, ret = _ref(kids, root)
        log = res["log"]
        out = []
        ent = [l for l in log if l[0] == "E"]
        lev = [l for l in log if l[0] == "L"]
        eids = [int(l[1:].split(":")[0]) for l in ent]
        lids = [int(l[1:].split(":")[0]) for l in lev]
        sub = sorted(facts)
        if sorted(eids) != sub:
            out.append(("enter-once", f"enter called on {sorted(eids)}; subtree is {sub}"))
        if sorted(lids) != sub:
            out.append(("leave-once", f"leave called on {sorted(lids)}; subtree is {sub}"))
        pos = {l: k for k, l in enumerate(log)}
        for l in ent:
            i = int(l[1:].split(":")[0]); v = l.split(":")[1]
            if i not in facts:
                continue
            pv = facts[i][0]
            if v != ("N" if pv is None else str(pv)):
                out.append(("enter-value", f"enter({i}) got {v}, parent's enter returned {pv}"))
            if i != root:
                par = pids[i]
                k = next((k for k, x in enumerate(log) if x.startswith(f"E{par}:")), None)
                if k is None or k > pos[l]:
                    out.append(("enter-order", f"enter({i}) before its parent's enter"))
        for l in lev:
            i = int(l[1:].split(":")[0])
            if i not in facts:
                continue
            got = l.split(":", 1)[1]
            exp = "[" + ",".join(str(x) for x in facts[i][1]) + "]"
            if got != exp:
                out.append(("leave-values", f"leave({i}) got {got}, children's values are {exp}"))
            for c in kids.get(i, []):
                k = next((k for k, x in enumerate(log) if x.startswith(f"L{c}:")), None)
                if k is None or k > pos[l]:
                    out.append(("leave-order", f"leave({i}) before child {c}"))
        if res["ret"] != ret:
            out.append(("return-value", f"returned {res['ret']}, start node's value is {ret}"))
        ob = res.get("nodeobs") or {"P": {}, "C": {}}
        for i, p in ob["P"].items():
            if int(p) != pids[int(i)]:
                out.append(("enter-value", f"enter({i}) received its parent's value, a node: it reads as node {p}, the parent's call was on node {pids[int(i)]}")); break
        for i, cs in ob["C"].items():
            if sorted(int(c) for c in cs) != sorted(kids.get(int(i), [])):
                out.append(("leave-values", f"leave({i}) received its children's values, nodes: they read as {cs}, the children are {sorted(kids.get(int(i), []))}")); break
        return out[:3]

    def nontrivial(self, case, res):
        return case["n"] >= 3


class NoRecursion(Suite):
    """depth clause: `_traverse_dfs` must not call itself / `traverse` (AST check on the current source)"""
    name = "c04.ast"

    def cases(self, rng, tier, widen):
        return [{"class": "ast", "fn": "_traverse_dfs"}]

    def run(self, case):
        from swcgeom.core.swc_utils import base

        src = inspect.getsource(base._traverse_dfs)
        tree = ast.parse(src)
        calls = sorted({n.func.id for n in ast.walk(tree) if isinstance(n, ast.Call) and isinstance(n.func, ast.Name)})
        return {"calls": calls}

    def oracle(self, case, res):
        if "exc" in res:
            return [("ast-unreadable", res["msg"])]
        bad = [c for c in res["calls"] if c in ("_traverse_dfs", "traverse")]
        return [("recursive-traversal", f"_traverse_dfs calls {bad}")] if bad else []

    def nontrivial(self, case, res):
        return False


SUITES = [Trav(), NoRecursion()]

TECHNIQUE = ("Lean 4 theorems: _traverse_dfs is TRANSLATED from the current source on every run (harness/translate_algo.py → Gen/AlgoTraverse.lean: children-map loop, "
             "list-as-stack, the two dictionaries) and proved to be structural recursion on Rose for every tree, depth, numbering, start node and stateful callback pair "
             "(RefineTrav.traverse_refines, induction over the tree); the hand-written step machine is proved equal to the same recursion; "
             "+ differential correspondence of both against swc_utils.traverse / Tree.traverse / Node.traverse + call-log oracle")
LEVEL_TEXT = ("Kernel-checked for every tree shape, depth, distinct numbering, start node and (stateful) callback pair: the model of the "
              "traversal loop terminates after exactly 2·|subtree| iterations with the callback state and return value of structural recursion; "
              "enter/leave exactly once per subtree node and never outside. The model is tied to the code by running both on generated trees "
              "(all three public entry points) and by an oracle that checks the property text directly on the implementation's call log.")
LEVEL_NOTE = ("Trusted: Lean kernel; the imperative translator and its semantics library Model/Py.lean (Python list / dict / loop semantics; cross-checked by running the generated "
              "definition against the real function); the Node-wrapping glue of Tree.traverse / Node.traverse is tied by correspondence only; "
              "CPython dict/list semantics; recursion limit observed on 2·10^4–10^5-node chains and by an AST check, not proved.")
