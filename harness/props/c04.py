"""C04 — tree traversal is structural recursion, at any depth."""
import ast
import functools
import inspect
import sys
import threading

import numpy as np

from harness import gen
from harness.framework import Suite

PID = "C04"
LEAN_MODS = ["SwcVerif.Props.C04", "SwcVerif.Props.C04Gen", "SwcVerif.Props.C04Front"]
TRANSLATE_ALGO = ["AlgoTraverse", "AlgoTravFront"]      # (AlgoTravFront: the three public entry points, harness/algo_specs/04_travfront.py)
# Gen/AlgoTraverse.lean is regenerated from swc_utils/base.py::_traverse_dfs on every run
DRIVER_FILES = ["SwcVerif/Model/AlgoRunTraverse.lean", "SwcVerif/Model/AlgoRunTravFront.lean"]
THEOREMS = [
    "C04.traverse_eq_spec", "C04.fuel_suffices", "C04.outside_untouched",
    "C04.enter_once_per_subtree_node", "C04.leave_once_per_subtree_node",
    "C04.spec_unfold", "C04.specRev_length", "C04.enterOrder_perm", "C04.leaveOrder_perm",
    # refinement: the definition generated from _traverse_dfs on this run IS the structural recursion
    "RefineTrav.traverse_refines", "C04.generated_traverse_eq_spec", "C04.generated_eq_model",
    "C04.generated_enter_once", "C04.generated_leave_once",
    # the three public entry points (swc_utils.traverse, Tree.traverse with its `wrap` closures / Tree.__getitem__, Tree.Node.traverse), every keyword
    # set, generated from the current sources (Gen/AlgoTravFront.lean) and proved to be the same structural recursion with the user's callbacks
    "RefineTravFront.tree_getitem_eq", "RefineTravFront.wrapped_enter_eq", "RefineTravFront.wrapped_leave_eq", "RefineTravFront.wrapped_enter_outside",
    "RefineTravFront.traverse_el_r_refines", "RefineTravFront.traverse_e_r_refines", "RefineTravFront.traverse_l_r_refines",
    "RefineTravFront.traverse_el_refines", "RefineTravFront.traverse_e_refines", "RefineTravFront.traverse_l_refines",
    "RefineTravFront.tree_traverse_el_r_refines", "RefineTravFront.tree_traverse_e_r_refines", "RefineTravFront.tree_traverse_l_r_refines",
    "RefineTravFront.tree_traverse_el_refines", "RefineTravFront.tree_traverse_e_refines", "RefineTravFront.tree_traverse_l_refines",
    "RefineTravFront.node_traverse_el_refines", "RefineTravFront.node_traverse_e_refines", "RefineTravFront.node_traverse_l_refines",
    "C04.generated_entry_points_eq_spec", "C04.generated_tree_entry_points_every_tree",
    "C04.generated_entry_points_enter_once", "C04.generated_entry_points_leave_once",
]
TRUSTED = ["hand-written model Model/Traverse.lean of _traverse_dfs, tied by the c04.trav correspondence suite"]
ASSUMPTIONS = [
    "CPython dict/list semantics as modelled (params/vals as point-updated functions)",
    "the interpreter's recursion limit itself is observed (10^5 chain run + AST check that _traverse_dfs is not recursive), not proved",
]
M = 1000003


def _callbacks(log):
    def enter(i, pv):
        i = int(i)
        log.append(f"E{i}:{'N' if pv is None else pv}")
        return ((7 if pv is None else pv) * 31 + i) % M

    def leave(i, ks):
        i = int(i)
        log.append(f"L{i}:[{','.join(str(k) for k in ks)}]")
        a = i % M
        for k in ks:
            a = (a * 17 + k) % M
        # the list belongs to the callback: editing it must not leak into any other call
        ks.append(("self", i)); ks.reverse()
        return a

    return enter, leave


# ---- "all enter/leave callbacks": the same two-argument callback presented as every kind of Python callable that accepts the two
# positional arguments a traversal passes, (node, parent's value) / (node, children's values). What a callback IS (plain function,
# variadic recorder, bound method, callable object, partial, decorated wrapper, ...) must not change what it is called with.
STYLES = ["named", "varargs", "lambda-varargs", "node-rest", "varargs-kwargs", "default", "extra-default", "posonly", "kwargs-tail",
          "method", "method-varargs", "object", "object-varargs", "classmethod", "staticmethod-varargs",
          "partial", "partial-kw", "partial-varargs", "wraps-varargs", "wraps-named", "wraps-twice-varargs"]
# ---- callbacks that are OBJECTS WITH A TRUTH VALUE / LENGTH OF THEIR OWN: a call log that is a list, an accumulator that is a dict
# (both empty, hence falsy, until first called), objects defining __bool__ / __len__ (always falsy, always truthy, or - like an
# array - refusing to be asked). Whether a callback was GIVEN is not a question about its truth value.
TRUTH_STYLES = ["list-log", "dict-acc", "bool-false", "len0", "bool-true", "bool-raises"]
# ---- which of the two callbacks are given, and how the other one is left out
GIVEN = ["both", "enter", "leave", "enter+None", "None+leave"]
# ---- "all start nodes": the same start node, spelled in every way an index comes to hand (`root: int | np.integer`)
ROOT_SPELLINGS = ["int", "omitted", "id-element", "pid-element", "flatnonzero", "argmax", "node.idx", "node.id",
                  "np.int8", "np.uint8", "np.int16", "np.uint16", "np.int32", "np.uint32", "np.int64", "np.uint64", "np.intp"]
# ---- Tree.Node.traverse: the same node, its handle obtained in every way the API hands out nodes
NODE_VIA = ["node(int)", "getitem(int)", "node(np.int32)", "getitem(np.int64)", "iter", "soma", "child-of-parent", "parent-of-child",
            "tips", "seen-in-traversal",
            # ... and the same node addressed FROM THE END / through a slice, as sequences are (`tree[-1]`, `tree[-k:]`, `reversed`)
            "getitem(-k)", "getitem(np.int64(-k))", "getitem(np.int16(-k))", "slice[-k:]", "slice[k:k+1]", "slice[::-1]", "slice[:-k-1:-1]",
            "handle-of-handle.idx"]
_ABSENT = object()


def _nid(x):
    return int(getattr(x, "id", x))


def _styled(fn, style, miscalled, absent):
    """`fn(node, value)` as a callable of kind `style`. Every kind accepts exactly the call `cb(node, value)`; the kinds that would
    also accept another call note it in `miscalled` as [node, number of positional arguments, keyword names] and carry on with
    `absent()` in place of the value that was not passed."""

    def call(*args, **kw):
        if len(args) != 2 or kw:
            miscalled.append([_nid(args[0]) if args else -1, len(args), sorted(kw)])
            if len(args) == 1:
                args = (args[0], absent())
            args = args[:2]
        return fn(*args)

    if style == "named":
        def cb(node, value):
            return call(node, value)
        return cb
    if style == "varargs":
        def cb(*args):
            return call(*args)
        return cb
    if style == "lambda-varargs":
        return lambda *a: call(*a)
    if style == "node-rest":
        def cb(node, *rest):
            return call(node, *rest)
        return cb
    if style == "varargs-kwargs":
        def cb(*args, **kwargs):
            return call(*args, **kwargs)
        return cb
    if style == "default":
        def cb(node, value=_ABSENT):
            return call(node) if value is _ABSENT else call(node, value)
        return cb
    if style == "extra-default":
        def cb(node, value, extra=_ABSENT):
            return call(node, value) if extra is _ABSENT else call(node, value, extra)
        return cb
    if style == "posonly":
        def cb(node, value, /):
            return call(node, value)
        return cb
    if style == "kwargs-tail":
        def cb(node, value, **opts):
            return call(node, value, **opts)
        return cb
    if style in ("method", "method-varargs", "object", "object-varargs", "classmethod", "staticmethod-varargs"):
        class Recorder:
            def on(self, node, value):
                return call(node, value)

            def on_any(self, *args):
                return call(*args)

            @classmethod
            def on_cls(cls, node, value):
                return call(node, value)

            @staticmethod
            def on_static(*args):
                return call(*args)

        class Callable2(Recorder):
            def __call__(self, node, value):
                return call(node, value)

        class CallableAny(Recorder):
            def __call__(self, *args):
                return call(*args)

        return {"method": Recorder().on, "method-varargs": Recorder().on_any, "object": Callable2(), "object-varargs": CallableAny(),
                "classmethod": Recorder.on_cls, "staticmethod-varargs": Recorder.on_static}[style]
    if style in TRUTH_STYLES:
        class ListLog(list):
            def __call__(self, node, value):
                self.append(_nid(node))
                return call(node, value)

        class DictAcc(dict):
            def __call__(self, node, value):
                self[_nid(node)] = self.get(_nid(node), 0) + 1
                return call(node, value)

        class Obj:
            def __call__(self, node, value):
                return call(node, value)

        class BoolFalse(Obj):
            def __bool__(self):
                return False

        class BoolTrue(Obj):
            def __bool__(self):
                return True

        class Len0(Obj):
            def __len__(self):
                return 0

        class BoolRaises(Obj):
            def __bool__(self):
                raise ValueError("the truth value of this callback is ambiguous")

        return {"list-log": ListLog, "dict-acc": DictAcc, "bool-false": BoolFalse, "len0": Len0, "bool-true": BoolTrue,
                "bool-raises": BoolRaises}[style]()
    if style == "partial":
        return functools.partial(lambda tag, node, value: call(node, value), "tag")
    if style == "partial-kw":
        return functools.partial(lambda node, value, scale=0: call(node, value), scale=1)
    if style == "partial-varargs":
        return functools.partial(lambda *a: call(*a[1:]), "tag")
    if style in ("wraps-varargs", "wraps-named", "wraps-twice-varargs"):
        if style == "wraps-named":
            def rec(node, value):
                return call(node, value)
        else:
            def rec(*args):
                return call(*args)

        def deco(f):
            @functools.wraps(f)
            def logged(*a, **k):
                return f(*a, **k)
            return logged

        return deco(deco(rec)) if style == "wraps-twice-varargs" else deco(rec)
    raise ValueError(style)


# ---- "all enter/leave callbacks": what the callbacks RETURN is theirs - the traversal hands the very object on to the next call and
# never looks into it. Values of every kind: arrays (== / != are elementwise, the truth value of the result is ambiguous), pandas
# objects, containers (unhashable ones), falsy things, objects with an == / != / bool() / len() / hash of their own.
VALUE_KINDS = ["int", "ndarray-n", "ndarray-empty", "ndarray-1", "ndarray-2d", "ndarray-bool", "ndarray-object", "np-float-0", "np-int",
               "series", "dataframe", "list", "empty-list", "tuple-2", "tuple-3", "dict", "empty-dict", "set", "str", "bytearray-empty",
               "float-nan", "eq-true", "eq-false", "eq-raises", "eq-array", "bool-raises", "falsy-object", "len0-object", "unhashable-object",
               "exception", "function", "generator", "class"]


def _box(kind, v):
    """a fresh object of kind `kind` (what it carries is looked up by identity, never by comparing it)"""
    if kind.startswith("ndarray-"):
        return {"n": lambda: np.array([v, v + 1, v + 2]), "empty": lambda: np.empty(0), "1": lambda: np.array([v]),
                "2d": lambda: np.full((2, 3), float(v)), "bool": lambda: np.array([True, False, v % 2 == 0]),
                "object": lambda: np.array([None, "a", v], dtype=object)}[kind[8:]]()
    if kind in ("series", "dataframe"):
        import pandas as pd
        return pd.Series([v, v + 1]) if kind == "series" else pd.DataFrame({"a": [v, v + 1], "b": [0.5, 1.5]})
    simple = {"int": lambda: v, "np-float-0": lambda: np.float64(0.0), "np-int": lambda: np.int64(v), "list": lambda: [v, [v]],
              "empty-list": list, "tuple-2": lambda: (str(v), v), "tuple-3": lambda: (v, "x", None), "dict": lambda: {"v": v},
              "empty-dict": dict, "set": lambda: {v}, "str": lambda: "v%d" % v, "bytearray-empty": bytearray,
              "float-nan": lambda: float("nan"), "exception": lambda: ValueError(v), "function": lambda: (lambda: v),
              "generator": lambda: (x for x in [v]), "class": lambda: type("T%d" % v, (), {})}
    if kind in simple:
        return simple[kind]()

    def refuse(*_a):
        raise TypeError(f"a value of kind '{kind}' was asked what only its owner may ask")

    ns = {"eq-true": {"__eq__": lambda s, o: True, "__ne__": lambda s, o: False, "__hash__": lambda s: 0},
          "eq-false": {"__eq__": lambda s, o: False, "__ne__": lambda s, o: True, "__hash__": lambda s: 0},
          "eq-raises": {"__eq__": refuse, "__ne__": refuse, "__hash__": lambda s: 0},
          "eq-array": {"__eq__": lambda s, o: np.array([True, False]), "__ne__": lambda s, o: np.array([False, True]), "__hash__": lambda s: 0},
          "bool-raises": {"__bool__": refuse}, "falsy-object": {"__bool__": lambda s: False}, "len0-object": {"__len__": lambda s: 0},
          "unhashable-object": {"__hash__": None, "__eq__": lambda s, o: s is o}}[kind]
    return type("Value_" + kind.replace("-", "_"), (), dict(ns, __repr__=lambda s: f"<value of kind '{kind}'>"))()


def _boxed(enter, leave, ekind, lkind, foreign):
    """the callbacks `enter` / `leave` (which compute with numbers), returning and receiving objects of kinds `ekind` / `lkind` instead
    ('mixed': the kind changes from node to node). `foreign` collects what was received that no call had returned."""
    reg = {}

    def put(kind, v, i):
        o = _box(VALUE_KINDS[(5 * i + v) % len(VALUE_KINDS)] if kind == "mixed" else kind, v)
        reg.setdefault(id(o), (o, v))             # (ints: the same number is the same value)
        return o

    def get(o, who):
        hit = reg.get(id(o))
        if hit is None or hit[0] is not o:
            foreign.append([who, f"<{type(o).__name__}> {repr(o)[:80]}"])
            return -1
        return hit[1]

    def e(i, pv):
        return put(ekind, enter(i, None if pv is None else get(pv, f"enter({_nid(i)})")), _nid(i))

    def l(i, ks):
        vals = [get(k, f"leave({_nid(i)})") for k in ks]
        out = leave(i, vals)
        ks.clear()                                 # the list belongs to the callback
        return put(lkind, out, _nid(i))

    return e, l, get


def _ref(kids, root):
    """reference traversal (the property read literally, evaluated without recursion: parents before children for `enter`,
    children before parents for `leave`); per-node facts, not the global order"""
    facts = {}
    ev = {root: (None, (7 * 31 + root) % M)}          # node -> (value received, value returned) of enter
    pre, todo = [], [root]
    while todo:
        i = todo.pop()
        pre.append(i)
        for c in kids.get(i, []):
            ev[c] = (ev[i][1], (ev[i][1] * 31 + c) % M)
            todo.append(c)
    lv = {}
    for i in reversed(pre):
        vals = [lv[c] for c in kids.get(i, [])]
        a = i % M
        for k in vals:
            a = (a * 17 + k) % M
        lv[i] = a
        facts[i] = (ev[i][0], vals, a)
    return facts, lv[root]


def _branch_blocks(rng, n):
    """ids as a reconstruction writes them: branch after branch, every branch a block of consecutive ids attached to a random node
    of an earlier branch (siblings end up with ids far apart)"""
    nb = rng.randint(2, 40)
    cuts = [1] + sorted(rng.sample(range(2, n), nb - 1)) + [n]
    p = [-1]
    for a, b in zip(cuts, cuts[1:]):
        p.append(0 if a == 1 else rng.randrange(a))
        p.extend(range(a, b - 1))
    return p


def _large_branched(rng, band, shape, numbering, api):
    """LARGE trees that are not chains. Node ids and parent ids are 32-bit integers; from 46 341 nodes on the product of two of them
    no longer fits 31 bits, from 65 536 on not 32: index arithmetic of a traversal must still find every child of every node."""
    lo, hi = {"2^31": (46341, 65536), "2^32": (80000, 131073), "2^32-low": (65537, 80000)}[band]
    n = rng.randrange(lo, hi)
    pids = _branch_blocks(rng, n) if shape == "blocks" else gen.parents_sorted(rng, n, shape)
    size = [1] * n
    for i in range(n - 1, 0, -1):
        size[pids[i]] += size[i]
    root = 0
    if rng.random() < 0.5:
        root = rng.choice([i for i in range(n) if size[i] * 4 >= n])      # a start node that still has a quarter of the tree below it
    if numbering == "root0":
        perm = list(range(1, n)); rng.shuffle(perm); perm = [0] + perm
        new = [0] * n
        for old, p in enumerate(pids):
            new[perm[old]] = -1 if p == -1 else perm[p]
        pids, root = new, perm[root]
    return {"class": f"large-{band}/{shape}/{numbering}/{api}", "n": n, "pids": pids, "root": root, "api": api, "big": True}


# ---- "any shape, depth up to 10^5" x "all start nodes": DEEP trees traversed from a start node at every relative depth. Trees of
# three size bands (hundreds / thousands / tens of thousands of nodes, sizes drawn log-uniformly) whose depth is of the order of their
# size (a neurite: long, nearly unbranched) next to bushy ones of the same size; the start node near the top, in the middle, near the
# tip of the longest root path, or off it; every numbering; all three entry points. What lies below the start node is then anything
# from a handful of nodes to nearly the whole depth of the tree, while n - |subtree| is anything from 1 to nearly n.
DEEP_SHAPES = ["chain", "chain+twigs", "comb", "spine", "fork", "bush-on-stem", "stem-under-bush"]
START_BANDS = ["child-of-root", "top", "quarter", "middle", "near-tip", "tip", "off-path"]
NUMBERINGS = ["sorted", "root0", "descending"]


def _deep_shape(rng, n, shape):
    """a parent array (pid[i] < i) of n nodes whose depth is a fixed share of n"""
    if shape == "chain+twigs":                      # a long neurite carrying a few short side twigs
        m = max(2, n - rng.randint(1, max(1, n // 20)))
        p = [-1] + list(range(m - 1))
        while len(p) < n:
            at = rng.randrange(m)
            for _ in range(min(rng.randint(1, 3), n - len(p))):
                p.append(at); at = len(p) - 1
        return p
    if shape == "comb":                             # every spine node also carries a tip
        return ([-1] + [v for k in range(1, n // 2 + 1) for v in (2 * (k - 1), 2 * (k - 1))])[:n]
    if shape == "spine":                            # caterpillar whose spine takes most of the nodes
        p, spine = [-1], [0]
        for i in range(1, n):
            if rng.random() < 0.9:
                p.append(spine[-1]); spine.append(i)
            else:
                p.append(spine[rng.randrange(len(spine))])
        return p
    if shape == "fork":                             # a stem that splits into two long neurites
        a = rng.randint(1, max(1, n // 3)); b = a + (n - a) // 2
        return [-1] + [a - 1 if i == b else i - 1 for i in range(1, n)]
    if shape == "bush-on-stem":                     # long unbranched stem, a random bush at its far end
        m = max(1, int(n * rng.uniform(0.5, 0.9)))
        return [-1] + list(range(m - 1)) + [rng.randint(m - 1, i - 1) for i in range(m, n)]
    if shape == "stem-under-bush":                  # a random bush; one long neurite hangs from one of its nodes
        k = max(1, int(n * rng.uniform(0.1, 0.5)))
        p = [-1] + [rng.randint(0, i - 1) for i in range(1, k)]
        return p + [rng.randrange(k)] + list(range(k, n - 1)) if n > k else p
    return gen.parents_sorted(rng, n, shape)        # chain, and the bushy shapes of gen


def _start_depth_case(rng, lo, hi, shape, numbering, band, api):
    n = int(round(lo * (hi / lo) ** rng.random()))
    pids = _deep_shape(rng, n, shape)
    n = len(pids)
    depth = [0] * n
    for i in range(1, n):
        depth[i] = depth[pids[i]] + 1
    tip = max(range(n), key=depth.__getitem__)
    path = [tip]                                    # the longest root path, tip first
    while pids[path[-1]] >= 0:
        path.append(pids[path[-1]])
    path.reverse()
    D = len(path) - 1
    if band == "off-path":
        on = set(path)
        off = [i for i in range(n) if i not in on]
        root = rng.choice(off) if off else path[min(1, D)]
    else:
        d = {"child-of-root": 1, "top": rng.randint(1, max(1, D // 50)), "quarter": rng.randint(D // 8, max(D // 8, D // 3)),
             "middle": rng.randint(D // 3, max(D // 3, 2 * D // 3)), "near-tip": rng.randint(D - min(D, max(1, D // 50)), D),
             "tip": D}[band]
        root = path[min(d, D)]
    if numbering != "sorted":
        perm = list(range(1, n))
        if numbering == "root0":
            rng.shuffle(perm)
        else:                                       # "descending": every child has a smaller id than its parent (but the root, 0)
            perm.reverse()
        perm = [0] + perm
        new = [0] * n
        for old, p in enumerate(pids):
            new[perm[old]] = -1 if p == -1 else perm[p]
        pids, root = new, perm[root]
    mag = f"n~10^{len(str(n)) - 1}"
    return {"class": f"startdepth/{mag}/{shape}/{numbering}/{band}/{api}", "n": n, "pids": pids, "root": root, "api": api,
            "big": n > 400, "depth": D}


def _start_depths(rng, quick):
    """Every start band x every entry point in every size band (quick, largest band: every start band once, the entry points in
    turn); deep shapes, numberings and
    the bushy contrast shapes drawn in turn from shuffled decks, so that every run has each of them several times."""
    out = []
    decks = {}

    def draw(name, items):
        if not decks.get(name):
            decks[name] = list(items); rng.shuffle(decks[name])
        return decks[name].pop()

    apis = ["tree", "node", "swc_utils"]
    bands = [(150, 1500, 1), (1500, 12000, 1), (12000, 60000 if quick else 100000, 3 if quick else 1)]
    for lo, hi, thin in bands:
        for _ in range(1 if quick else 3):
            for band in START_BANDS:
                for api in (apis if thin == 1 else [draw("api", ["tree", "node", "tree", "node", "swc_utils"])]):
                    shape = draw("shape", DEEP_SHAPES) if rng.random() < 0.85 else draw("bushy", ["random", "binary", "caterpillar", "stem"])
                    out.append(_start_depth_case(rng, lo, hi, shape, draw("num", NUMBERINGS), band, api))
    return out


def _small_tree(rng, nmin=1):
    n = max(nmin, rng.choice([1, 2, 3, 4, 6, 9, 14, 25, 60, 100]))
    pids = gen.parents_sorted(rng, n, gen.pick_shape(rng, rng.randrange(len(gen.SHAPES))))
    if len(pids) < nmin:
        pids = gen.parents_sorted(rng, nmin, "random")
    if rng.random() < 0.6:
        pids = gen.renumber_root0(rng, pids)
    return pids


def _families(rng, quick):
    """the input families around the traversal's ARGUMENTS (the trees themselves are small and of every shape / numbering):
    how the start node is spelled, how the node handle was obtained, which callbacks are given, what kind of object they are"""
    out = []

    def case(klass, pids, root, api, **more):
        c = {"class": klass, "n": len(pids), "pids": pids, "root": root, "api": api,
             "esig": rng.choice(STYLES), "lsig": rng.choice(STYLES), "given": "both"}
        c.update(more)
        return c

    # (1) every spelling of the start node, through swc_utils.traverse(root=...) and Tree.traverse(root=...)
    for _ in range(1 if quick else 4):
        for sp in ROOT_SPELLINGS:
            for api in ("tree", "swc_utils"):
                if sp.startswith("node.") and api == "swc_utils":
                    continue
                pids = _small_tree(rng, 2 if sp == "pid-element" else 1)
                nn = len(pids)
                more = {"rootas": sp}
                if sp == "omitted":
                    root = 0
                elif sp == "pid-element":
                    more["child"] = rng.randrange(1, nn)
                    root = pids[more["child"]]
                else:
                    root = rng.randrange(nn)
                given = rng.choice(GIVEN)
                out.append(case(f"rootas/{sp}/{api}", pids, root, api, given=given, **more))
    # (2) every way to a node handle, for Tree.Node.traverse
    for _ in range(2 if quick else 6):
        for via in NODE_VIA:
            pids = _small_tree(rng, 2 if via in ("child-of-parent", "parent-of-child") else 1)
            nn = len(pids)
            more = {"via": via}
            if via == "soma":
                root = 0
            elif via == "child-of-parent":
                root = rng.randrange(1, nn)
            elif via == "parent-of-child":
                more["child"] = rng.randrange(1, nn)
                root = pids[more["child"]]
            elif via == "tips":
                root = rng.choice(sorted(set(range(nn)) - set(pids)))
            else:
                root = rng.randrange(nn)
            out.append(case(f"nodevia/{via}", pids, root, "node", given=rng.choice(GIVEN), **more))
    # (3) which callbacks are given (callables of the ordinary kinds), all three entry points
    for _ in range(2 if quick else 6):
        for given in GIVEN:
            for api in ("swc_utils", "tree", "node"):
                pids = _small_tree(rng)
                out.append(case(f"given/{given}/{api}", pids, rng.randrange(len(pids)), api, given=given))
    # (4) callbacks with a truth value of their own: every kind on either side next to an ordinary one and alone (through
    # swc_utils.traverse, which receives the object itself, every time; the Tree entry points in turn), and pairs of them
    j = 0
    for _ in range(1 if quick else 3):
        for st in TRUTH_STYLES:
            for side in ("enter", "leave"):
                for given, api in (("both", "swc_utils"), (side, "swc_utils"), (("both", side)[j % 2], ("tree", "node")[j // 2 % 2])):
                    j += 1
                    pids = _small_tree(rng)
                    sig = {"esig": st} if side == "enter" else {"lsig": st}
                    out.append(case(f"truth/{st}-as-{side}/{given}/{api}", pids, rng.randrange(len(pids)), api, given=given, **sig))
        for _ in range(6):
            pids = _small_tree(rng)
            a, b = rng.choice(TRUTH_STYLES), rng.choice(TRUTH_STYLES)
            api = rng.choice(["swc_utils", "swc_utils", "tree", "node"])
            out.append(case(f"truth/pair/{api}", pids, rng.randrange(len(pids)), api, esig=a, lsig=b))
    # (5) what the callbacks RETURN: every kind of value as the leave value and as the enter value (the other side plain numbers),
    # all three entry points in turn, start nodes with a subtree of their own where there is one; then kinds mixed within one tree
    apis, j = ("swc_utils", "tree", "node"), rng.randrange(3)

    def inner_root(pids):
        inner = sorted({p for p in pids if p >= 0})
        return rng.choice(inner) if rng.random() < 0.8 else rng.randrange(len(pids))

    for _ in range(1 if quick else 3):
        for vk in VALUE_KINDS[1:]:
            for side in ("lvals", "evals"):
                pids = _small_tree(rng, 3)
                api = apis[j % 3]; j += 1
                given = "both" if rng.random() < 0.6 else ("leave" if side == "lvals" else "enter")
                out.append(case(f"values/{vk}-from-{side[0] == 'l' and 'leave' or 'enter'}/{api}", pids, inner_root(pids), api,
                                given=given, **{side: vk}))
        for _ in range(6):
            pids = _small_tree(rng, 3)
            api = apis[j % 3]; j += 1
            out.append(case(f"values/mixed/{api}", pids, inner_root(pids), api, evals=rng.choice(["mixed", "int"]), lvals="mixed"))
    return out


def _spell_root(sp, case, ids, pids, tree):
    """the start node `case["root"]` as an index of kind `sp` (ids / pids: the tree's own columns)"""
    root = case["root"]
    if sp == "int":
        return root
    if sp == "id-element":                       # `for k in tree.id(): ...`
        return ids[root]
    if sp == "pid-element":                      # walking up: the parent entry of a child
        return pids[case["child"]]
    if sp == "flatnonzero":
        return np.flatnonzero(ids == root)[0]
    if sp == "argmax":
        return np.argmax(ids == root)
    if sp == "node.idx":
        return tree.node(root).idx if case["n"] % 2 else tree[root].idx
    if sp == "node.id":
        return tree[root].id
    if sp.startswith("np."):
        return getattr(np, sp[3:])(root)
    raise ValueError(sp)


def _node_via(t, via, case):
    """a handle of node `case["root"]` of tree `t`, obtained in the way `via`"""
    root = case["root"]
    if via == "node(int)":
        return t.node(root)
    if via == "getitem(int)":
        return t[root]
    if via == "node(np.int32)":
        return t.node(t.id()[root])
    if via == "getitem(np.int64)":
        return t[np.int64(root)]
    if via == "iter":
        return list(t)[root]
    if via == "soma":
        return t.soma()
    if via == "child-of-parent":
        return next(c for c in t.node(case["pids"][root]).children() if int(c.id) == root)
    if via == "parent-of-child":
        return t.node(case["child"]).parent()
    if via == "tips":
        return next(c for c in t.get_tips() if int(c.id) == root)
    n = case["n"]
    if via == "getitem(-k)":
        return t[root - n]
    if via == "getitem(np.int64(-k))":
        return t[np.int64(root - n)]
    if via == "getitem(np.int16(-k))":
        return t[np.int16(root - n)]
    if via == "slice[-k:]":
        return t[root - n:][0]
    if via == "slice[k:k+1]":
        return t[root:root + 1][0]
    if via == "slice[::-1]":
        return t[::-1][n - 1 - root]
    if via == "slice[:-k-1:-1]":
        return t[:root - n - 1:-1][-1]
    if via == "handle-of-handle.idx":                 # the index a handle reports, used to ask for the node again (either spelling)
        return t[t[root - n].idx] if root % 2 else t.node(t[root - n].idx)
    if via == "seen-in-traversal":
        seen = {}
        t.traverse(enter=lambda nd, pv: seen.setdefault(int(nd.id), nd))
        return seen[root]
    raise ValueError(via)


class Trav(Suite):
    name = "c04.trav"

    def cases(self, rng, tier, widen):
        out = []
        reps = 12 if tier == "quick" and not widen else 30
        k = 0
        for n in gen.sizes(tier, widen):
            for _ in range(reps):
                shape = gen.pick_shape(rng, k); k += 1
                pids = gen.parents_sorted(rng, n, shape)
                numbering = rng.choice(["sorted", "root0", "root0"])
                if numbering == "root0":
                    pids = gen.renumber_root0(rng, pids)
                nn = len(pids)
                root = 0 if rng.random() < 0.3 else rng.randrange(nn)
                if root != 0 and rng.random() < 0.75:
                    inner = sorted({p for p in pids if p > 0})          # non-root nodes that have children
                    if inner:
                        root = rng.choice(inner)
                api = rng.choice(["swc_utils", "tree", "node"])
                # every kind of callable in turn, for enter and (independently) for leave: each kind some 6 times per side in the quick tier
                out.append({"class": f"{shape}/{numbering}/{api}", "n": nn, "pids": pids, "root": root, "api": api,
                            "esig": STYLES[k % len(STYLES)], "lsig": STYLES[(5 * k + 2) % len(STYLES)]})
        # small scope, exhaustively: every tree with the root first on up to 4 (5) nodes, every start node, all three entry points in turn
        kk = 0
        for n in range(1, (6 if tier == "thorough" or widen else 5)):
            for pids in gen.all_root0_trees(n):
                for root in range(n):
                    api = ["swc_utils", "tree", "node"][kk % 3]; kk += 1
                    out.append({"class": f"all-n{n}/{api}", "n": n, "pids": pids, "root": root, "api": api,
                                "esig": STYLES[(kk // 3) % len(STYLES)], "lsig": STYLES[(kk // 3 * 8 + 1) % len(STYLES)]})
        # the tree as it is NOW: traverse, re-parent one node in place through its node handle, traverse again
        for _ in range(8 if tier == "quick" and not widen else 30):
            n = rng.choice([5, 7, 9, 12, 16])
            pre = gen.renumber_root0(rng, gen.parents_sorted(rng, n, gen.pick_shape(rng, rng.randrange(50))))
            nn = len(pre)
            if nn < 3:
                continue
            kids = {}
            for i, p in enumerate(pre):
                kids.setdefault(p, []).append(i)
            i = rng.randrange(1, nn)
            below, todo = {i}, [i]
            while todo:
                for c in kids.get(todo.pop(), []):
                    below.add(c); todo.append(c)
            cand = [q for q in range(nn) if q not in below and q != pre[i]]
            if not cand:
                continue
            q = rng.choice(cand)
            post = list(pre); post[i] = q
            root = rng.choice([0, 0, q, pre[i], i])
            out.append({"class": f"edited/{rng.choice(['tree', 'node'])}", "n": nn, "pids": post, "pre_pids": pre, "edit": [i, q],
                        "root": root, "api": rng.choice(["tree", "node"]), "esig": rng.choice(STYLES), "lsig": rng.choice(STYLES)})
        out.extend(_families(rng, tier == "quick" and not widen))
        out.extend(_start_depths(rng, tier == "quick" and not widen))
        # deeply NESTED furcations (a comb: every spine node also carries a tip): depth of the furcation nesting,
        # not only of the chain, must not be bounded by the interpreter's recursion limit
        m = 3000 if tier == "quick" and not widen else 20000
        comb = [-1] + [v for k in range(1, m) for v in (2 * (k - 1), 2 * (k - 1))]
        out.append({"class": "deepcomb/sorted/swc_utils", "n": len(comb), "pids": comb, "root": 0, "api": "swc_utils", "big": True})
        out.append({"class": "deepcomb/sorted/tree", "n": len(comb), "pids": comb, "root": 0, "api": rng.choice(["tree", "node"]), "big": True})
        if tier == "thorough" and not widen:
            out.append({"class": "deepchain/sorted/swc_utils", "n": 100000, "pids": [-1] + list(range(99999)), "root": 0, "api": "swc_utils", "big": True})
            out.append({"class": "deepchain/sorted/tree", "n": 30000, "pids": [-1] + list(range(29999)), "root": 0, "api": "tree", "big": True})
        else:
            out.append({"class": "deepchain/sorted/swc_utils", "n": 20000, "pids": [-1] + list(range(19999)), "root": 0, "api": "swc_utils", "big": True})
        # LARGE branched trees (see _large_branched): beyond 2^16 nodes with siblings far apart in id, and one in the band before it
        scattered = ["random", "caterpillar", "highdeg", "stem"]
        apis = ["swc_utils", "tree", "node"]
        out.append(_large_branched(rng, "2^32", rng.choice(scattered), "sorted", "swc_utils"))
        out.append(_large_branched(rng, "2^32", "blocks", "sorted", rng.choice(apis)))
        out.append(_large_branched(rng, "2^31", rng.choice(scattered + ["blocks"]), rng.choice(["sorted", "root0"]), rng.choice(apis)))
        if tier == "thorough" or widen:
            for band in ("2^32", "2^32-low", "2^31"):
                for shape in scattered + ["blocks", "binary", "star"]:
                    out.append(_large_branched(rng, band, shape, rng.choice(["sorted", "root0"]), rng.choice(apis)))
        return out

    def run(self, case):
        from swcgeom.core import swc_utils

        n, pids, root, api = case["n"], case["pids"], case["root"], case["api"]
        ids = np.arange(n, dtype=np.int32)
        p = np.array(pids, dtype=np.int32)
        log = []
        enter, leave = _callbacks(log)
        foreign, unbox = [], None
        if "evals" in case or "lvals" in case:
            enter, leave, unbox = _boxed(enter, leave, case.get("evals", "int"), case.get("lvals", "int"), foreign)
        miscalled = {"E": [], "L": []}
        as_enter = lambda f: _styled(f, case.get("esig", "named"), miscalled["E"], lambda: None)
        as_leave = lambda f: _styled(f, case.get("lsig", "named"), miscalled["L"], list)
        given = case.get("given", "both")

        def cbs(e, l):
            kw = {}
            if given in ("both", "enter", "enter+None"):
                kw["enter"] = as_enter(e)
            if given in ("both", "leave", "None+leave"):
                kw["leave"] = as_leave(l)
            if given == "enter+None":
                kw["leave"] = None
            if given == "None+leave":
                kw["enter"] = None
            return kw

        sp = case.get("rootas", "int")
        if api == "swc_utils":
            kw = cbs(enter, leave)
            if sp != "omitted":
                kw["root"] = _spell_root(sp, case, ids, p, None)
            ret = swc_utils.traverse((ids, p), **kw)
        else:
            t = gen.make_tree({"n": n, "pids": case.get("pre_pids", pids), "types": [1] * n, "xyz": [[0, 0, 0]] * n, "r": [1] * n})
            if "pre_pids" in case:
                # use the tree first (traversals, decomposition), then re-parent one node through its handle
                t.traverse(enter=lambda nd, pv: 0, leave=lambda nd, ks: 0)
                t.node(root).traverse(leave=lambda nd, ks: 0)
                t.get_branches(); t.get_tips()
                t.node(case["edit"][0]).pid = case["edit"][1]
                assert t.pid().tolist() == pids
            e2 = lambda nd, pv: enter(nd.id, pv)
            l2 = lambda nd, ks: leave(nd.id, ks)
            nodeobs = {"P": {}, "C": {}}
            if case.get("nodevals", (n + root) % 2 == 0 and unbox is None):
                # callbacks whose VALUES carry the node object itself (as the library's own callbacks do: CutShortTipBranch keeps
                # `(dis, n)`, ToImageStack returns `n`): what a later call receives must still be the node the earlier call saw
                def e2(nd, pv):
                    if pv is not None:
                        nodeobs["P"][int(nd.id)] = int(pv[0].id)
                    return (nd, enter(nd.id, None if pv is None else pv[1]))

                def l2(nd, ks):
                    nodeobs["C"][int(nd.id)] = [int(k[0].id) for k in ks]
                    vals = [k[1] for k in ks]
                    out = leave(nd.id, vals)
                    ks.clear()
                    return (nd, out)
            kw = cbs(e2, l2)
            if api == "tree":
                if sp != "omitted":
                    kw["root"] = _spell_root(sp, case, t.id(), t.pid(), t)
                ret = t.traverse(**kw)
            else:
                ret = _node_via(t, case.get("via", "node(int)"), case).traverse(**kw)
        if unbox is not None and ret is not None:
            ret = unbox(ret, "the caller")
        elif isinstance(ret, tuple) and len(ret) == 2:
            ret = ret[1]
        try:
            ret = None if ret is None else int(ret)
        except Exception:  # noqa: BLE001 - not a value of our callbacks: the oracle reports it
            ret = f"<{type(ret).__name__}> {str(ret)[:80]}"
        res = {"log": log, "ret": ret}
        if miscalled["E"] or miscalled["L"]:
            res["miscalled"] = miscalled
        if foreign:
            res["foreign"] = foreign
        if api != "swc_utils":
            res["nodeobs"] = nodeobs
        return res

    def lines(self, case, res):
        if case.get("big") or "exc" in res or case.get("given", "both") != "both" or not isinstance(res.get("ret"), int):
            return self.front_lines(case, res)
        n = case["n"]
        line = f"trav ids={gen.ints(range(n))} pids={gen.ints(case['pids'])} root={case['root']}"
        want = " ".join(res["log"]) + f" ret={res['ret']} stack=0"
        # the hand-written step machine AND the definition generated from _traverse_dfs on this run (translator cross-check)
        return [(line, want), ("g" + line, want)] + self.front_lines(case, res)

    def front_lines(self, case, res):
        """the ENTRY POINT the case went through (swc_utils.traverse / Tree.traverse / Tree.Node.traverse) as generated from the current
        sources (Gen/AlgoTravFront.lean), specialised to the keyword set of the call: which callbacks are given, `root` passed or not"""
        if case.get("big") or "exc" in res or res.get("miscalled") or not (res.get("ret") is None or isinstance(res.get("ret"), int)):
            return []
        given = {"both": "el", "enter": "e", "enter+None": "e", "leave": "l", "None+leave": "l"}[case.get("given", "both")]
        api = {"swc_utils": "base", "tree": "tree", "node": "node"}[case["api"]]
        root = "" if (api != "node" and case.get("rootas", "int") == "omitted") else f" root={case['root']}"
        line = f"gtravfront api={api} given={given} ids={gen.ints(range(case['n']))} pids={gen.ints(case['pids'])}{root}"
        return [(line, " ".join(res["log"]) + f" ret={res['ret']}")]

    def oracle(self, case, res):
        try:
            return self._oracle(case, res)
        except Exception as e:  # noqa: BLE001 - a result the oracle cannot read is not a result of a traversal as the property describes it
            return [("malformed-result", f"the result cannot be judged ({type(e).__name__}: {e}): {str(res)[:300]}")]

    def _oracle(self, case, res):
        n, pids, root = case["n"], case["pids"], case["root"]
        given = case.get("given", "both")
        how = (f"start node {root} given as {case.get('rootas', 'int') if case['api'] != 'node' else 'handle via ' + case.get('via', 'node(int)')}"
               f" to {case['api']}, callbacks given: {given} (enter: '{case.get('esig', 'named')}', leave: '{case.get('lsig', 'named')}')")
        if "evals" in case or "lvals" in case:
            how += f"; the callbacks return values of kind '{case.get('evals', 'int')}' (enter) / '{case.get('lvals', 'int')}' (leave)"
        if not isinstance(res, dict):
            return [("malformed-result", f"no result: {str(res)[:200]}")]
        if "exc" in res:
            key = "recursion-limit" if res["exc"] == "RecursionError" else "traverse-raises"
            return [(key, f"traversal raised {res['exc']}: {res.get('msg')} [{how}]")]
        if not isinstance(res.get("log"), list):
            return [("malformed-result", f"no call log: {str(res)[:200]}")]
        want_e, want_l = given in ("both", "enter", "enter+None"), given in ("both", "leave", "None+leave")
        kids = {}
        for i, p in enumerate(pids):
            kids.setdefault(p, []).append(i)
        facts, ret = _ref(kids, root)
        log = res["log"]
        out = []
        # called with (node, value): a callback that accepts two positional arguments gets two, whatever kind of callable it is
        mis = res.get("miscalled") or {"E": [], "L": []}
        for i, k, kw in mis["E"][:1]:
            out.append(("enter-value", f"enter({i}), a callable of kind '{case.get('esig')}', was called with {k} positional argument(s)"
                                       f"{' and keywords ' + str(kw) if kw else ''} instead of (node, value returned by its parent's call)"
                                       f" [{len(mis['E'])} such calls]"))
        for i, k, kw in mis["L"][:1]:
            out.append(("leave-values", f"leave({i}), a callable of kind '{case.get('lsig')}', was called with {k} positional argument(s)"
                                        f"{' and keywords ' + str(kw) if kw else ''} instead of (node, values returned by its children's calls)"
                                        f" [{len(mis['L'])} such calls]"))
        # the values ARE the objects the calls returned (identity), whatever they are
        for who, what in (res.get("foreign") or [])[:1]:
            out.append(("return-value" if who == "the caller" else "enter-value" if who.startswith("enter") else "leave-values",
                        f"{who} received {what}, an object that no callback call had returned [{how}]"))
        if case.get("big") and len(log) != 2 * len(facts):
            out.append(("call-count", f"{len(log)} callback calls on a subtree of {len(facts)} nodes (tree of {n})"))

        def brief(xs):
            return f"{xs[:12]}{' … (' + str(len(xs)) + ' in all)' if len(xs) > 12 else ''}"

        ent, lev = [], []                       # (position in the log, node, text of the value received)
        for k, l in enumerate(log):
            head, val = l.split(":", 1)
            (ent if head[0] == "E" else lev).append((k, int(head[1:]), val))
        sub = sorted(facts)
        eids = sorted(i for _, i, _ in ent)
        lids = sorted(i for _, i, _ in lev)
        if not want_e and eids:
            out.append(("enter-once", f"enter was not given, yet called on {brief(eids)} [{how}]"))
        if not want_l and lids:
            out.append(("leave-once", f"leave was not given, yet called on {brief(lids)} [{how}]"))
        if want_e and eids != sub:
            if len(sub) > 40:
                se, ss = set(eids), set(sub)
                out.append(("enter-once", f"enter called {len(eids)} times on {len(se)} nodes; the subtree has {len(sub)} nodes; "
                                          f"never entered: {brief(sorted(ss - se))}; outside the subtree: {brief(sorted(se - ss))}"))
            else:
                out.append(("enter-once", f"enter called on {eids}; subtree is {sub} [{how}]"))
        if want_l and lids != sub:
            if len(sub) > 40:
                sl, ss = set(lids), set(sub)
                out.append(("leave-once", f"leave called {len(lids)} times on {len(sl)} nodes; the subtree has {len(sub)} nodes; "
                                          f"never left: {brief(sorted(ss - sl))}; outside the subtree: {brief(sorted(sl - ss))}"))
            else:
                out.append(("leave-once", f"leave called on {lids}; subtree is {sub} [{how}]"))
        first_e, first_l = {}, {}
        for k, i, _ in ent:
            first_e.setdefault(i, k)
        for k, i, _ in lev:
            first_l.setdefault(i, k)
        more = []
        for k, i, v in ent:
            if i not in facts:
                continue
            pv = facts[i][0]
            if v != ("N" if pv is None else str(pv)):
                more.append(("enter-value", f"enter({i}) got {v}, parent's enter returned {pv}"))
            if i != root:
                kp = first_e.get(pids[i])
                if kp is None or kp > k:
                    more.append(("enter-order", f"enter({i}) before its parent's enter"))
            if len(more) > 6:
                break
        for k, i, got in lev:
            if i not in facts:
                continue
            exp = "[" + ",".join(str(x) for x in facts[i][1]) + "]"
            if got != exp:
                more.append(("leave-values", f"leave({i}) got {got[:300]}, children's values are {exp[:300]}"))
            for c in kids.get(i, []):
                kc = first_l.get(c)
                if kc is None or kc > k:
                    more.append(("leave-order", f"leave({i}) before child {c}"))
                    break
            if len(more) > 12:
                break
        out += more
        if want_l and res.get("ret") != ret:          # the start node's value is the value its leave call returned
            out.append(("return-value", f"returned {res.get('ret')}, start node's value is {ret} [{how}]"))
        ob = res.get("nodeobs") or {"P": {}, "C": {}}
        for i, p in ob["P"].items():
            if int(p) != pids[int(i)]:
                out.append(("enter-value", f"enter({i}) received its parent's value, a node: it reads as node {p}, the parent's call was on node {pids[int(i)]}")); break
        for i, cs in ob["C"].items():
            if sorted(int(c) for c in cs) != sorted(kids.get(int(i), [])):
                out.append(("leave-values", f"leave({i}) received its children's values, nodes: they read as {cs}, the children are {sorted(kids.get(int(i), []))}")); break
        return out[:3]

    def nontrivial(self, case, res):
        return case["n"] >= 3


class NoRecursion(Suite):
    """depth clause: `_traverse_dfs` must not call itself / `traverse` (AST check on the current source)"""
    name = "c04.ast"

    def cases(self, rng, tier, widen):
        return [{"class": "ast", "fn": "_traverse_dfs"}]

    def run(self, case):
        from swcgeom.core.swc_utils import base

        src = inspect.getsource(base._traverse_dfs)
        tree = ast.parse(src)
        calls = sorted({n.func.id for n in ast.walk(tree) if isinstance(n, ast.Call) and isinstance(n.func, ast.Name)})
        return {"calls": calls}

    def oracle(self, case, res):
        if "exc" in res:
            return [("ast-unreadable", res["msg"])]
        bad = [c for c in res["calls"] if c in ("_traverse_dfs", "traverse")]
        return [("recursive-traversal", f"_traverse_dfs calls {bad}")] if bad else []

    def nontrivial(self, case, res):
        return False


SUITES = [Trav(), NoRecursion()]

TECHNIQUE = ("Lean 4 theorems: _traverse_dfs is TRANSLATED from the current source on every run (harness/translate_algo.py → Gen/AlgoTraverse.lean: children-map loop, "
             "list-as-stack, the two dictionaries) and proved to be structural recursion on Rose for every tree, depth, numbering, start node and stateful callback pair "
             "(RefineTrav.traverse_refines, induction over the tree); the hand-written step machine is proved equal to the same recursion; "
             "+ differential correspondence of both against swc_utils.traverse / Tree.traverse / Node.traverse + call-log oracle")
LEVEL_TEXT = ("Kernel-checked for every tree shape, depth, distinct numbering, start node and (stateful) callback pair: the model of the "
              "traversal loop terminates after exactly 2·|subtree| iterations with the callback state and return value of structural recursion; "
              "enter/leave exactly once per subtree node and never outside. The model is tied to the code by running both on generated trees "
              "(all three public entry points) and by an oracle that checks the property text directly on the implementation's call log.")
LEVEL_NOTE = ("Trusted: Lean kernel; the imperative translator and its semantics library Model/Py.lean (Python list / dict / loop semantics; cross-checked by running the generated "
              "definition against the real function); the Node-wrapping glue of Tree.traverse / Node.traverse is tied by correspondence only; "
              "CPython dict/list semantics; recursion limit observed on 2·10^4–10^5-node chains and by an AST check, not proved.")
