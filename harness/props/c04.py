"""C04 — tree traversal is structural recursion, at any depth."""
import ast
import functools
import inspect
import sys
import threading

import numpy as np

from harness import gen
from harness.framework import Suite

PID = "C04"
LEAN_MODS = ["SwcVerif.Props.C04", "SwcVerif.Props.C04Gen"]
TRANSLATE_ALGO = ["AlgoTraverse"]      # Gen/AlgoTraverse.lean is regenerated from swc_utils/base.py::_traverse_dfs on every run
DRIVER_FILES = ["SwcVerif/Model/AlgoRunTraverse.lean"]
THEOREMS = [
    "C04.traverse_eq_spec", "C04.fuel_suffices", "C04.outside_untouched",
    "C04.enter_once_per_subtree_node", "C04.leave_once_per_subtree_node",
    "C04.spec_unfold", "C04.specRev_length", "C04.enterOrder_perm", "C04.leaveOrder_perm",
    # refinement: the definition generated from _traverse_dfs on this run IS the structural recursion
    "RefineTrav.traverse_refines", "C04.generated_traverse_eq_spec", "C04.generated_eq_model",
    "C04.generated_enter_once", "C04.generated_leave_once",
]
TRUSTED = ["hand-written model Model/Traverse.lean of _traverse_dfs, tied by the c04.trav correspondence suite"]
ASSUMPTIONS = [
    "CPython dict/list semantics as modelled (params/vals as point-updated functions)",
    "the interpreter's recursion limit itself is observed (10^5 chain run + AST check that _traverse_dfs is not recursive), not proved",
]
M = 1000003


def _callbacks(log):
    def enter(i, pv):
        i = int(i)
        log.append(f"E{i}:{'N' if pv is None else pv}")
        return ((7 if pv is None else pv) * 31 + i) % M

    def leave(i, ks):
        i = int(i)
        log.append(f"L{i}:[{','.join(str(k) for k in ks)}]")
        a = i % M
        for k in ks:
            a = (a * 17 + k) % M
        # the list belongs to the callback: editing it must not leak into any other call
        ks.append(("self", i)); ks.reverse()
        return a

    return enter, leave


# ---- "all enter/leave callbacks": the same two-argument callback presented as every kind of Python callable that accepts the two
# positional arguments a traversal passes, (node, parent's value) / (node, children's values). What a callback IS (plain function,
# variadic recorder, bound method, callable object, partial, decorated wrapper, ...) must not change what it is called with.
STYLES = ["named", "varargs", "lambda-varargs", "node-rest", "varargs-kwargs", "default", "extra-default", "posonly", "kwargs-tail",
          "method", "method-varargs", "object", "object-varargs", "classmethod", "staticmethod-varargs",
          "partial", "partial-kw", "partial-varargs", "wraps-varargs", "wraps-named", "wraps-twice-varargs"]
_ABSENT = object()


def _nid(x):
    return int(getattr(x, "id", x))


def _styled(fn, style, miscalled, absent):
    """`fn(node, value)` as a callable of kind `style`. Every kind accepts exactly the call `cb(node, value)`; the kinds that would
    also accept another call note it in `miscalled` as [node, number of positional arguments, keyword names] and carry on with
    `absent()` in place of the value that was not passed."""

    def call(*args, **kw):
        if len(args) != 2 or kw:
            miscalled.append([_nid(args[0]) if args else -1, len(args), sorted(kw)])
            if len(args) == 1:
                args = (args[0], absent())
            args = args[:2]
        return fn(*args)

    if style == "named":
        def cb(node, value):
            return call(node, value)
        return cb
    if style == "varargs":
        def cb(*args):
            return call(*args)
        return cb
    if style == "lambda-varargs":
        return lambda *a: call(*a)
    if style == "node-rest":
        def cb(node, *rest):
            return call(node, *rest)
        return cb
    if style == "varargs-kwargs":
        def cb(*args, **kwargs):
            return call(*args, **kwargs)
        return cb
    if style == "default":
        def cb(node, value=_ABSENT):
            return call(node) if value is _ABSENT else call(node, value)
        return cb
    if style == "extra-default":
        def cb(node, value, extra=_ABSENT):
            return call(node, value) if extra is _ABSENT else call(node, value, extra)
        return cb
    if style == "posonly":
        def cb(node, value, /):
            return call(node, value)
        return cb
    if style == "kwargs-tail":
        def cb(node, value, **opts):
            return call(node, value, **opts)
        return cb
    if style in ("method", "method-varargs", "object", "object-varargs", "classmethod", "staticmethod-varargs"):
        class Recorder:
            def on(self, node, value):
                return call(node, value)

            def on_any(self, *args):
                return call(*args)

            @classmethod
            def on_cls(cls, node, value):
                return call(node, value)

            @staticmethod
            def on_static(*args):
                return call(*args)

        class Callable2(Recorder):
            def __call__(self, node, value):
                return call(node, value)

        class CallableAny(Recorder):
            def __call__(self, *args):
                return call(*args)

        return {"method": Recorder().on, "method-varargs": Recorder().on_any, "object": Callable2(), "object-varargs": CallableAny(),
                "classmethod": Recorder.on_cls, "staticmethod-varargs": Recorder.on_static}[style]
    if style == "partial":
        return functools.partial(lambda tag, node, value: call(node, value), "tag")
    if style == "partial-kw":
        return functools.partial(lambda node, value, scale=0: call(node, value), scale=1)
    if style == "partial-varargs":
        return functools.partial(lambda *a: call(*a[1:]), "tag")
    if style in ("wraps-varargs", "wraps-named", "wraps-twice-varargs"):
        if style == "wraps-named":
            def rec(node, value):
                return call(node, value)
        else:
            def rec(*args):
                return call(*args)

        def deco(f):
            @functools.wraps(f)
            def logged(*a, **k):
                return f(*a, **k)
            return logged

        return deco(deco(rec)) if style == "wraps-twice-varargs" else deco(rec)
    raise ValueError(style)


def _ref(kids, root):
    """reference traversal (the property read literally, evaluated without recursion: parents before children for `enter`,
    children before parents for `leave`); per-node facts, not the global order"""
    facts = {}
    ev = {root: (None, (7 * 31 + root) % M)}          # node -> (value received, value returned) of enter
    pre, todo = [], [root]
    while todo:
        i = todo.pop()
        pre.append(i)
        for c in kids.get(i, []):
            ev[c] = (ev[i][1], (ev[i][1] * 31 + c) % M)
            todo.append(c)
    lv = {}
    for i in reversed(pre):
        vals = [lv[c] for c in kids.get(i, [])]
        a = i % M
        for k in vals:
            a = (a * 17 + k) % M
        lv[i] = a
        facts[i] = (ev[i][0], vals, a)
    return facts, lv[root]


def _branch_blocks(rng, n):
    """ids as a reconstruction writes them: branch after branch, every branch a block of consecutive ids attached to a random node
    of an earlier branch (siblings end up with ids far apart)"""
    nb = rng.randint(2, 40)
    cuts = [1] + sorted(rng.sample(range(2, n), nb - 1)) + [n]
    p = [-1]
    for a, b in zip(cuts, cuts[1:]):
        p.append(0 if a == 1 else rng.randrange(a))
        p.extend(range(a, b - 1))
    return p


def _large_branched(rng, band, shape, numbering, api):
    """LARGE trees that are not chains. Node ids and parent ids are 32-bit integers; from 46 341 nodes on the product of two of them
    no longer fits 31 bits, from 65 536 on not 32: index arithmetic of a traversal must still find every child of every node."""
    lo, hi = {"2^31": (46341, 65536), "2^32": (80000, 131073), "2^32-low": (65537, 80000)}[band]
    n = rng.randrange(lo, hi)
    pids = _branch_blocks(rng, n) if shape == "blocks" else gen.parents_sorted(rng, n, shape)
    size = [1] * n
    for i in range(n - 1, 0, -1):
        size[pids[i]] += size[i]
    root = 0
    if rng.random() < 0.5:
        root = rng.choice([i for i in range(n) if size[i] * 4 >= n])      # a start node that still has a quarter of the tree below it
    if numbering == "root0":
        perm = list(range(1, n)); rng.shuffle(perm); perm = [0] + perm
        new = [0] * n
        for old, p in enumerate(pids):
            new[perm[old]] = -1 if p == -1 else perm[p]
        pids, root = new, perm[root]
    return {"class": f"large-{band}/{shape}/{numbering}/{api}", "n": n, "pids": pids, "root": root, "api": api, "big": True}


class Trav(Suite):
    name = "c04.trav"

    def cases(self, rng, tier, widen):
        out = []
        reps = 12 if tier == "quick" and not widen else 30
        k = 0
        for n in gen.sizes(tier, widen):
            for _ in range(reps):
                shape = gen.pick_shape(rng, k); k += 1
                pids = gen.parents_sorted(rng, n, shape)
                numbering = rng.choice(["sorted", "root0", "root0"])
                if numbering == "root0":
                    pids = gen.renumber_root0(rng, pids)
                nn = len(pids)
                root = 0 if rng.random() < 0.3 else rng.randrange(nn)
                if root != 0 and rng.random() < 0.75:
                    inner = sorted({p for p in pids if p > 0})          # non-root nodes that have children
                    if inner:
                        root = rng.choice(inner)
                api = rng.choice(["swc_utils", "tree", "node"])
                # every kind of callable in turn, for enter and (independently) for leave: each kind some 6 times per side in the quick tier
                out.append({"class": f"{shape}/{numbering}/{api}", "n": nn, "pids": pids, "root": root, "api": api,
                            "esig": STYLES[k % len(STYLES)], "lsig": STYLES[(5 * k + 2) % len(STYLES)]})
        # small scope, exhaustively: every tree with the root first on up to 4 (5) nodes, every start node, all three entry points in turn
        kk = 0
        for n in range(1, (6 if tier == "thorough" or widen else 5)):
            for pids in gen.all_root0_trees(n):
                for root in range(n):
                    api = ["swc_utils", "tree", "node"][kk % 3]; kk += 1
                    out.append({"class": f"all-n{n}/{api}", "n": n, "pids": pids, "root": root, "api": api,
                                "esig": STYLES[(kk // 3) % len(STYLES)], "lsig": STYLES[(kk // 3 * 8 + 1) % len(STYLES)]})
        # the tree as it is NOW: traverse, re-parent one node in place through its node handle, traverse again
        for _ in range(8 if tier == "quick" and not widen else 30):
            n = rng.choice([5, 7, 9, 12, 16])
            pre = gen.renumber_root0(rng, gen.parents_sorted(rng, n, gen.pick_shape(rng, rng.randrange(50))))
            nn = len(pre)
            if nn < 3:
                continue
            kids = {}
            for i, p in enumerate(pre):
                kids.setdefault(p, []).append(i)
            i = rng.randrange(1, nn)
            below, todo = {i}, [i]
            while todo:
                for c in kids.get(todo.pop(), []):
                    below.add(c); todo.append(c)
            cand = [q for q in range(nn) if q not in below and q != pre[i]]
            if not cand:
                continue
            q = rng.choice(cand)
            post = list(pre); post[i] = q
            root = rng.choice([0, 0, q, pre[i], i])
            out.append({"class": f"edited/{rng.choice(['tree', 'node'])}", "n": nn, "pids": post, "pre_pids": pre, "edit": [i, q],
                        "root": root, "api": rng.choice(["tree", "node"]), "esig": rng.choice(STYLES), "lsig": rng.choice(STYLES)})
        # deeply NESTED furcations (a comb: every spine node also carries a tip): depth of the furcation nesting,
        # not only of the chain, must not be bounded by the interpreter's recursion limit
        m = 3000 if tier == "quick" and not widen else 20000
        comb = [-1] + [v for k in range(1, m) for v in (2 * (k - 1), 2 * (k - 1))]
        out.append({"class": "deepcomb/sorted/swc_utils", "n": len(comb), "pids": comb, "root": 0, "api": "swc_utils", "big": True})
        out.append({"class": "deepcomb/sorted/tree", "n": len(comb), "pids": comb, "root": 0, "api": rng.choice(["tree", "node"]), "big": True})
        if tier == "thorough" and not widen:
            out.append({"class": "deepchain/sorted/swc_utils", "n": 100000, "pids": [-1] + list(range(99999)), "root": 0, "api": "swc_utils", "big": True})
            out.append({"class": "deepchain/sorted/tree", "n": 30000, "pids": [-1] + list(range(29999)), "root": 0, "api": "tree", "big": True})
        else:
            out.append({"class": "deepchain/sorted/swc_utils", "n": 20000, "pids": [-1] + list(range(19999)), "root": 0, "api": "swc_utils", "big": True})
        # LARGE branched trees (see _large_branched): beyond 2^16 nodes with siblings far apart in id, and one in the band before it
        scattered = ["random", "caterpillar", "highdeg", "stem"]
        apis = ["swc_utils", "tree", "node"]
        out.append(_large_branched(rng, "2^32", rng.choice(scattered), "sorted", "swc_utils"))
        out.append(_large_branched(rng, "2^32", "blocks", "sorted", rng.choice(apis)))
        out.append(_large_branched(rng, "2^31", rng.choice(scattered + ["blocks"]), rng.choice(["sorted", "root0"]), rng.choice(apis)))
        if tier == "thorough" or widen:
            for band in ("2^32", "2^32-low", "2^31"):
                for shape in scattered + ["blocks", "binary", "star"]:
                    out.append(_large_branched(rng, band, shape, rng.choice(["sorted", "root0"]), rng.choice(apis)))
        return out

    def run(self, case):
        from swcgeom.core import swc_utils

        n, pids, root, api = case["n"], case["pids"], case["root"], case["api"]
        ids = np.arange(n, dtype=np.int32)
        p = np.array(pids, dtype=np.int32)
        log = []
        enter, leave = _callbacks(log)
        miscalled = {"E": [], "L": []}
        as_enter = lambda f: _styled(f, case.get("esig", "named"), miscalled["E"], lambda: None)
        as_leave = lambda f: _styled(f, case.get("lsig", "named"), miscalled["L"], list)
        if api == "swc_utils":
            ret = swc_utils.traverse((ids, p), enter=as_enter(enter), leave=as_leave(leave), root=root)
        else:
            t = gen.make_tree({"n": n, "pids": case.get("pre_pids", pids), "types": [1] * n, "xyz": [[0, 0, 0]] * n, "r": [1] * n})
            if "pre_pids" in case:
                # use the tree first (traversals, decomposition), then re-parent one node through its handle
                t.traverse(enter=lambda nd, pv: 0, leave=lambda nd, ks: 0)
                t.node(root).traverse(leave=lambda nd, ks: 0)
                t.get_branches(); t.get_tips()
                t.node(case["edit"][0]).pid = case["edit"][1]
                assert t.pid().tolist() == pids
            e2 = lambda nd, pv: enter(nd.id, pv)
            l2 = lambda nd, ks: leave(nd.id, ks)
            nodeobs = {"P": {}, "C": {}}
            if case.get("nodevals", (n + root) % 2 == 0):
                # callbacks whose VALUES carry the node object itself (as the library's own callbacks do: CutShortTipBranch keeps
                # `(dis, n)`, ToImageStack returns `n`): what a later call receives must still be the node the earlier call saw
                def e2(nd, pv):
                    if pv is not None:
                        nodeobs["P"][int(nd.id)] = int(pv[0].id)
                    return (nd, enter(nd.id, None if pv is None else pv[1]))

                def l2(nd, ks):
                    nodeobs["C"][int(nd.id)] = [int(k[0].id) for k in ks]
                    vals = [k[1] for k in ks]
                    out = leave(nd.id, vals)
                    ks.clear()
                    return (nd, out)
            if api == "tree":
                ret = t.traverse(enter=as_enter(e2), leave=as_leave(l2), root=root)
            else:
                ret = t.node(root).traverse(enter=as_enter(e2), leave=as_leave(l2))
        if isinstance(ret, tuple):
            ret = ret[1]
        res = {"log": log, "ret": int(ret)}
        if miscalled["E"] or miscalled["L"]:
            res["miscalled"] = miscalled
        if api != "swc_utils":
            res["nodeobs"] = nodeobs
        return res

    def lines(self, case, res):
        if case.get("big") or "exc" in res:
            return []
        n = case["n"]
        line = f"trav ids={gen.ints(range(n))} pids={gen.ints(case['pids'])} root={case['root']}"
        want = " ".join(res["log"]) + f" ret={res['ret']} stack=0"
        # the hand-written step machine AND the definition generated from _traverse_dfs on this run (translator cross-check)
        return [(line, want), ("g" + line, want)]

    def oracle(self, case, res):
        n, pids, root = case["n"], case["pids"], case["root"]
        if "exc" in res:
            key = "recursion-limit" if res["exc"] == "RecursionError" else "traverse-raises"
            return [(key, f"traversal raised {res['exc']}: {res.get('msg')}")]
        kids = {}
        for i, p in enumerate(pids):
            kids.setdefault(p, []).append(i)
        facts, ret = _ref(kids, root)
        log = res["log"]
        out = []
        # called with (node, value): a callback that accepts two positional arguments gets two, whatever kind of callable it is
        mis = res.get("miscalled") or {"E": [], "L": []}
        for i, k, kw in mis["E"][:1]:
            out.append(("enter-value", f"enter({i}), a callable of kind '{case.get('esig')}', was called with {k} positional argument(s)"
                                       f"{' and keywords ' + str(kw) if kw else ''} instead of (node, value returned by its parent's call)"
                                       f" [{len(mis['E'])} such calls]"))
        for i, k, kw in mis["L"][:1]:
            out.append(("leave-values", f"leave({i}), a callable of kind '{case.get('lsig')}', was called with {k} positional argument(s)"
                                        f"{' and keywords ' + str(kw) if kw else ''} instead of (node, values returned by its children's calls)"
                                        f" [{len(mis['L'])} such calls]"))
        if case.get("big") and len(log) != 2 * len(facts):
            out.append(("call-count", f"{len(log)} callback calls on a subtree of {len(facts)} nodes (tree of {n})"))

        def brief(xs):
            return f"{xs[:12]}{' … (' + str(len(xs)) + ' in all)' if len(xs) > 12 else ''}"

        ent, lev = [], []                       # (position in the log, node, text of the value received)
        for k, l in enumerate(log):
            head, val = l.split(":", 1)
            (ent if head[0] == "E" else lev).append((k, int(head[1:]), val))
        sub = sorted(facts)
        eids = sorted(i for _, i, _ in ent)
        lids = sorted(i for _, i, _ in lev)
        if eids != sub:
            if len(sub) > 40:
                se, ss = set(eids), set(sub)
                out.append(("enter-once", f"enter called {len(eids)} times on {len(se)} nodes; the subtree has {len(sub)} nodes; "
                                          f"never entered: {brief(sorted(ss - se))}; outside the subtree: {brief(sorted(se - ss))}"))
            else:
                out.append(("enter-once", f"enter called on {eids}; subtree is {sub}"))
        if lids != sub:
            if len(sub) > 40:
                sl, ss = set(lids), set(sub)
                out.append(("leave-once", f"leave called {len(lids)} times on {len(sl)} nodes; the subtree has {len(sub)} nodes; "
                                          f"never left: {brief(sorted(ss - sl))}; outside the subtree: {brief(sorted(sl - ss))}"))
            else:
                out.append(("leave-once", f"leave called on {lids}; subtree is {sub}"))
        first_e, first_l = {}, {}
        for k, i, _ in ent:
            first_e.setdefault(i, k)
        for k, i, _ in lev:
            first_l.setdefault(i, k)
        more = []
        for k, i, v in ent:
            if i not in facts:
                continue
            pv = facts[i][0]
            if v != ("N" if pv is None else str(pv)):
                more.append(("enter-value", f"enter({i}) got {v}, parent's enter returned {pv}"))
            if i != root:
                kp = first_e.get(pids[i])
                if kp is None or kp > k:
                    more.append(("enter-order", f"enter({i}) before its parent's enter"))
            if len(more) > 6:
                break
        for k, i, got in lev:
            if i not in facts:
                continue
            exp = "[" + ",".join(str(x) for x in facts[i][1]) + "]"
            if got != exp:
                more.append(("leave-values", f"leave({i}) got {got[:300]}, children's values are {exp[:300]}"))
            for c in kids.get(i, []):
                kc = first_l.get(c)
                if kc is None or kc > k:
                    more.append(("leave-order", f"leave({i}) before child {c}"))
                    break
            if len(more) > 12:
                break
        out += more
        if res["ret"] != ret:
            out.append(("return-value", f"returned {res['ret']}, start node's value is {ret}"))
        ob = res.get("nodeobs") or {"P": {}, "C": {}}
        for i, p in ob["P"].items():
            if int(p) != pids[int(i)]:
                out.append(("enter-value", f"enter({i}) received its parent's value, a node: it reads as node {p}, the parent's call was on node {pids[int(i)]}")); break
        for i, cs in ob["C"].items():
            if sorted(int(c) for c in cs) != sorted(kids.get(int(i), [])):
                out.append(("leave-values", f"leave({i}) received its children's values, nodes: they read as {cs}, the children are {sorted(kids.get(int(i), []))}")); break
        return out[:3]

    def nontrivial(self, case, res):
        return case["n"] >= 3


class NoRecursion(Suite):
    """depth clause: `_traverse_dfs` must not call itself / `traverse` (AST check on the current source)"""
    name = "c04.ast"

    def cases(self, rng, tier, widen):
        return [{"class": "ast", "fn": "_traverse_dfs"}]

    def run(self, case):
        from swcgeom.core.swc_utils import base

        src = inspect.getsource(base._traverse_dfs)
        tree = ast.parse(src)
        calls = sorted({n.func.id for n in ast.walk(tree) if isinstance(n, ast.Call) and isinstance(n.func, ast.Name)})
        return {"calls": calls}

    def oracle(self, case, res):
        if "exc" in res:
            return [("ast-unreadable", res["msg"])]
        bad = [c for c in res["calls"] if c in ("_traverse_dfs", "traverse")]
        return [("recursive-traversal", f"_traverse_dfs calls {bad}")] if bad else []

    def nontrivial(self, case, res):
        return False


SUITES = [Trav(), NoRecursion()]

TECHNIQUE = ("Lean 4 theorems: _traverse_dfs is TRANSLATED from the current source on every run (harness/translate_algo.py → Gen/AlgoTraverse.lean: children-map loop, "
             "list-as-stack, the two dictionaries) and proved to be structural recursion on Rose for every tree, depth, numbering, start node and stateful callback pair "
             "(RefineTrav.traverse_refines, induction over the tree); the hand-written step machine is proved equal to the same recursion; "
             "+ differential correspondence of both against swc_utils.traverse / Tree.traverse / Node.traverse + call-log oracle")
LEVEL_TEXT = ("Kernel-checked for every tree shape, depth, distinct numbering, start node and (stateful) callback pair: the model of the "
              "traversal loop terminates after exactly 2·|subtree| iterations with the callback state and return value of structural recursion; "
              "enter/leave exactly once per subtree node and never outside. The model is tied to the code by running both on generated trees "
              "(all three public entry points) and by an oracle that checks the property text directly on the implementation's call log.")
LEVEL_NOTE = ("Trusted: Lean kernel; the imperative translator and its semantics library Model/Py.lean (Python list / dict / loop semantics; cross-checked by running the generated "
              "definition against the real function); the Node-wrapping glue of Tree.traverse / Node.traverse is tied by correspondence only; "
              "CPython dict/list semantics; recursion limit observed on 2·10^4–10^5-node chains and by an AST check, not proved.")
