"""C13 — closed-form volumes of the primitives equal the true geometric volume."""
import math

import numpy as np

from harness.framework import Suite

PID = "C13"
TRANSLATE = True
LEAN_MODS = ["SwcVerif.Props.C13"]
THEOREMS = [
    "C13.sphere_volume", "C13.cap_volume", "C13.frustum_volume", "C13.frustum_symm",
    "C13.lens_disjoint", "C13.lens_nested", "C13.lens_proper", "C13.lens_volume", "C13.lens_symm",
    "C13.concentric_wide", "C13.concentric_narrow", "C13.concentric_volume", "C13.exitT_on_sphere", "C13.exitT_eq_model", "C13.union_volume",
]
TRUSTED = ["translator harness/translate.py (Gen/VolumeFormulas.lean regenerated from utils/volumetric_object.py on every run; Float cross-check)",
           "disc method: volume of a solid of revolution := π∫ρ² (its equality with Lebesgue volume is assumed, not proved)"]
ASSUMPTIONS = [
    "the line-sphere intersection of calc_concentric_intersect_volume is hand-modelled in the meridian plane (exit parameter t = 2 r1 (r1-r2)/(h²+(r1-r2)²)); tied by correspondence",
    "np.allclose concentricity test and the random unit vector of find_unit_vector_on_plane are outside the model (result independent of it; exercised with several RNG states)",
    "inside the code's eps bands (|r2-r1| < 1e-6, 1 < t <= 1+1e-6) equality holds only up to O(eps)",
]


def _rot(rng):
    """random rotation matrix + offset"""
    a = np.array([rng.gauss(0, 1) for _ in range(3)])
    a /= np.linalg.norm(a)
    th = rng.uniform(-3, 3)
    K = np.array([[0, -a[2], a[1]], [a[2], 0, -a[0]], [-a[1], a[0], 0]])
    R = np.eye(3) + math.sin(th) * K + (1 - math.cos(th)) * K @ K
    return R, np.array([rng.uniform(-20, 20) for _ in range(3)])


def quad_profile(f, a, b, n=200001):
    z = np.linspace(a, b, n)
    y = f(z)
    return float(np.pi * np.trapezoid(y, z)) if hasattr(np, "trapezoid") else float(np.pi * np.trapz(y, z))


def true_volume(kind, a):
    if kind == "sphere":
        (r,) = a
        return quad_profile(lambda z: r * r - z * z, -r, r)
    if kind == "cap":
        r, h = a
        return quad_profile(lambda z: r * r - z * z, r - h, r)
    if kind == "frustum":
        r1, r2, h = a
        return quad_profile(lambda z: (r1 + (r2 - r1) * z / h) ** 2, 0, h)
    if kind in ("lens", "union2"):
        r1, r2, d = a
        lens = quad_profile(lambda z: np.maximum(0, np.minimum(r1 * r1 - z * z, r2 * r2 - (z - d) ** 2)), -r1, r1)
        if kind == "lens":
            return lens
        return 4 / 3 * math.pi * (r1 ** 3 + r2 ** 3) - lens
    if kind in ("concentric", "sfunion"):
        r1, r2, h = a
        top = min(h, r1)
        inter = quad_profile(lambda z: np.minimum(np.maximum(r1 * r1 - z * z, 0), (r1 + (r2 - r1) * z / h) ** 2), 0, top)
        if kind == "concentric":
            return inter
        return 4 / 3 * math.pi * r1 ** 3 + math.pi * h / 3 * (r1 * r1 + r1 * r2 + r2 * r2) - inter
    raise ValueError(kind)


def in_band(kind, a):
    if kind in ("concentric", "sfunion"):
        r1, r2, h = a
        if abs(r2 - r1) < 1e-4 * min(1.0, max(r1, 2e-2)):      # the code's band is absolute: -1e-6 ≤ r2 - r1 < 0
            return True
        t = 2 * r1 * (r1 - r2) / (h * h + (r1 - r2) ** 2)
        return abs(t - 1) < 1e-4
    return False


class Closed(Suite):
    name = "c13.closed"
    case_timeout = 60

    def cases(self, rng, tier, widen):
        out = []
        n = 12 if tier == "quick" and not widen else 80
        g = lambda lo=0.125, hi=8.0: rng.randint(int(lo * 16), int(hi * 16)) / 16

        def add(kind, a, cls):
            # "for every size": the same configuration at several length scales (exact powers of two / ten on dyadic inputs)
            sc = rng.choice([1.0, 1.0, 1.0, 1e-3, 1 / 64, 128.0, 1e-2])
            out.append({"class": f"{kind}/{cls}" + ("" if sc == 1.0 else "/scaled"), "kind": kind, "a": [float(x) * sc for x in a], "seed": rng.randrange(10**6),
                        "flip": rng.random() < 0.5, "scale": sc})

        for _ in range(n):
            add("sphere", [g()], "-")
            r = g(); add("cap", [r, rng.choice([0.0, r, 2 * r, rng.uniform(0, 2 * r)])], "-")
            add("frustum", [g(), g(), g()], "-")
            for kind in ("lens", "union2"):
                r1, r2 = g(), g()
                add(kind, [r1, r2, r1 + r2 + g()], "disjoint")
                add(kind, [r1, r2, r1 + r2], "tangent-out")
                add(kind, [r1, r2, abs(r1 - r2)], "tangent-in")
                add(kind, [r1, r2, abs(r1 - r2) * rng.random()], "nested")
                add(kind, [r1, r2, 0.0], "concentric")
                add(kind, [r1, r2, rng.uniform(abs(r1 - r2), r1 + r2)], "proper")
                add(kind, [r1, r1, rng.uniform(0, 2 * r1)], "equal-radii")
            for kind in ("concentric", "sfunion"):
                r1 = g()
                add(kind, [r1, r1 + g(), r1 + g()], "wide-high")
                add(kind, [r1, r1 + g(), r1 * rng.uniform(0.05, 0.99)], "wide-low")
                add(kind, [r1, r1, g()], "cylinder")
                r2 = r1 * rng.uniform(0.05, 0.95)
                add(kind, [r1, r2, r1 + g()], "narrow-high")
                add(kind, [r1, r2, r1 * rng.uniform(0.3, 0.99)], "narrow-low")
                # frustum completely inside the sphere: h² + r2² < r1²
                r2s = r1 * rng.uniform(0.05, 0.6)
                hs = math.sqrt(max(r1 * r1 - r2s * r2s, 0)) * rng.uniform(0.1, 0.9)
                add(kind, [r1, r2s, hs], "inside")
                add(kind, [r1, r2, r1], "h-eq-r1")
        return out

    def run(self, case):
        from swcgeom.utils import VolFrustumCone, VolSphere

        import random as _r

        rng = _r.Random(case["seed"])
        np.random.seed(case["seed"] % (2**31))
        kind, a = case["kind"], case["a"]
        R, off = _rot(rng)
        P = lambda z: (R @ np.array([0.0, 0.0, z]) + off)
        if kind == "sphere":
            v = VolSphere(P(0), a[0]).get_volume()
        elif kind == "cap":
            v = VolSphere(P(0), a[0]).get_volume_spherical_cap(a[1])
        elif kind == "frustum":
            v = VolFrustumCone(P(0), a[0], P(a[2]), a[1]).get_volume()
        elif kind in ("lens", "union2"):
            s1, s2 = VolSphere(P(0), a[0]), VolSphere(P(a[2]), a[1])
            if case["flip"]:
                s1, s2 = s2, s1
            v = (s1.intersect(s2) if kind == "lens" else s1.union(s2)).get_volume()
        else:
            r1, r2, h = a
            s = VolSphere(P(0), r1)
            f = VolFrustumCone(P(h), r2, P(0), r1) if case["flip"] else VolFrustumCone(P(0), r1, P(h), r2)
            if case["seed"] % 3 == 0 and kind == "sfunion":
                # either solid may be the receiver of the closed-form UNION (frustum.intersect(sphere) is the sampling path: outside)
                v = f.union(s).get_volume()
            else:
                v = (s.intersect(f) if kind == "concentric" else s.union(f)).get_volume()
        return {"v": float(v)}

    def lines(self, case, res):
        if "exc" in res:
            return []
        kind, a = case["kind"], case["a"]
        exact = kind in ("sphere", "cap", "frustum", "lens", "union2")
        # spheres are placed by a float rotation, so d / h are recovered up to rounding
        return [(f"vol f={kind} a={','.join(repr(x) for x in a)}",
                 {"approx": [res["v"]], "rtol": 1e-7 if exact else 2e-6, "atol": (1e-7 if exact else 2e-6) * min(1.0, case.get("scale", 1.0)) ** 3})]

    def oracle(self, case, res):
        kind, a = case["kind"], case["a"]
        if "exc" in res:
            return [(f"{kind}-raises", f"{kind}{a} raised {res['exc']}: {res.get('msg')}")]
        tv = true_volume(kind, a)
        sc = case.get("scale", 1.0)
        unit = max(1.0, abs(tv)) if sc == 1.0 else abs(tv) + 1e-9 * sc ** 3      # relative at every length scale
        tol = 1e-4 * unit if not in_band(kind, a) else max(1e-2, 5e-6 / max(a[0], 1e-300)) * unit
        if abs(res["v"] - tv) > tol:
            return [(f"{kind}-volume/{case['class'].split('/')[1]}", f"{kind}{a}: reported {res['v']!r}, true volume (quadrature of the profile) {tv!r}")]
        return []

    def nontrivial(self, case, res):
        return case["kind"] not in ("sphere",)


SUITES = [Closed()]
TECHNIQUE = "Lean 4 theorems over ℝ (interval integrals of the radius profile, disc method) about the volume formulas REGENERATED from the Python source on every run + Float cross-check of the generated terms + numerical quadrature oracle"
LEVEL_TEXT = ("Kernel-checked over ℝ for all radii, heights and distances: the generated closed forms equal π∫ρ² of the solid's profile "
              "(sphere, cap, frustum, two-sphere lens in disjoint/nested/tangent/proper cases, sphere∩frustum in the code's cases, unions by "
              "inclusion–exclusion). Editing a coefficient, a sign or a case boundary in the Python changes the generated Lean and breaks a named theorem.")
LEVEL_NOTE = ("Trusted: Lean kernel + Mathlib; translator; disc method = Lebesgue volume (assumed); the meridian-plane model of the line–sphere "
              "intersection (tied by correspondence on random orientations); eps bands only approximately; floating point outside the theorems.")


