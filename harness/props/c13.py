"""C13 — closed-form volumes of the primitives equal the true geometric volume."""
import math

import numpy as np

from harness.framework import Suite

PID = "C13"
TRANSLATE = True
TRANSLATE_ALGO = ["AlgoVolCtl"]
LEAN_MODS = ["SwcVerif.Props.C13", "SwcVerif.Refine.VolCtl"]
THEOREMS = [
    "C13.sphere_volume", "C13.cap_volume", "C13.frustum_volume", "C13.frustum_symm",
    "C13.lens_disjoint", "C13.lens_nested", "C13.lens_proper", "C13.lens_volume", "C13.lens_symm",
    "C13.concentric_wide", "C13.concentric_narrow", "C13.concentric_volume", "C13.exitT_on_sphere", "C13.exitT_eq_model", "C13.union_volume",
    "RefineVolCtl.sphere_volume_gen", "RefineVolCtl.generated_sphere2_cases", "RefineVolCtl.generated_sphere2_true_volume",
]
TRUSTED = ["translator harness/translate.py (Gen/VolumeFormulas.lean regenerated from utils/volumetric_object.py on every run; Float cross-check)",
           "disc method: volume of a solid of revolution := π∫ρ² (its equality with Lebesgue volume is assumed, not proved)"]
ASSUMPTIONS = [
    "the line-sphere intersection of calc_concentric_intersect_volume is hand-modelled in the meridian plane (exit parameter t = 2 r1 (r1-r2)/(h²+(r1-r2)²)); tied by correspondence",
    "np.allclose concentricity test and the random unit vector of find_unit_vector_on_plane are outside the model (result independent of it; exercised with several RNG states)",
    "inside the code's eps bands (|r2-r1| < 1e-6, 1 < t <= 1+1e-6) equality holds only up to O(eps)",
]


def _rot(rng):
    """random rotation matrix + offset"""
    a = np.array([rng.gauss(0, 1) for _ in range(3)])
    a /= np.linalg.norm(a)
    th = rng.uniform(-3, 3)
    K = np.array([[0, -a[2], a[1]], [a[2], 0, -a[0]], [-a[1], a[0], 0]])
    R = np.eye(3) + math.sin(th) * K + (1 - math.cos(th)) * K @ K
    return R, np.array([rng.uniform(-20, 20) for _ in range(3)])


def quad_profile(f, a, b, n=200001):
    z = np.linspace(a, b, n)
    y = f(z)
    return float(np.pi * np.trapezoid(y, z)) if hasattr(np, "trapezoid") else float(np.pi * np.trapz(y, z))


def true_volume(kind, a):
    if kind == "sphere":
        (r,) = a
        return quad_profile(lambda z: r * r - z * z, -r, r)
    if kind == "cap":
        r, h = a
        return quad_profile(lambda z: r * r - z * z, r - h, r)
    if kind == "frustum":
        r1, r2, h = a
        return quad_profile(lambda z: (r1 + (r2 - r1) * z / h) ** 2, 0, h)
    if kind in ("lens", "union2"):
        r1, r2, d = a
        lo, hi = max(-r1, d - r2), min(r1, d + r2)          # the overlap along the axis (resolves lenses of any thinness)
        lens = quad_profile(lambda z: np.maximum(0, np.minimum(r1 * r1 - z * z, r2 * r2 - (z - d) ** 2)), lo, hi) if lo < hi else 0.0
        if kind == "lens":
            return lens
        return 4 / 3 * math.pi * (r1 ** 3 + r2 ** 3) - lens
    if kind in ("concentric", "sfunion"):
        r1, r2, h = a
        top = min(h, r1)
        inter = quad_profile(lambda z: np.minimum(np.maximum(r1 * r1 - z * z, 0), (r1 + (r2 - r1) * z / h) ** 2), 0, top)
        if kind == "concentric":
            return inter
        return 4 / 3 * math.pi * r1 ** 3 + math.pi * h / 3 * (r1 * r1 + r1 * r2 + r2 * r2) - inter
    raise ValueError(kind)


def in_band(kind, a):
    if kind in ("concentric", "sfunion"):
        r1, r2, h = a
        if abs(r2 - r1) < 1e-4 * min(1.0, max(r1, 2e-2)):      # the code's band is absolute: -1e-6 ≤ r2 - r1 < 0
            return True
        t = 2 * r1 * (r1 - r2) / (h * h + (r1 - r2) ** 2)
        return abs(t - 1) < 1e-4
    return False


def _tolerance(kind, a, tv, sc):
    """how far a reported volume may be from the quadrature `tv` of the profile: relative at every length scale, O(eps) in the eps bands"""
    unit = max(1.0, abs(tv)) if sc == 1.0 else abs(tv) + 1e-9 * sc ** 3
    return 1e-4 * unit if not in_band(kind, a) else max(1e-2, 5e-6 / max(a[0], 1e-300)) * unit


# "for every size": length units other than the micrometre. The sphere / cap / frustum / two-sphere closed forms of the library are
# homogeneous polynomials of the lengths (no absolute tolerance), so they are judged at every unit. The sphere-frustum forms carry the
# library's absolute eps = 1e-6 bands (DESIGN §8: excluded from the claim in absolute terms), so they are NOT asked at these units.
SMALL_UNITS = [1e-5, 1e-6, 1e-7, 1e-8, 1e-9]
SMALL_KINDS = ("sphere", "cap", "frustum", "lens", "union2")
# "all orientations / everywhere in space": distance of the solids from the origin in units of their own size. Volumes are
# translation invariant, so the closed forms (which derive d and h from the stored centres) must not depend on it. 1e5 is a
# whole-brain coordinate in micrometres next to a radius of 1; in float64 it costs ~1e-11 of relative accuracy.
FAR = [2.0 ** 14, 2.0 ** 16, 1e5, 2.0 ** 18]
# how the caller hands a centre over ...
HANDOVER = ["tuple", "list", "f64", "row", "strided", "f32"]
# ... and what the caller does with ITS OWN object after the solid has been constructed, before the (lazy) volume query:
#   buffer    one coordinate buffer per argument position, refilled for every solid and again for the "next node" afterwards
#   overwrite every array handed over is overwritten in place with unrelated coordinates
#   requery   volume asked, arrays overwritten, volume asked again (same composite, and the same solids combined anew)
THEN = ["none", "buffer", "overwrite", "requery"]
COMPOSITE = ("frustum", "lens", "union2", "concentric", "sfunion")       # kinds whose closed form reads a centre
# "all orientations in space": a random rotation never produces the orientations that traced data is full of — an axis EXACTLY along a
# direction of the coordinate lattice (reconstructions on a voxel grid: consecutive nodes are voxel neighbours). Such unit vectors have
# zero, equal or opposite components. The 26 directions to a neighbouring voxel are enumerated (6 face, 12 edge, 8 corner neighbours),
# further small-integer directions are drawn.
NEIGHBOURS = [(i, j, k) for i in (-1, 0, 1) for j in (-1, 0, 1) for k in (-1, 0, 1) if (i, j, k) != (0, 0, 0)]
ORIENT = {1: "face", 2: "edge", 3: "corner"}
# where the first end sits: at the origin, on the lattice diagonal, anywhere on the lattice
BASES = ["origin", "diagonal", "lattice"]


def _lens_class(a):
    r1, r2, d = a
    if d == 0:
        return "concentric"
    if d > r1 + r2:
        return "disjoint"
    if d == r1 + r2:
        return "tangent-out"
    if d == abs(r1 - r2):
        return "tangent-in"
    if d < abs(r1 - r2):
        return "nested"
    return "equal-radii" if r1 == r2 else "proper"


def _carrier(how, rng):
    """an object of the given kind, owned by the caller, that can hold one centre"""
    if how == "f64":
        return np.empty(3, dtype=np.float64)
    if how == "row":                                   # a row of a (n, 3) coordinate table: contiguous view with a base
        return np.zeros((4, 3), dtype=np.float64)[rng.randrange(4)]
    if how == "strided":                               # a column of a (3, n) table: non-contiguous view
        return np.zeros((3, 5), dtype=np.float64)[:, rng.randrange(5)]
    if how == "f32":
        return np.empty(3, dtype=np.float32)
    if how == "list":
        return [0.0, 0.0, 0.0]
    raise ValueError(how)


def _dist(p, q):
    return math.sqrt(math.fsum((float(x) - float(y)) ** 2 for x, y in zip(p, q)))


class Closed(Suite):
    name = "c13.closed"
    case_timeout = 60

    def cases(self, rng, tier, widen):
        out = []
        n = 12 if tier == "quick" and not widen else 80
        g = lambda lo=0.125, hi=8.0: rng.randint(int(lo * 16), int(hi * 16)) / 16

        def add(kind, a, cls, **extra):
            # "for every size": the same configuration at several length scales (exact powers of two / ten on dyadic inputs)
            sc = rng.choice([1.0, 1.0, 1.0, 1e-3, 1 / 64, 128.0, 1e-2])
            if extra.get("unit") is not None:
                sc = extra["unit"]
            fam = extra.get("family")
            for key in ("step", "base"):                 # lengths of the lattice placement scale with the configuration
                if extra.get(key) is not None:
                    extra[key] = [float(x) * sc for x in extra[key]] if isinstance(extra[key], list) else float(extra[key]) * sc
            out.append({"class": f"{kind}/{cls}" + ("" if sc == 1.0 else "/scaled") + (f"/{fam}" if fam else ""), "kind": kind,
                        "a": [float(x) * sc for x in a], "seed": rng.randrange(10**6), "flip": rng.random() < 0.5, "scale": sc, **extra})

        def pick(kind, taper=None):
            """one configuration of the kind, over the same classes as the main loop (taper: "in" / "out" = far end narrower / not narrower)"""
            if kind == "frustum":
                return [g(), g(), g()], "-"
            if kind in ("lens", "union2"):
                r1, r2 = g(), g()
                return rng.choice([
                    ([r1, r2, r1 + r2 + g()], "disjoint"), ([r1, r2, r1 + r2], "tangent-out"), ([r1, r2, abs(r1 - r2)], "tangent-in"),
                    ([r1, r2, abs(r1 - r2) * rng.random()], "nested"), ([r1, r2, 0.0], "concentric"),
                    ([r1, r2, rng.uniform(abs(r1 - r2), r1 + r2)], "proper"), ([r1, r2, rng.uniform(abs(r1 - r2), r1 + r2)], "proper"),
                    ([r1, r1, rng.uniform(0, 2 * r1)], "equal-radii")])
            r1 = g()
            r2 = r1 * rng.uniform(0.05, 0.95)
            r2s = r1 * rng.uniform(0.05, 0.6)
            hs = math.sqrt(max(r1 * r1 - r2s * r2s, 0)) * rng.uniform(0.1, 0.9)
            opts = [
                ([r1, r1 + g(), r1 + g()], "wide-high"), ([r1, r1 + g(), r1 * rng.uniform(0.05, 0.99)], "wide-low"), ([r1, r1, g()], "cylinder"),
                ([r1, r2, r1 + g()], "narrow-high"), ([r1, r2, r1 * rng.uniform(0.3, 0.99)], "narrow-low"), ([r1, r2s, hs], "inside"),
                ([r1, r2, r1], "h-eq-r1")]
            if taper is not None:
                opts = [o for o in opts if (o[0][1] < o[0][0]) == (taper == "in")]
            return rng.choice(opts)

        for _ in range(n):
            add("sphere", [g()], "-")
            r = g(); add("cap", [r, rng.choice([0.0, r, 2 * r, rng.uniform(0, 2 * r)])], "-")
            add("frustum", [g(), g(), g()], "-")
            for kind in ("lens", "union2"):
                r1, r2 = g(), g()
                add(kind, [r1, r2, r1 + r2 + g()], "disjoint")
                add(kind, [r1, r2, r1 + r2], "tangent-out")
                add(kind, [r1, r2, abs(r1 - r2)], "tangent-in")
                add(kind, [r1, r2, abs(r1 - r2) * rng.random()], "nested")
                add(kind, [r1, r2, 0.0], "concentric")
                add(kind, [r1, r2, rng.uniform(abs(r1 - r2), r1 + r2)], "proper")
                add(kind, [r1, r1, rng.uniform(0, 2 * r1)], "equal-radii")
            for kind in ("concentric", "sfunion"):
                r1 = g()
                add(kind, [r1, r1 + g(), r1 + g()], "wide-high")
                add(kind, [r1, r1 + g(), r1 * rng.uniform(0.05, 0.99)], "wide-low")
                add(kind, [r1, r1, g()], "cylinder")
                r2 = r1 * rng.uniform(0.05, 0.95)
                add(kind, [r1, r2, r1 + g()], "narrow-high")
                add(kind, [r1, r2, r1 * rng.uniform(0.3, 0.99)], "narrow-low")
                # frustum completely inside the sphere: h² + r2² < r1²
                r2s = r1 * rng.uniform(0.05, 0.6)
                hs = math.sqrt(max(r1 * r1 - r2s * r2s, 0)) * rng.uniform(0.1, 0.9)
                add(kind, [r1, r2s, hs], "inside")
                add(kind, [r1, r2, r1], "h-eq-r1")
        # --- position in space: the same configurations far from the origin relative to their size (every kind, every round)
        for _ in range(n):
            for kind in COMPOSITE:
                a, cls = pick(kind)
                add(kind, a, cls, family="far", far=rng.choice(FAR))
        # --- the solid is the one that was constructed: container / dtype of the centre argument, and what the caller does with
        #     its own arrays afterwards (buffer reuse, overwriting, asking twice)
        for i in range(n):
            for kind in COMPOSITE:
                a, cls = pick(kind)
                how = rng.choice(HANDOVER)
                add(kind, a, cls, family="handover", hand=how, then="none" if how == "tuple" else rng.choice(THEN))
            # guaranteed share: caller-owned float64 arrays that are written to after construction, each kind in turn
            kind = COMPOSITE[i % len(COMPOSITE)]
            a, cls = pick(kind)
            add(kind, a, cls, family="handover", hand=rng.choice(["f64", "row", "strided"]), then=rng.choice(["buffer", "overwrite"]))
        # --- "for every size": the unit of length is the caller's. The same configurations in a unit in which radii are of order
        #     10^-5 … 10^-9 (SI metres, millimetres of a sub-micron reconstruction); the whole scene is scaled, its position included.
        #     Only the kinds whose closed form is a pure polynomial of the lengths in the unchanged library (SMALL_KINDS).
        for i in range(n):
            for kind in ("lens", "union2", SMALL_KINDS[i % 3]):
                if kind == "sphere":
                    a, cls = [g()], "-"
                elif kind == "cap":
                    r = g(); a, cls = [r, rng.choice([0.0, r, 2 * r, rng.uniform(0, 2 * r)])], "-"
                else:
                    a, cls = pick(kind)
                add(kind, a, cls, family="small-units", unit=rng.choice(SMALL_UNITS))
        # --- orientation in space: the axis (frustum axis / line of centres) exactly along a lattice direction
        def lattice(kind, u, orient, taper=None):
            a, cls = pick(kind, taper)
            L = math.sqrt(sum(x * x for x in u))
            base = {"origin": [0, 0, 0], "diagonal": [rng.randint(-20, 20)] * 3, "lattice": [rng.randint(-20, 20) for _ in range(3)]}[rng.choice(BASES)]
            if rng.random() < 0.5:
                # both ends on lattice points (spacing 1/16): the length becomes a multiple of |u|, the class is the one that results
                m = round(a[2] / L * 16) / 16
                if m == 0 and a[2] > 0:
                    m = 1 / 16
                a = [a[0], a[1], m * L]
                cls = "-" if kind == "frustum" else _lens_class(a) if kind in ("lens", "union2") else _classify(a)
                ends = "on-lattice"
            else:
                m, ends = a[2] / L, "free-length"          # first end on the lattice, the configuration's own length along u
            add(kind, a, cls, family=f"lattice-{orient}", axis=list(u), step=m, base=base, ends=ends)

        # guaranteed share: every voxel-neighbour direction x every kind, the sphere / frustum kinds in both taper directions
        for u in NEIGHBOURS:
            orient = ORIENT[sum(abs(x) for x in u)]
            for kind in COMPOSITE:
                for taper in (("in", "out") if kind in ("concentric", "sfunion") else (None,)):
                    lattice(kind, u, orient, taper)
        for _ in range(n):
            for kind in COMPOSITE:
                while True:
                    u = tuple(rng.randint(-4, 4) for _ in range(3))
                    if sum(abs(x) for x in u) > 0:
                        break
                lattice(kind, u, "general")
        return out

    def run(self, case):
        from swcgeom.utils import VolFrustumCone, VolSphere

        import random as _r

        rng = _r.Random(case["seed"])
        np.random.seed(case["seed"] % (2**31))
        kind, a = case["kind"], case["a"]
        R, off = _rot(rng)
        size = max(max(a), 1e-300)
        if case.get("unit"):
            off = off * case["unit"]                    # the scene is in the caller's unit: its position scales with it
        if case.get("far"):
            u = np.array([rng.gauss(0, 1) for _ in range(3)])
            off = u / np.linalg.norm(u) * case["far"] * size
        P = lambda z: (R @ np.array([0.0, 0.0, z]) + off)
        if case.get("axis"):
            # z = 0 is the first end (at `base`), z = a[2] the other one: base + step * axis, nothing rotated, nothing normalised
            ax, base, step, full = np.array(case["axis"], dtype=float), np.array(case["base"], dtype=float), case["step"], a[2]
            P = lambda z: base + ((z / full if full else 0.0) * step) * ax

        # how the centres reach the constructors; `given` = the values the constructor received, by axial position
        how, then = case.get("hand"), case.get("then", "none")
        owned, bufs, given = [], {}, {}

        def put(c, p):
            c[:] = [float(x) for x in p]

        def H(z, slot=0):
            p = P(z)
            if how is None:
                return p                                # a fresh float64 array nobody else holds
            if how == "tuple":
                c = tuple(float(x) for x in p)
            elif then == "buffer":
                c = bufs[slot] if slot in bufs else bufs.setdefault(slot, _carrier(how, rng))
                put(c, p)
            else:
                c = _carrier(how, rng)
                put(c, p)
                owned.append(c)
            given[z] = [float(x) for x in c]
            return c

        def caller_moves_on():
            # the caller goes on with its own work: refills its buffers with the next node / overwrites the arrays it passed
            for c in list(bufs.values()) + owned:
                put(c, off + size * np.array([rng.gauss(0, 3) for _ in range(3)]))

        again = None
        if kind == "sphere":
            query = VolSphere(H(0), a[0]).get_volume
        elif kind == "cap":
            s0 = VolSphere(H(0), a[0])
            query = lambda: s0.get_volume_spherical_cap(a[1])
        elif kind == "frustum":
            query = VolFrustumCone(H(0, 0), a[0], H(a[2], 1), a[1]).get_volume
        elif kind in ("lens", "union2"):
            s1, s2 = VolSphere(H(0), a[0]), VolSphere(H(a[2]), a[1])      # consecutive nodes: same argument position, same buffer
            if case["flip"]:
                s1, s2 = s2, s1
            again = (lambda: s1.intersect(s2)) if kind == "lens" else (lambda: s1.union(s2))
            query = again().get_volume
        else:
            r1, r2, h = a
            s = VolSphere(H(0), r1)
            f = VolFrustumCone(H(h, 1), r2, H(0, 0), r1) if case["flip"] else VolFrustumCone(H(0, 0), r1, H(h, 1), r2)
            if case["seed"] % 3 == 0 and kind == "sfunion":
                # either solid may be the receiver of the closed-form UNION (frustum.intersect(sphere) is the sampling path: outside)
                again = lambda: f.union(s)
            else:
                again = (lambda: s.intersect(f)) if kind == "concentric" else (lambda: s.union(f))
            query = again().get_volume
        out = {}
        if then == "requery":
            out["v_first"] = float(query())
        if then != "none":
            caller_moves_on()
        out["v"] = float(query())
        if then == "requery" and again is not None:
            out["v_anew"] = float(again().get_volume())
        if how == "f32" and len(a) == 3 and kind != "cap":
            # single-precision coordinates: the solid that was built has the rounded centres; its own distance / height
            out["a_real"] = [a[0], a[1], _dist(given[0], given[a[2]])]
        return out

    @staticmethod
    def _a(case, res):
        return res.get("a_real", case["a"]) if isinstance(res, dict) else case["a"]

    def lines(self, case, res):
        if not isinstance(res, dict) or "exc" in res or not isinstance(res.get("v"), float):
            return []
        kind, a = case["kind"], self._a(case, res)
        exact = kind in ("sphere", "cap", "frustum", "lens", "union2")
        # spheres are placed by a float rotation, so d / h are recovered up to rounding (float32 rounding when the caller's array is float32)
        t = (1e-7 if exact else 2e-6) if case.get("hand") != "f32" else 2e-5
        return [(f"vol f={kind} a={','.join(repr(x) for x in a)}",
                 {"approx": [res["v"]], "rtol": t, "atol": t * min(1.0, case.get("scale", 1.0)) ** 3})]

    def oracle(self, case, res):
        kind, a = case["kind"], self._a(case, res)
        if not isinstance(res, dict) or "v" not in res and "exc" not in res:
            return [(f"{kind}-malformed", f"{kind}{a}: no volume in the answer {str(res)[:200]}")]
        if "exc" in res:
            return [(f"{kind}-raises", f"{kind}{a} raised {res['exc']}: {res.get('msg')}")]
        tv = true_volume(kind, a)
        tol = _tolerance(kind, a, tv, case.get("scale", 1.0))
        if case.get("hand") == "f32":
            # the caller chose single precision: d / h of the rounded centres are computed in float32 (a few ulp, 2^-23 each), and
            # dV/dd, dV/dh are at most π·size² — ordinary rounding, relative to the solids and not to a thin lens
            tol += 2e-6 * max(a) ** 3
        cls, fam = case["class"].split("/")[1], case.get("family")
        where = ""
        if fam == "far":
            where = f" [solids placed {case['far']:g} x their size away from the origin]"
        elif fam == "small-units":
            where = f" [lengths in a unit of {case['unit']:g}: the same configuration with radii of order 1 is {[x / case['unit'] for x in a]}]"
        elif fam == "handover":
            where = f" [centres handed over as {case['hand']}; caller's own arrays afterwards: {case['then']}]"
        elif case.get("axis"):
            where = f" [axis exactly along {tuple(case['axis'])}, first end at {tuple(case['base'])}, other end {case['step']!r} x axis further ({case['ends']})]"
        bad = []
        for field, tag in (("v_first", "/first-query"), ("v", ""), ("v_anew", "/combined-anew")):
            # a volume that is not a finite number (NaN, None) is not the true volume either
            if field in res and not (isinstance(res[field], float) and abs(res[field] - tv) <= tol):
                bad.append((f"{kind}-volume/{cls}" + (f"/{fam}" if fam else "") + tag,
                            f"{kind}{a}: reported {res[field]!r}, true volume (quadrature of the profile) {tv!r}{where}"))
        return bad[:1]

    def nontrivial(self, case, res):
        return case["kind"] not in ("sphere",)


# ----------------------------------------------------------------------------------------------------------------------------
# "equal the true volume" is a statement about the solids of ONE request. A caller does not ask one request per process: a soma
# or a branch node lives on and is compared with one neighbour after the other, the neighbours being temporaries. So: one
# long-lived solid (the hub), a SEQUENCE of closed-form requests on it, every answer judged on its own.
#   inline   the partner is a temporary inside the request expression (gone when the volume is returned)
#   rebound  the partner is a loop variable, rebound by the next request
#   kept     every partner stays alive until the end of the session (and an earlier partner object can be asked again)
LIFE = ["inline", "rebound", "kept"]
PAIR = {"lens": "union2", "union2": "lens", "concentric": "sfunion", "sfunion": "concentric"}


def _pick_partner(rng, g, kind, r1):
    """one configuration of the kind for a hub sphere of radius r1 (same classes as Closed)"""
    if kind in ("lens", "union2"):
        r2 = g()
        return rng.choice([
            ([r1, r2, r1 + r2 + g()], "disjoint"), ([r1, r2, r1 + r2], "tangent-out"), ([r1, r2, abs(r1 - r2)], "tangent-in"),
            ([r1, r2, abs(r1 - r2) * rng.random()], "nested"), ([r1, r2, 0.0], "concentric"),
            ([r1, r2, rng.uniform(abs(r1 - r2), r1 + r2)], "proper"), ([r1, r2, rng.uniform(abs(r1 - r2), r1 + r2)], "proper"),
            ([r1, r1, rng.uniform(0, 2 * r1)], "equal-radii")])
    r2 = r1 * rng.uniform(0.05, 0.95)
    r2s = r1 * rng.uniform(0.05, 0.6)
    hs = math.sqrt(max(r1 * r1 - r2s * r2s, 0)) * rng.uniform(0.1, 0.9)
    return rng.choice([
        ([r1, r1 + g(), r1 + g()], "wide-high"), ([r1, r1 + g(), r1 * rng.uniform(0.05, 0.99)], "wide-low"), ([r1, r1, g()], "cylinder"),
        ([r1, r2, r1 + g()], "narrow-high"), ([r1, r2, r1 * rng.uniform(0.3, 0.99)], "narrow-low"), ([r1, r2s, hs], "inside"),
        ([r1, r2, r1], "h-eq-r1")])


def _classify(a):
    """class of a sphere / concentric frustum configuration [r1 (shared end), r2 (far end), h]"""
    r1, r2, h = a
    if r2 == r1:
        return "cylinder"
    if r2 > r1:
        return "wide-high" if h >= r1 else "wide-low"
    if h * h + r2 * r2 < r1 * r1:
        return "inside"
    return "narrow-high" if h >= r1 else "narrow-low"


def _unit(seed):
    import random as _r

    q = _r.Random(seed)
    u = np.array([q.gauss(0, 1) for _ in range(3)])
    return u / np.linalg.norm(u)


class Session(Suite):
    name = "c13.session"
    case_timeout = 60
    repeat = 8

    def cases(self, rng, tier, widen):
        out = []
        n = 12 if tier == "quick" and not widen else 72
        g = lambda lo=0.125, hi=8.0: rng.randint(int(lo * 16), int(hi * 16)) / 16
        # the last n // 2 sessions are held on the coordinate lattice: hub at a lattice point, every axis (hub frustum, line of centres,
        # partner frustum) exactly along a voxel-neighbour or small-integer direction — see NEIGHBOURS
        def lattice_dir():
            while True:
                u = rng.choice(NEIGHBOURS) if rng.random() < 0.7 else tuple(rng.randint(-4, 4) for _ in range(3))
                if any(u):
                    return list(u)

        for i in range(n + n // 2):
            lat = i >= n
            hub = ("sphere", "sphere", "frustum")[i % 3]              # guaranteed share: every hub x every partner lifetime
            life = LIFE[(i // 3) % 3]
            sc = rng.choice([1.0, 1.0, 1.0, 1e-3, 1 / 64, 128.0, 1e-2])
            if hub == "sphere":
                r1 = g()
                ha = [r1]
            else:
                ha, _ = _pick_partner(rng, g, "concentric", g())
                if rng.random() < 0.5:
                    ha = [ha[1], ha[0], ha[2]]                             # either taper direction
            steps = []
            for _ in range(rng.randint(5, 9)):
                pairs = [j for j, st in enumerate(steps) if st["kind"] in PAIR]
                if pairs and rng.random() < 0.25:
                    # the same pair once more (the same object when it is still alive), for the same or the other combination
                    j = rng.choice(pairs)
                    st = dict(steps[j], same=steps[j].get("same", j))
                    if rng.random() < 0.7:
                        st["kind"] = PAIR[st["kind"]]
                elif hub == "sphere":
                    kind = rng.choice(["lens", "union2", "lens", "union2", "concentric", "sfunion", "concentric", "sfunion", "sphere", "cap"])
                    if kind == "sphere":
                        st = {"kind": kind, "a": [r1], "cls": "-"}
                    elif kind == "cap":
                        st = {"kind": kind, "a": [r1, rng.choice([0.0, r1, 2 * r1, rng.uniform(0, 2 * r1)])], "cls": "-"}
                    else:
                        a, cls = _pick_partner(rng, g, kind, r1)
                        st = {"kind": kind, "a": a, "cls": cls, "dir": rng.randrange(10**6), "flip": rng.random() < 0.5}
                        if lat:
                            st["axis"] = lattice_dir()
                else:
                    kind = rng.choice(["concentric", "sfunion", "sfunion", "concentric", "sfunion", "frustum"])
                    if kind == "frustum":
                        st = {"kind": kind, "a": list(ha), "cls": "-"}
                    else:
                        end = rng.randrange(2)                                 # the sphere sits at either end of the hub frustum
                        a = [ha[end], ha[1 - end], ha[2]]
                        st = {"kind": kind, "a": a, "cls": _classify(a), "end": end}
                if st["kind"] in PAIR:
                    # who receives the call: hub.union(partner) / partner.union(hub); sphere ∩ frustum is closed-form on the sphere only
                    if st["kind"] == "concentric":
                        st["recv"] = "hub" if hub == "sphere" else "partner"
                    else:
                        st["recv"] = rng.choice(["hub", "hub", "partner"])
                steps.append(st)
            for st in steps:
                st["a"] = [float(x) * sc for x in st["a"]]
            out.append({"class": f"session/{hub}-hub/{life}" + ("" if sc == 1.0 else "/scaled") + ("/lattice" if lat else ""), "hub": hub,
                        "ha": [float(x) * sc for x in ha], "life": life, "steps": steps, "scale": sc, "seed": rng.randrange(10**6)})
            if lat:
                out[-1]["axis"] = lattice_dir()
                out[-1]["base"] = [float(x) * sc for x in rng.choice([[0, 0, 0], [rng.randint(-20, 20)] * 3, [rng.randint(-20, 20) for _ in range(3)]])]
        return out

    def run(self, case):
        from swcgeom.utils import VolFrustumCone, VolSphere

        import random as _r

        rng = _r.Random(case["seed"])
        np.random.seed(case["seed"] % (2**31))
        R, off = _rot(rng)
        ha, life = case["ha"], case["life"]
        up = R @ np.array([0.0, 0.0, 1.0])
        if case.get("axis"):
            off = np.array(case["base"], dtype=float)
            up = np.array(case["axis"], dtype=float) / math.sqrt(sum(x * x for x in case["axis"]))
        towards = lambda st: (np.array(st["axis"], dtype=float) / math.sqrt(sum(x * x for x in st["axis"]))) if st.get("axis") else _unit(st["dir"])
        if case["hub"] == "sphere":
            ends, rad = [off], [ha[0]]
            new_hub = lambda: VolSphere(off.copy(), ha[0])
        else:
            ends, rad = [off, off + ha[2] * up], [ha[0], ha[1]]
            new_hub = lambda: VolFrustumCone(ends[0].copy(), rad[0], ends[1].copy(), rad[1])

        # everything a partner is built from is computed BEFORE the session, so that a request is nothing but
        # `hub.intersect(VolSphere(c, r)).get_volume()` — as in a caller's loop over precomputed node coordinates
        recipe = []
        for st in case["steps"]:
            kind, a = st["kind"], st["a"]
            if kind not in PAIR:
                recipe.append(None)
            elif case["hub"] == "frustum":
                recipe.append((VolSphere, (ends[st["end"]].copy(), rad[st["end"]])))
            elif kind in ("lens", "union2"):
                recipe.append((VolSphere, (off + a[2] * towards(st), a[1])))
            else:
                far = off + a[2] * towards(st)
                recipe.append((VolFrustumCone, (far, a[1], off.copy(), a[0]) if st["flip"] else (off.copy(), a[0], far, a[1])))

        def ask(hub, st, partner):
            kind = st["kind"]
            if kind in ("sphere", "frustum"):
                return hub.get_volume()
            if kind == "cap":
                return hub.get_volume_spherical_cap(st["a"][1])
            x, y = (hub, partner) if st["recv"] == "hub" else (partner, hub)
            return (x.intersect(y) if kind in ("lens", "concentric") else x.union(y)).get_volume()

        def session():
            hub, kept, vols, p = new_hub(), {}, [], None
            for i, st in enumerate(case["steps"]):
                try:
                    if st["kind"] not in PAIR:
                        v = ask(hub, st, None)
                    elif life == "inline":
                        v = ask(hub, st, recipe[i][0](*recipe[i][1]))
                    elif life == "rebound":
                        p = recipe[i][0](*recipe[i][1])
                        v = ask(hub, st, p)
                    else:
                        j = st.get("same")
                        kept[i] = kept[j] if j in kept else recipe[i][0](*recipe[i][1])
                        v = ask(hub, st, kept[i])
                    vols.append(float(v))
                except Exception as e:  # noqa: BLE001 - judged per request by the oracle
                    vols.append({"exc": type(e).__name__, "msg": str(e)[:200]})
            return vols

        # the session is held twice, each time on a newly built hub: the first may be the first use of the library in the process,
        # the second is what a caller sees at the second node of its loop. Every answer of both is judged.
        first = session()
        return {"v_first": first, "v": session()}

    @staticmethod
    def _vols(case, res, field="v"):
        v = res.get(field) if isinstance(res, dict) else None
        return v if isinstance(v, list) and len(v) == len(case["steps"]) else None

    def lines(self, case, res):
        vols = self._vols(case, res)
        if vols is None:
            return []
        out, sc = [], case.get("scale", 1.0)
        for st, v in zip(case["steps"], vols):
            if not isinstance(v, float):
                continue
            t = 1e-7 if st["kind"] in ("sphere", "cap", "frustum", "lens", "union2") else 2e-6
            out.append((f"vol f={st['kind']} a={','.join(repr(x) for x in st['a'])}", {"approx": [v], "rtol": t, "atol": t * min(1.0, sc) ** 3}))
        return out

    def oracle(self, case, res):
        tag = f"session-{case['life']}"
        if not isinstance(res, dict) or "exc" in res:
            r = res if isinstance(res, dict) else {"exc": "malformed", "msg": repr(res)[:200]}
            return [(f"session-raises/{case['hub']}-hub", f"a session of closed-form requests on one {case['hub']} raised {r['exc']}: {r.get('msg')}")]
        first, vols = self._vols(case, res, "v_first"), self._vols(case, res)
        if vols is None or first is None:
            return [(f"session-malformed/{case['hub']}-hub", f"{len(case['steps'])} requests, answers: {str(res)[:300]}")]
        bad, seen, sc = [], set(), case.get("scale", 1.0)
        true = {}
        for rnd, answers in (("second", vols), ("first", first)):
            for i, (st, v) in enumerate(zip(case["steps"], answers)):
                kind, a = st["kind"], st["a"]
                before = ", ".join(f"{s['kind']}{s['a']}" for s in case["steps"][:i]) or "nothing"
                where = (f" [request #{i + 1} on one long-lived {case['hub']} {case['ha']} ({rnd} such {case['hub']} of the process); partners {case['life']}"
                         + (f"; on the lattice: hub at {tuple(case['base'])}" + (f" along {tuple(case['axis'])}" if case["hub"] == "frustum" else "")
                            + (f", partner towards {tuple(st['axis'])}" if st.get("axis") else "") if case.get("axis") else "")
                         + (f", same pair as request #{st['same'] + 1}" if "same" in st else "") + f"; asked before: {before}]")
                if isinstance(v, dict):
                    key, msg = f"{kind}-raises/{tag}", f"{kind}{a} raised {v.get('exc')}: {v.get('msg')}{where}"
                elif not isinstance(v, float) or not math.isfinite(v):
                    key, msg = f"{kind}-volume/{st['cls']}/{tag}", f"{kind}{a}: reported {v!r}{where}"
                else:
                    tv = true[i] = true[i] if i in true else true_volume(kind, a)
                    if abs(v - tv) <= _tolerance(kind, a, tv, sc):
                        continue
                    key, msg = f"{kind}-volume/{st['cls']}/{tag}", f"{kind}{a}: reported {v!r}, true volume (quadrature of the profile) {tv!r}{where}"
                if key not in seen:
                    seen.add(key)
                    bad.append((key, msg))
        return bad[:3]

    def nontrivial(self, case, res):
        return sum(1 for st in case["steps"] if st["kind"] in PAIR) >= 2



# ----------------------------------------------------------------------------------------------------------------------------------
# T39 `volctl`: the GENERATED control flow of the closed forms (Gen/AlgoVolCtl.lean, driver op `gvolctl`) on rational configurations whose
# square roots are rational (Pythagorean directions / axis-aligned frusta), compared with the real functions within 1e-9 relative.
class GenCtl(Suite):
    name = "c13.genctl"
    TRIPLES = [(0, 0, 1, 1), (3, 4, 0, 5), (0, -4, 3, 5), (1, 2, 2, 3), (2, 3, 6, 7), (-2, 6, 3, 7), (4, 4, 7, 9), (1, 4, 8, 9)]

    def cases(self, rng, tier, widen):
        out = []
        q = lambda lo, hi: rng.randint(lo * 8, hi * 8) / 8
        for i in range(24 if tier == "quick" and not widen else 120):
            ca = [rng.randint(-5, 5) for _ in range(3)]
            if i % 2 == 0:
                u = rng.choice(self.TRIPLES)
                ra, rb = q(1, 6), q(1, 6)
                mode = i // 2 % 6
                d = [ra + rb, abs(ra - rb), ra + rb + q(0, 2), abs(ra - rb) / 2, (ra + rb + abs(ra - rb)) / 2, q(0, 12)][mode]
                m = d / u[3]
                out.append({"kind": "sphere2", "ca": ca, "ra": ra, "cb": [ca[k] + m * u[k] for k in range(3)], "rb": rb, "class": f"sphere2/{mode}"})
            else:
                ax = rng.randrange(3); sg = rng.choice([-1, 1])
                r1, h = q(1, 6), q(1, 10)
                mode = i // 2 % 5
                r2 = [r1 + q(0, 3), max(0.0, r1 - q(1, 6)), r1, q(0, 8), r1 / 8][mode]
                if mode == 2:
                    h = r1
                c2 = list(ca); c2[ax] = ca[ax] + sg * h
                perp = [0, 0, 0]; perp[(ax + 1) % 3] = rng.choice([-1, 1])
                swap = rng.random() < 0.5
                out.append({"kind": "concentric", "sc": ca, "sr": r1, "f": ([c2, r2, ca, r1] if swap else [ca, r1, c2, r2]), "perp": perp,
                            "class": f"concentric/{mode}/{'c2' if swap else 'c1'}"})
        return out

    def run(self, case):
        from swcgeom.utils.volumetric_object import VolFrustumCone, VolSphere, VolSphere2Intersection, VolSphereFrustumConeIntersection
        try:
            if case["kind"] == "sphere2":
                v = VolSphere2Intersection.calc_intersect_volume(VolSphere(case["ca"], case["ra"]), VolSphere(case["cb"], case["rb"]))
            else:
                f = case["f"]
                v = VolSphereFrustumConeIntersection.calc_concentric_intersect_volume(VolSphere(case["sc"], case["sr"]), VolFrustumCone(f[0], f[1], f[2], f[3]))
            return {"v": float(v)}
        except Exception as e:  # noqa: BLE001
            return {"exc": type(e).__name__}

    def lines(self, case, res):
        from fractions import Fraction
        if not isinstance(res, dict):
            return []
        fr = lambda x: str(Fraction(x))
        vec = lambda v: ",".join(fr(x) for x in v)
        if case["kind"] == "sphere2":
            g = f"gvolctl what=sphere2 ca={vec(case['ca'])} ra={fr(case['ra'])} cb={vec(case['cb'])} rb={fr(case['rb'])}"
        else:
            f = case["f"]
            g = (f"gvolctl what=concentric eps=1/1000000 sc={vec(case['sc'])} sr={fr(case['sr'])} fc1={vec(f[0])} fr1={fr(f[1])} fc2={vec(f[2])} "
                 f"fr2={fr(f[3])} perp={vec(case['perp'])}")
        if "exc" in res:
            return [(g, "E")]
        want = res["v"]

        def ok(got):
            try:
                x = float(Fraction(got)) * math.pi          # the driver runs with pi = 1: every closed form is linear in pi
            except (ValueError, ZeroDivisionError):
                return False
            return abs(x - want) <= 1e-9 * max(abs(x), abs(want)) + 1e-12
        ok.__doc__ = repr(want)
        return [(g, ok)]

    def oracle(self, case, res):
        return []


SUITES = [Closed(), Session(), GenCtl()]
TECHNIQUE = "Lean 4 theorems over ℝ (interval integrals of the radius profile, disc method) about the volume formulas REGENERATED from the Python source on every run + Float cross-check of the generated terms + numerical quadrature oracle"
LEVEL_TEXT = ("Kernel-checked over ℝ for all radii, heights and distances: the generated closed forms equal π∫ρ² of the solid's profile "
              "(sphere, cap, frustum, two-sphere lens in disjoint/nested/tangent/proper cases, sphere∩frustum in the code's cases, unions by "
              "inclusion–exclusion). Editing a coefficient, a sign or a case boundary in the Python changes the generated Lean and breaks a named theorem.")
LEVEL_NOTE = ("Trusted: Lean kernel + Mathlib; translator; disc method = Lebesgue volume (assumed); the meridian-plane model of the line–sphere "
              "intersection (tied by correspondence on random orientations); eps bands only approximately; floating point outside the theorems.")


