"""Regenerate every Gen/*.lean from the CURRENT /repo (run after evaluating seeded changes, before committing)."""
import sys
from pathlib import Path

sys.path.insert(0, str(Path(__file__).resolve().parent.parent))
from harness import translate, translate_algo  # noqa: E402

fails = translate.regenerate() + translate_algo.regenerate()
for f in fails:
    print(f)
print("regenerated;", len(fails), "failures")
