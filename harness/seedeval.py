"""Confirm a seeded change (tests pass with it, demo fails with it and passes without), store it under
/verif/seeded/<id>/, and run the registered check(s) against it in /repo (applied, checked, undone).

    python harness/seedeval.py C05 /tmp/seed_C05 [--checks C05,C02] [--tier quick]
"""
import json
import os
import shutil
import subprocess
import sys
from pathlib import Path

V = Path(__file__).resolve().parent.parent
PY = "/venv/bin/python"


def sh(cmd, cwd=None, env=None, timeout=3000):
    e = dict(os.environ)
    if env:
        e.update(env)
    p = subprocess.run(cmd, shell=True, cwd=cwd, env=e, capture_output=True, text=True, timeout=timeout)
    return p.returncode, (p.stdout + p.stderr)


def evidence_backup():
    """evidence files are records of runs on the UNCHANGED tree: a run against a seeded change must not leave its record behind"""
    return {f.name: f.read_text() for f in (V / "evidence").glob("*.json")}


def evidence_restore(saved):
    for name, text in saved.items():
        (V / "evidence" / name).write_text(text)


def main():
    pid, wt = sys.argv[1], sys.argv[2]
    checks = [pid]
    tier = "quick"
    repo = "/repo"
    for i, a in enumerate(sys.argv):
        if a == "--checks":
            checks = sys.argv[i + 1].split(",")
        if a == "--tier":
            tier = sys.argv[i + 1]
        if a == "--repo":
            # first evaluations may run against a scratch worktree of /repo (SWCGEOM_REPO + PYTHONPATH), so that /repo and the
            # development copy of /verif are not disturbed; the RECORDED regression run (seedall.py) always applies to /repo itself
            repo = sys.argv[i + 1]
    renv = {} if repo == "/repo" else {"SWCGEOM_REPO": repo, "PYTHONPATH": repo}
    out = Path(wt) / "seed_out"
    _saved_evidence = evidence_backup()
    env = {"PYTHONPATH": wt, "PYTHONDONTWRITEBYTECODE": "1"}
    for diff in sorted(out.glob("m*.diff")):
        k = diff.stem
        demo = out / f"{k}_demo.py"
        meta = json.loads((out / f"{k}.json").read_text()) if (out / f"{k}.json").exists() else {}
        sid = f"{pid}_{k}"
        rec = {"id": sid, "property": pid, "summary": meta.get("summary"), "needs": meta.get("needs"), "why_tests_pass": meta.get("why_tests_pass"),
               "files": meta.get("files")}
        # --- confirm in the scratch worktree
        sh("git checkout -- . ", cwd=wt)
        rc, o = sh(f"git apply {diff}", cwd=wt)
        if rc != 0:
            rec["confirmed"] = False; rec["why"] = "patch does not apply: " + o[-200:]
            print(sid, "NOT CONFIRMED", rec["why"]); continue
        rc_t, o_t = sh(f"{PY} -m pytest -q -p no:cacheprovider -x 2>&1 | tail -3", cwd=wt, env=env)
        tests_ok = "81 passed" in o_t
        rc_d, o_d = sh(f"{PY} {demo}", cwd=wt, env=env, timeout=900)
        sh("git checkout -- .", cwd=wt)
        rc_c, o_c = sh(f"{PY} {demo}", cwd=wt, env=env, timeout=900)
        rec["ran"] = {"tests_with_change": o_t.strip().splitlines()[-1] if o_t.strip() else "", "demo_with_change_rc": rc_d,
                      "demo_with_change_tail": o_d.strip()[-300:], "demo_without_change_rc": rc_c}
        rec["confirmed"] = bool(tests_ok and rc_d != 0 and rc_c == 0)
        if not rec["confirmed"]:
            print(sid, "NOT CONFIRMED", rec["ran"]); continue
        d = V / "seeded" / sid
        d.mkdir(parents=True, exist_ok=True)
        shutil.copy(diff, d / "patch.diff")
        shutil.copy(demo, d / "demo.py")
        # --- run our checks against it
        rc, o = sh("git status --porcelain --untracked-files=no", cwd=repo)
        assert o.strip() == "", f"{repo} is not clean: " + o
        rc, o = sh(f"git apply {d / 'patch.diff'}", cwd=repo)
        assert rc == 0, o
        results = {}
        try:
            for c in checks:
                rc, o = sh(f"./check {c} --tier {tier}", cwd=V, timeout=6000, env=renv)
                viol = [l for l in o.splitlines() if l.startswith("VIOLATION")]
                summ = [l for l in o.splitlines() if l.startswith(f"[{c}]")]
                rp = None
                if viol and "replay=" in viol[0]:
                    rp = viol[0].split("replay=")[1].split()[0]
                    try:
                        r = json.loads((V / rp).read_text())
                        rp = {"kind": r.get("kind"), "finding": r.get("finding"), "message": (r.get("message") or "")[:300],
                              "no_longer_checks": {k2: (v2[:2] if isinstance(v2, list) else v2) for k2, v2 in (r.get("no_longer_checks") or {}).items()}}
                    except Exception:  # noqa: BLE001
                        pass
                results[c] = {"rc": rc, "violation_line": viol[0] if viol else None, "summary": summ[-1] if summ else o[-300:], "replay": rp,
                              "replay_file": (viol[0].split("replay=")[1].split()[0] if viol and "replay=" in viol[0] else None)}
        finally:
            sh("git reset -q --hard HEAD", cwd=repo)
        # keep the failing input as a corpus case of the check that found it (validated on the clean tree)
        for c, r in results.items():
            if r.get("replay_file") and isinstance(r.get("replay"), dict) and r["replay"].get("kind") == "failing-input":
                rc2, o2 = sh(f"SWCGEOM_VERIF=1 PYTHONPATH={V}{':' + repo if repo != '/repo' else ''} {PY} harness/corpus_add.py {c} {r['replay_file']} seed_{sid}", cwd=V, timeout=900,
                             env=({"SWCGEOM_REPO": repo} if repo != "/repo" else None))
                r["corpus"] = o2.strip().splitlines()[-1] if o2.strip() else ""
        rec["checks"] = results
        rec["caught"] = any(r["rc"] == 1 and r["violation_line"] for r in results.values())
        rec["caught_with_failing_input"] = any(r["rc"] == 1 and r["violation_line"] and "no-failing-input-found" not in r["violation_line"] for r in results.values())
        (d / "meta.json").write_text(json.dumps(rec, indent=1) + "\n")
        print(sid, "confirmed; caught =", rec["caught"], "| failing input =", rec["caught_with_failing_input"], "|",
              {c: (r["violation_line"] or "exit %d" % r["rc"]) for c, r in results.items()})
    rc, o = sh("git status --porcelain --untracked-files=no", cwd=repo)
    assert o.strip() == "", f"{repo} left dirty: " + o
    sh("/venv/bin/python harness/regen_all.py", cwd=V, env=renv)      # Gen/*.lean back to what the unchanged sources say
    evidence_restore(_saved_evidence)


if __name__ == "__main__":
    main()
