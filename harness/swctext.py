"""Shared helpers for the SWC text correspondence (C01, C02): protocol encoding and comparators."""
from __future__ import annotations

import io
import math
import re
import warnings
from decimal import ROUND_HALF_EVEN, Decimal
from fractions import Fraction


def cps(text: str) -> str:
    return ",".join(str(ord(c)) for c in text) if text else "_"


def uncps(s: str) -> str:
    return "" if s in ("_", "") else "".join(chr(int(x)) for x in s.split(","))


def sci_value(tok: str) -> Fraction:
    """`+25e-2` → 1/4"""
    m = re.fullmatch(r"([+-])(\d+)e(-?\d+)", tok)
    # exponents far beyond the double range are clamped: the value is then ±inf / 0 for every comparison made with it
    # (an unclamped 9-digit exponent from a mutated line would take minutes to expand)
    v = Fraction(int(m.group(2))) * (Fraction(10) ** max(-6000, min(6000, int(m.group(3)))))
    return -v if m.group(1) == "-" else v


class Expect:
    """callable expectation with a readable description (stored in disagreement records)"""

    def __init__(self, fn, desc):
        self.fn, self.desc = fn, desc

    def __call__(self, got):
        try:
            return bool(self.fn(got))
        except Exception:  # noqa: BLE001 - unparsable model output is a disagreement
            return False

    def __str__(self):
        return self.desc


def to_float(fr) -> float:
    """what CPython's float() gives for the exact decimal value (overflow → inf)"""
    try:
        return float(fr)
    except OverflowError:
        return float("inf") if fr > 0 else float("-inf")


def parse_model_read(got: str):
    """parse the driver's `swcread` output"""
    if got.startswith("error"):
        p = got.split()
        return {"error": p[1], "line": int(p[2]) if len(p) > 2 else None}
    head, *rest = got.split(" # ")
    comments = [uncps(c.strip()) for c in rest]
    parts = head.split(" | ")
    m = re.match(r"ok n=(\d+) warned=(\d)", parts[0])
    rows = []
    for r in parts[1:]:
        t = r.split()
        rows.append({"id": int(t[0]), "type": int(t[1]), "x": sci_value(t[2]), "y": sci_value(t[3]), "z": sci_value(t[4]),
                     "r": sci_value(t[5]), "pid": int(t[6]), "extra": [sci_value(x) for x in t[7:]]})
    return {"n": int(m.group(1)), "warned": m.group(2) == "1", "rows": rows, "comments": comments}


def run_parse_swc(text: str, nx: int = 0):
    """the real `parse_swc` on a text; canonical result"""
    from swcgeom.core.swc_utils.base import get_names
    from swcgeom.core.swc_utils.io import parse_swc

    extra = [f"e{i}" for i in range(nx)]
    with warnings.catch_warnings(record=True) as w:
        warnings.simplefilter("always")
        try:
            df, comments = parse_swc(io.StringIO(text), names=get_names(None), extra_cols=extra or None)
        except ValueError as e:
            m = re.search(r"invalid row (\d+)", str(e))
            return {"error": "invalidRow", "line": int(m.group(1)) if m else None, "msg": str(e)[:80]}
    cols = {k: df[k].tolist() for k in df.columns}
    return {"cols": cols, "comments": list(comments), "warned": any("ignored" in str(x.message) for x in w), "nx": nx}


def expect_read(impl) -> Expect:
    """model `swcread` output must describe exactly what the implementation returned"""

    def fn(got):
        m = parse_model_read(got)
        if "error" in impl:
            return m.get("error") == impl["error"] and m.get("line") == impl["line"]
        if "error" in m:
            return False
        cols = impl["cols"]
        n = len(cols["id"])
        if m["n"] != n or m["warned"] != impl["warned"] or m["comments"] != impl["comments"]:
            return False
        for k, r in enumerate(m["rows"]):
            if r["id"] != cols["id"][k] or r["type"] != cols["type"][k] or r["pid"] != cols["pid"][k]:
                return False
            for c in "xyzr":
                if to_float(r[c]) != cols[c][k]:
                    return False
            for j, v in enumerate(r["extra"]):
                if to_float(v) != cols[f"e{j}"][k]:
                    return False
        return True

    return Expect(fn, "impl=" + repr(impl)[:1500])


def q4(v32) -> int:
    """what '.4f' prints for a float32 value, as a signed integer in units of 1e-4"""
    d = Decimal(float(v32)).quantize(Decimal("0.0001"), rounding=ROUND_HALF_EVEN)
    return int(d.scaleb(4))


def neg_zero(v32) -> bool:
    return q4(v32) == 0 and math.copysign(1.0, float(v32)) < 0
