#!/bin/bash
# ./harness/sweep.sh "1 2 3" quick  -> runs every claimed check with each seed on the current tree; prints alarms
cd "$(dirname "$0")/.."
seeds="${1:-1 2 3}"; tier="${2:-quick}"
pids=$(python3 -c "import json; print(' '.join(c['property_id'] for c in json.load(open('MANIFEST.json'))['checks']))")
for s in $seeds; do for p in $pids; do
  out=$(VERIF_SEED=$s ./check $p --tier $tier 2>&1); rc=$?
  if [ $rc -ne 0 ]; then echo "ALARM seed=$s $p rc=$rc"; echo "$out" | grep -E "VIOLATION|^\[C|first disagreement|broken" | cut -c1-600; fi
done; done; echo "sweep done seeds=[$seeds] tier=$tier"
