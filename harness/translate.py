"""Python-AST -> Lean translator for the arithmetic / constant fragments of swcgeom (DESIGN.md §2.2).

`regenerate()` re-reads the CURRENT sources under /repo and rewrites lean/SwcVerif/Gen/*.lean.
The property theorems are stated about these generated definitions, so they are re-checked by the
Lean kernel against what the code says now.  A construct outside the supported subset is a
translator failure (returned as a list of messages), handled like a broken proof.

Supported subset: + - * / ; `** k` (k a small int literal); unary minus; names; int literals;
np.pi / math.pi; np.cos(theta)/np.sin(theta) (as the parameters c, s); abs/min/max; comparisons;
straight-line assignments; augmented assignments; `if` chains ending in `return`; `if` blocks
that only update one variable; list-of-list numeric literals inside np.array(...).
"""
from __future__ import annotations

import ast
import os
import re
from pathlib import Path

VERIF = Path(__file__).resolve().parent.parent
GEN = VERIF / "lean" / "SwcVerif" / "Gen"
REPO = Path(os.environ.get("SWCGEOM_REPO", "/repo"))

NUMS = [0, 1, 2, 3, 4, 6, 12]
BINDERS = ("{K : Type} [Add K] [Sub K] [Mul K] [Div K] [Neg K] [LT K] [LE K] [DecidableLT K] [DecidableLE K] [DecidableEq K] "
           + " ".join(f"[OfNat K {n}]" for n in NUMS))


class Untranslatable(Exception):
    pass


class Expr:
    """expression translator; `env` maps python names / attribute spellings to Lean terms"""

    def __init__(self, env=None, calls=None, subst=None):
        self.env = env or {}
        self.calls = calls or {}
        self.subst = subst or {}   # ast.unparse(text) -> lean term

    def tr(self, e) -> str:
        txt = ast.unparse(e)
        if txt in self.subst:
            return self.subst[txt]
        if isinstance(e, ast.Constant):
            if isinstance(e.value, bool) or not isinstance(e.value, int):
                raise Untranslatable(f"constant {e.value!r}")
            if e.value not in NUMS:
                raise Untranslatable(f"numeral {e.value} not in the supported set {NUMS}")
            return f"({e.value} : K)"
        if isinstance(e, ast.Name):
            if e.id in self.env:
                return self.env[e.id]
            raise Untranslatable(f"unknown name `{e.id}`")
        if isinstance(e, ast.Attribute):
            if txt in ("np.pi", "math.pi"):
                return "pi"
            if txt in self.env:
                return self.env[txt]
            raise Untranslatable(f"attribute `{txt}`")
        if isinstance(e, ast.UnaryOp):
            if isinstance(e.op, ast.USub):
                return f"(-{self.tr(e.operand)})"
            if isinstance(e.op, ast.UAdd):
                return self.tr(e.operand)
            raise Untranslatable(f"unary op in `{txt}`")
        if isinstance(e, ast.BinOp):
            a = self.tr(e.left)
            if isinstance(e.op, ast.Pow):
                if isinstance(e.right, ast.Constant) and isinstance(e.right.value, int) and 1 <= e.right.value <= 6:
                    return "(" + " * ".join([a] * e.right.value) + ")"
                raise Untranslatable(f"power `{txt}`")
            b = self.tr(e.right)
            op = {ast.Add: "+", ast.Sub: "-", ast.Mult: "*", ast.Div: "/"}.get(type(e.op))
            if op is None:
                raise Untranslatable(f"operator in `{txt}`")
            return f"({a} {op} {b})"
        if isinstance(e, ast.Call):
            f = ast.unparse(e.func)
            if f in ("np.cos", "np.sin", "math.cos", "math.sin") and len(e.args) == 1:
                key = f.split(".")[1] + "(" + ast.unparse(e.args[0]) + ")"
                if key in self.env:
                    return self.env[key]
                raise Untranslatable(f"trig call `{txt}`")
            if f == "abs" and len(e.args) == 1:
                return f"(absK {self.tr(e.args[0])})"
            if f in ("min", "max") and len(e.args) == 2 and not e.keywords:
                return f"({f}K {self.tr(e.args[0])} {self.tr(e.args[1])})"
            if f in self.calls and not e.keywords:
                return "(" + " ".join([self.calls[f]] + [self.tr(a) for a in e.args]) + ")"
            raise Untranslatable(f"call `{txt}`")
        if isinstance(e, ast.Compare) and len(e.ops) == 1:
            a, b = self.tr(e.left), self.tr(e.comparators[0])
            op = {ast.Lt: "<", ast.LtE: "≤", ast.Gt: ">", ast.GtE: "≥", ast.Eq: "=", ast.NotEq: "≠"}.get(type(e.ops[0]))
            if op is None:
                raise Untranslatable(f"comparison `{txt}`")
            return f"({a} {op} {b})"
        raise Untranslatable(f"expression `{txt}`")

    def matrix(self, e) -> str:
        """np.array([[...],[...]], dtype=...) -> nested list literal"""
        if isinstance(e, ast.Call) and ast.unparse(e.func) == "np.array" and e.args and isinstance(e.args[0], ast.List):
            rows = []
            for r in e.args[0].elts:
                if not isinstance(r, ast.List):
                    raise Untranslatable("matrix row")
                rows.append("[" + ", ".join(self.tr(x) for x in r.elts) + "]")
            return "[" + ",\n   ".join(rows) + "]"
        raise Untranslatable(f"matrix literal `{ast.unparse(e)[:60]}`")


def block(tr: Expr, stmts, skip_targets=(), cont=None) -> str:
    """translate a statement list that ends in `return` on every path into a Lean term"""
    if not stmts:
        if cont is not None:
            return cont
        raise Untranslatable("block falls off the end without return")
    s, rest = stmts[0], stmts[1:]
    if isinstance(s, ast.Expr) and isinstance(s.value, ast.Constant) and isinstance(s.value.value, str):
        return block(tr, rest, skip_targets, cont)
    if isinstance(s, ast.Return):
        return tr.tr(s.value)
    if isinstance(s, ast.Assert):
        return block(tr, rest, skip_targets, cont)
    if isinstance(s, ast.Assign) and len(s.targets) == 1:
        t = s.targets[0]
        if isinstance(t, ast.Name):
            if t.id in skip_targets:
                return block(tr, rest, skip_targets, cont)
            v = tr.tr(s.value)
            tr.env[t.id] = t.id
            return f"let {t.id} : K := {v}\n  {block(tr, rest, skip_targets, cont)}"
        if isinstance(t, ast.Tuple) and all(isinstance(x, ast.Name) and x.id in skip_targets for x in t.elts):
            return block(tr, rest, skip_targets, cont)
        raise Untranslatable(f"assignment target `{ast.unparse(t)}`")
    if isinstance(s, ast.AugAssign) and isinstance(s.target, ast.Name):
        op = {ast.Add: "+", ast.Sub: "-"}.get(type(s.op))
        if op is None:
            raise Untranslatable("augmented op")
        n = s.target.id
        v = tr.tr(s.value)
        return f"let {n} : K := ({tr.env[n]} {op} {v})\n  {block(tr, rest, skip_targets, cont)}"
    if isinstance(s, ast.If):
        txt = ast.unparse(s.test)
        if txt in tr.subst and tr.subst[txt] == "SKIP":
            return block(tr, rest, skip_targets, cont)
        c = tr.tr(s.test)
        if _all_paths_return(s.body):
            a = block(Expr(dict(tr.env), tr.calls, tr.subst), s.body, skip_targets)
            if s.orelse:
                if _all_paths_return(s.orelse):
                    b = block(Expr(dict(tr.env), tr.calls, tr.subst), s.orelse, skip_targets)
                else:
                    b = block(Expr(dict(tr.env), tr.calls, tr.subst), list(s.orelse) + list(rest), skip_targets, cont)
            else:
                b = block(tr, rest, skip_targets, cont)
            return f"if {c} then\n    {a}\n  else\n  {b}"
        # an `if` that only updates variables: v := if c then (updates) else v, for each assigned var
        if not s.orelse and all(isinstance(x, (ast.AugAssign, ast.Assign)) for x in s.body):
            names = []
            for x in s.body:
                tg = x.target if isinstance(x, ast.AugAssign) else x.targets[0]
                if not isinstance(tg, ast.Name):
                    raise Untranslatable("if-update target")
                if tg.id not in names:
                    names.append(tg.id)
            if len(names) != 1:
                raise Untranslatable("if-block updating several variables")
            n = names[0]
            inner = Expr(dict(tr.env), tr.calls, tr.subst)
            body = block(inner, list(s.body), skip_targets, cont=n)
            return f"let {n} : K := if {c} then\n    ({body})\n    else {tr.env[n]}\n  {block(tr, rest, skip_targets, cont)}"
        raise Untranslatable(f"`if {txt}` of unsupported shape")
    raise Untranslatable(f"statement `{ast.unparse(s)[:60]}`")


def _all_paths_return(stmts) -> bool:
    if not stmts:
        return False
    last = stmts[-1]
    if isinstance(last, ast.Return):
        return True
    if isinstance(last, ast.If) and last.orelse:
        return _all_paths_return(last.body) and _all_paths_return(last.orelse)
    return False


# --------------------------------------------------------------------------- source access

class Src:
    def __init__(self, rel):
        self.path = REPO / rel
        self.tree = ast.parse(self.path.read_text())

    def func(self, name, cls=None) -> ast.FunctionDef:
        nodes = self.tree.body
        if cls:
            c = next((n for n in nodes if isinstance(n, ast.ClassDef) and n.name == cls), None)
            if c is None:
                raise Untranslatable(f"class {cls} not found in {self.path.name}")
            nodes = c.body
        for n in nodes:
            if isinstance(n, ast.FunctionDef) and n.name == name:
                return n
        raise Untranslatable(f"function {cls + '.' if cls else ''}{name} not found in {self.path.name}")

    def const(self, name):
        for n in self.tree.body:
            if isinstance(n, ast.Assign) and len(n.targets) == 1 and isinstance(n.targets[0], ast.Name) and n.targets[0].id == name:
                return n.value
            if isinstance(n, ast.AnnAssign) and isinstance(n.target, ast.Name) and n.target.id == name:
                return n.value
        raise Untranslatable(f"constant {name} not found in {self.path.name}")


def body_of(fn: ast.FunctionDef):
    b = list(fn.body)
    if b and isinstance(b[0], ast.Expr) and isinstance(b[0].value, ast.Constant) and isinstance(b[0].value.value, str):
        b = b[1:]
    return b


HEADER = "-- GENERATED by harness/translate.py from the current /repo sources. Do not edit.\nimport SwcVerif.Model.Num\n"


def _emit(fails, name, params, thunk, ret="K", extra_binders=""):
    ps = " ".join(f"({p} : K)" for p in params)
    try:
        body = thunk()
    except Untranslatable as e:
        fails.append(f"{name}: {e}")
        # keep downstream files compiling: an opaque stub about which nothing can be proved
        stub = "[]" if ret.startswith("List") else "(0 : K)"
        return (f"-- UNTRANSLATABLE {name}: {e}\n/-- stub: the source left the translatable subset -/\n"
                f"@[irreducible] def {name} {BINDERS} {extra_binders}{ps} : {ret} :=\n  {stub}\n\n")
    return f"def {name} {BINDERS} {extra_binders}{ps} : {ret} :=\n  {body}\n\n"


def gen_volume_formulas(fails) -> str:
    out = HEADER + "namespace Gen.Vol\n\n"
    try:
        src = Src("swcgeom/utils/volumetric_object.py")
    except Exception as e:  # noqa: BLE001
        fails.append(f"volumetric_object.py: {e}")
        return out + "end Gen.Vol\n"
    # eps
    try:
        v = src.const("eps")
        val = v.value if isinstance(v, ast.Constant) else None
        if not isinstance(val, float) or not (0 < val < 1):
            raise Untranslatable(f"eps = {ast.unparse(v)}")
        from fractions import Fraction

        fr = Fraction(repr(val))
        out += f"/-- `eps = {val!r}` as an exact fraction -/\ndef epsNum : Nat := {fr.numerator}\ndef epsDen : Nat := {fr.denominator}\n\n"
    except Untranslatable as e:
        fails.append(f"eps: {e}")

    def simple(fn, params):
        return lambda: block(Expr({p: p for p in params}), body_of(fn))

    out += _emit(fails, "sphereVolume", ["pi", "radius"],
                 lambda: simple(src.func("calc_volume", "VolSphere"), ["pi", "radius"])())
    out += _emit(fails, "capVolume", ["pi", "r", "h"],
                 lambda: simple(src.func("calc_volume_spherical_cap", "VolSphere"), ["pi", "r", "h"])())
    out += _emit(fails, "frustumVolume", ["pi", "r1", "r2", "height"],
                 lambda: simple(src.func("calc_volume", "VolFrustumCone"), ["pi", "r1", "r2", "height"])())

    calls = {"VolSphere.calc_volume": "sphereVolume pi", "VolSphere.calc_volume_spherical_cap": "capVolume pi",
             "VolFrustumCone.calc_volume": "frustumVolume pi"}

    def lens():
        fn = src.func("calc_intersect_volume", "VolSphere2Intersection")
        b = body_of(fn)
        # r1, r2 = obj1.radius, obj2.radius ; d = norm(...)  are the parameters
        ok = (len(b) >= 2 and ast.unparse(b[0]) == "r1, r2 = (obj1.radius, obj2.radius)"
              and ast.unparse(b[1]) == "d = np.linalg.norm(obj1.center - obj2.center).item()")
        if not ok:
            raise Untranslatable("prelude of calc_intersect_volume changed: " + ast.unparse(b[0])[:50] + " / " + ast.unparse(b[1])[:60])
        return block(Expr({p: p for p in ["pi", "r1", "r2", "d"]}, calls), b[2:])

    out += _emit(fails, "lensVolume", ["pi", "r1", "r2", "d"], lens)

    def union2():
        fn = src.func("_get_volume", "VolSphere2Union")
        return block(Expr({}, {}, {
            "self.obj1.get_volume()": "v1", "self.obj2.get_volume()": "v2",
            "VolSphere2Intersection.calc_intersect_volume(self.obj1, self.obj2)": "vi"}), body_of(fn))

    out += _emit(fails, "unionFromParts", ["v1", "v2", "vi"], union2)

    def sfunion():
        fn = src.func("_get_volume", "VolSphereFrustumConeUnion")
        return block(Expr({}, {}, {
            "self.obj1.get_volume()": "v1", "self.obj2.get_volume()": "v2",
            "VolSphereFrustumConeIntersection.calc_concentric_intersect_volume(self.obj1, self.obj2)": "vi"}), body_of(fn))

    out += _emit(fails, "sfUnionFromParts", ["v1", "v2", "vi"], sfunion)

    def concentric():
        fn = src.func("calc_concentric_intersect_volume", "VolSphereFrustumConeIntersection")
        b = body_of(fn)
        # skip the geometric prelude up to the first `if r2 - r1 ...`; those values are the parameters
        k = next((i for i, s in enumerate(b) if isinstance(s, ast.If) and ast.unparse(s.test).startswith("r2 - r1")), None)
        if k is None:
            raise Untranslatable("fast-path test `r2 - r1 >= -eps` not found")
        pre = [ast.unparse(s).split("\n")[0] for s in b[:k]]
        exp_pre = ["h = frustum_cone.height()", "c1, r1 = (sphere.center, sphere.radius)",
                   "if np.allclose(c1, frustum_cone.c1) and np.allclose(r1, frustum_cone.r1):"]
        if pre != exp_pre:
            raise Untranslatable(f"prelude changed: {pre}")
        skip = ("up", "v", "intersections", "M", "h1", "r3", "t", "p")
        geo = {"up": "up = (c2 - c1) / np.linalg.norm(c2 - c1)",
               "v": "v = find_unit_vector_on_plane(up)",
               "intersections": None,
               "M": "M = project_point_on_line(c1, up, p)",
               "h1": "h1 = np.linalg.norm(M - c1).item()",
               "r3": "r3 = np.linalg.norm(M - p).item()"}
        for s in b[k:]:
            if isinstance(s, ast.Assign) and isinstance(s.targets[0], ast.Name) and geo.get(s.targets[0].id):
                if ast.unparse(s) != geo[s.targets[0].id]:
                    raise Untranslatable(f"geometric step changed: {ast.unparse(s)}")
        tr = Expr({p: p for p in ["pi", "eps", "h", "r1", "r2", "t", "h1", "r3"]}, calls,
                  {"len(intersections) == 0": "SKIP", "frustum_cone.get_volume()": "(frustumVolume pi r1 r2 h)"})
        return block(tr, b[k:], skip)

    out += _emit(fails, "concentricCore", ["pi", "eps", "h", "r1", "r2", "t", "h1", "r3"], concentric)
    return out + "end Gen.Vol\n"


SUMS = {
    "sphere.get_volume()": "vSphere",
    "sum((fc.get_volume() for fc in cones))": "sumFrusta",
    "sum((sphere.intersect(fc).get_volume() for fc in cones))": "sumParentCone",
    "sum((s.intersect(fc).get_volume() for s, fc in zip(children, cones)))": "sumChildCone",
    "sum((s.intersect(sphere).get_volume() for s in children))": "sumLens",
    "sum((cones[i].intersect(cones[j]).subtract(sphere).get_volume() for i in range(len(cones)) for j in range(i + 1, len(cones))))": "sumConePairs",
}


def gen_volume_terms(fails) -> str:
    out = HEADER + "namespace Gen.VolTerms\n\n"
    try:
        src = Src("swcgeom/analysis/volume.py")
        fn = src.func("_get_volume_frustum_cone")
        leave = next(n for n in fn.body if isinstance(n, ast.FunctionDef) and n.name == "leave")
    except Exception as e:  # noqa: BLE001
        fails.append(f"volume.py: {e}")
        return out + "end Gen.VolTerms\n"

    def node():
        b = body_of(leave)
        exp = ["sphere = VolSphere(n.xyz(), n.r)",
               "cones = [VolFrustumCone(n.xyz(), n.r, c.center, c.radius) for c in children]"]
        got = [ast.unparse(s) for s in b[:2]]
        if got != exp:
            raise Untranslatable(f"construction of the node's solids changed: {got}")
        tail = [ast.unparse(s) for s in b[-3:]]
        if tail != ["nonlocal volume", "volume += v", "return sphere"]:
            raise Untranslatable(f"accumulation changed: {tail}")
        stmts = b[2:-3]
        subst = dict(SUMS)
        # accuracy comparisons are on Nat
        for s in stmts:
            if isinstance(s, ast.If):
                t = s.test
                if not (isinstance(t, ast.Compare) and ast.unparse(t.left) == "accuracy" and isinstance(t.ops[0], ast.GtE)
                        and isinstance(t.comparators[0], ast.Constant) and isinstance(t.comparators[0].value, int)):
                    raise Untranslatable(f"level test `{ast.unparse(t)}`")
                subst[ast.unparse(t)] = f"(accuracy ≥ {t.comparators[0].value})"
        return block(Expr({}, {}, subst), stmts, cont="v")

    params = ["vSphere", "sumFrusta", "sumParentCone", "sumChildCone", "sumLens", "sumConePairs"]
    out += _emit(fails, "nodeVolume", params, node, extra_binders="(accuracy : Nat) ")
    try:
        lv = src.const("ACCURACY_LEVELS")
        d = ast.literal_eval(lv)
        out += f"def accuracyLow : Nat := {d['low']}\ndef accuracyMiddle : Nat := {d['middle']}\ndef accuracyHigh : Nat := {d['high']}\n"
        mc = next((n for n in fn.body if isinstance(n, ast.If) and ast.unparse(n.test).startswith("accuracy ==")), None)
        out += f"def accuracyMC : Nat := {mc.test.comparators[0].value}\n"
    except Exception as e:  # noqa: BLE001
        fails.append(f"ACCURACY_LEVELS: {e}")
    return out + "end Gen.VolTerms\n"


def gen_matrices(fails) -> str:
    out = HEADER + "namespace Gen.Mat\n\n"
    try:
        src = Src("swcgeom/utils/transforms.py")
    except Exception as e:  # noqa: BLE001
        fails.append(f"transforms.py: {e}")
        return out + "end Gen.Mat\n"

    def mat(fname, params, env):
        def th():
            fn = src.func(fname)
            b = body_of(fn)
            if len(b) != 1 or not isinstance(b[0], ast.Return):
                raise Untranslatable("body is not a single return of a matrix literal")
            return Expr(env).matrix(b[0].value)
        return _emit(fails, fname, params, th, ret="List (List K)")

    out += mat("scale3d", ["sx", "sy", "sz"], {p: p for p in ["sx", "sy", "sz"]})
    out += mat("translate3d", ["tx", "ty", "tz"], {p: p for p in ["tx", "ty", "tz"]})
    trig = {"cos(theta)": "c", "sin(theta)": "s"}
    for ax in "xyz":
        out += mat(f"rotate3d_{ax}", ["c", "s"], dict(trig))

    def rod():
        fn = src.func("rotate3d")
        b = body_of(fn)
        txt = [ast.unparse(s) for s in b]
        nlit = next((s for s in b if isinstance(s, ast.Assign) and ast.unparse(s.targets[0]) == "N"), None)
        if nlit is None:
            raise Untranslatable("cross-product matrix N not found")
        if not any(t == "nx, ny, nz = n" or t == "nx, ny, nz = n[0:3]" for t in txt):
            raise Untranslatable("axis components not unpacked as nx, ny, nz")
        N = Expr({p: p for p in ["nx", "ny", "nz"]}).matrix(nlit.value)
        formula = "np.cos(theta) * np.identity(3) + (1 - np.cos(theta)) * n * n[:, None] + np.sin(theta) * N"
        ok3 = any(t == f"T[:3, :3] = {formula}" for t in txt) and any(t == "T = np.identity(4)" for t in txt) and txt[-1] == "return T"
        n3 = any(t in ("n = np.array(n, dtype=np.float64)[0:3]", "n = np.array(n)[0:3]") for t in txt)
        if not (ok3 and n3):
            raise Untranslatable("Rodrigues formula not in the recognised form `T[:3,:3] = cos·I₃ + (1-cos)·n·nᵀ + sin·N` on a 4×4 identity")
        return f"rodrigues c s nx ny nz {N}"

    out += _emit(fails, "rotate3d", ["nx", "ny", "nz", "c", "s"], rod, ret="List (List K)")
    out += "end Gen.Mat\n"

    # the conjugation of AffineTransform.__call__
    out2 = "\nnamespace Gen.Affine\nopen Gen.Mat\n\n"
    try:
        g = Src("swcgeom/transforms/geometry.py")
        call = g.func("__call__", "AffineTransform")
    except Exception as e:  # noqa: BLE001
        fails.append(f"geometry.py: {e}")
        return out + out2 + "end Gen.Affine\n"

    def conj():
        m = next((s for s in call.body if isinstance(s, ast.Match)), None)
        if m is None:
            raise Untranslatable("match on self.center not found")
        case0 = m.cases[0]
        pat = ast.unparse(case0.pattern)
        if pat != "'root' | 'soma'":
            raise Untranslatable(f"centre pattern {pat}")
        if ast.unparse(m.cases[1].pattern) != "_" or ast.unparse(m.cases[1].body[0]) != "tm = self.tm":
            raise Untranslatable("default centre case changed")
        stm = case0.body
        if [ast.unparse(s) for s in stm[:2]] != ["idx = np.nonzero(x.ndata[x.names.pid] == -1)[0][0].item()", "xyz = x.xyz()[idx]"]:
            raise Untranslatable("root lookup changed")
        e = stm[2].value

        def tr(e):
            t = ast.unparse(e)
            if t == "self.tm":
                return "tm"
            if isinstance(e, ast.Call) and isinstance(e.func, ast.Attribute) and e.func.attr == "dot" and len(e.args) == 1:
                return f"(mmul {tr(e.func.value)} {tr(e.args[0])})"
            if isinstance(e, ast.Call) and ast.unparse(e.func) == "translate3d" and len(e.args) == 3:
                ex = Expr({}, {}, {"xyz[0]": "x", "xyz[1]": "y", "xyz[2]": "z"})
                return "(translate3d " + " ".join(ex.tr(a) for a in e.args) + ")"
            raise Untranslatable(f"conjugation term `{t[:60]}`")
        return tr(e)

    ps = "(tm : List (List K)) (x y z : K)"
    try:
        out2 += f"/-- the matrix `AffineTransform.__call__` applies when center is 'root'/'soma' and the root is at (x,y,z) -/\ndef aboutRoot {BINDERS} {ps} : List (List K) :=\n  {conj()}\n\n"
    except Untranslatable as e:
        fails.append(f"aboutRoot: {e}")
        out2 += f"-- UNTRANSLATABLE aboutRoot: {e}\n"

    def apply_():
        fn = g.func("apply", "AffineTransform")
        got = [ast.unparse(s) for s in body_of(fn)]
        exp = ["xyzw = x.xyzw().dot(tm.T).T", "xyzw /= xyzw[3]", "y = x.copy()", "y.ndata[x.names.x] = xyzw[0]",
               "y.ndata[x.names.y] = xyzw[1]", "y.ndata[x.names.z] = xyzw[2]", "return y"]
        if got != exp:
            raise Untranslatable(f"AffineTransform.apply changed: {got}")
        return "mapply tm (px, py, pz)"

    try:
        out2 += f"/-- `AffineTransform.apply` on one node: rows of `tm` dotted with (x,y,z,1), divided by w (recognised verbatim) -/\ndef applyPoint {BINDERS} (tm : List (List K)) (px py pz : K) : K × K × K :=\n  {apply_()}\n\n"
    except Untranslatable as e:
        fails.append(f"applyPoint: {e}")
    # default centres
    try:
        defaults = {}
        for cls in ["Scale", "Rotate", "RotateX", "RotateY", "RotateZ"]:
            init = g.func("__init__", cls)
            a = init.args
            names = [x.arg for x in a.args]
            dv = dict(zip(names[len(names) - len(a.defaults):], a.defaults))
            defaults[cls] = ast.literal_eval(dv["center"])
        init = g.func("__init__", "AffineTransform")
        names = [x.arg for x in init.args.args]
        dv = dict(zip(names[len(names) - len(init.args.defaults):], init.args.defaults))
        defaults["AffineTransform"] = ast.literal_eval(dv["center"])
        for k, v in defaults.items():
            out2 += f'def defaultCenter{k} : String := "{v}"\n'
    except Exception as e:  # noqa: BLE001
        fails.append(f"default centres: {e}")
    return out + out2 + "end Gen.Affine\n"


def gen_lmeasure(fails) -> str:
    out = HEADER + "namespace Gen.LM\n\n"
    try:
        src = Src("swcgeom/analysis/lmeasure.py")
        fn = src.func("partition_asymmetry", "LMeasure")
    except Exception as e:  # noqa: BLE001
        fails.append(f"lmeasure.py: {e}")
        return out + "end Gen.LM\n"

    def pa():
        b = body_of(fn)
        k = next((i for i, s in enumerate(b) if isinstance(s, ast.If)), None)
        pre = [ast.unparse(s) for s in b[:k]]
        if pre[-2:] != ["n1 = len(children[0].subtree().get_tips())", "n2 = len(children[1].subtree().get_tips())"]:
            raise Untranslatable(f"tip counts changed: {pre[-2:]}")
        return block(Expr({"n1": "n1", "n2": "n2"}), b[k:])

    out += _emit(fails, "partitionAsymmetry", ["n1", "n2"], pa)
    return out + "end Gen.LM\n"


def _write(path: Path, text: str):
    path.parent.mkdir(parents=True, exist_ok=True)
    if not path.exists() or path.read_text() != text:
        path.write_text(text)


def regenerate():
    fails = []
    _write(GEN / "VolumeFormulas.lean", gen_volume_formulas(fails))
    _write(GEN / "VolumeTerms.lean", gen_volume_terms(fails))
    _write(GEN / "Matrices.lean", gen_matrices(fails))
    _write(GEN / "LMeasureArith.lean", gen_lmeasure(fails))
    from harness import translate_consts

    _write(GEN / "Consts.lean", translate_consts.gen(fails))
    return fails


if __name__ == "__main__":
    for f in regenerate():
        print("TRANSLATOR FAILURE:", f)
