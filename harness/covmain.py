"""entry point for harness/covreport.py: run one property's suites (no Lean build) — `python covmain.py C06`"""
import importlib
import sys
from pathlib import Path

sys.path.insert(0, str(Path(__file__).resolve().parent.parent))
from harness import framework  # noqa: E402

framework.main(importlib.import_module(f"harness.props.{sys.argv[1].lower()}"), ["--no-build"])
