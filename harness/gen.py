"""Seeded generators shared by the suites (G-TREE of DESIGN.md §5)."""
from __future__ import annotations

import random

SHAPES = ["single", "chain", "stem", "star", "caterpillar", "binary", "random", "highdeg", "two"]


def parents_sorted(rng: random.Random, n: int, shape: str) -> list[int]:
    """parent array with pid[0] = -1 and pid[i] < i."""
    if n <= 1 or shape == "single":
        return [-1]
    if shape == "chain":
        return [-1] + list(range(n - 1))
    if shape == "two":
        return [-1, 0]
    if shape == "star":
        return [-1] + [0] * (n - 1)
    if shape == "stem":  # root with exactly one child, branching afterwards
        k = rng.randint(1, max(1, min(3, n - 1)))
        p = [-1] + list(range(k))
        for i in range(k + 1, n):
            p.append(rng.randint(k, i - 1))
        return p
    if shape == "caterpillar":
        p = [-1]
        spine = [0]
        for i in range(1, n):
            if rng.random() < 0.5:
                p.append(spine[-1]); spine.append(i)
            else:
                p.append(rng.choice(spine))
        return p
    if shape == "binary":
        return [-1] + [(i - 1) // 2 for i in range(1, n)]
    if shape == "highdeg":
        hubs = [0]
        p = [-1]
        for i in range(1, n):
            if rng.random() < 0.15:
                p.append(rng.choice(hubs)); hubs.append(i)
            else:
                p.append(rng.choice(hubs))
        return p
    return [-1] + [rng.randint(0, i - 1) for i in range(1, n)]


def renumber_root0(rng: random.Random, pids: list[int]) -> list[int]:
    """random renumbering that keeps the root at 0 (ids = positions, parents may follow children)."""
    n = len(pids)
    perm = list(range(1, n))
    rng.shuffle(perm)
    perm = [0] + perm  # old -> new
    new = [0] * n
    for old, p in enumerate(pids):
        new[perm[old]] = -1 if p == -1 else perm[p]
    return new


def table_form(rng: random.Random, pids: list[int]):
    """arbitrary distinct ids, shuffled rows: returns (ids, pids, order) with order[k] = original node of row k."""
    n = len(pids)
    base = rng.choice([0, 1, 5, 100])
    pool = rng.sample(range(base, base + 3 * n + 3), n)
    order = list(range(n))
    rng.shuffle(order)
    ids = [pool[o] for o in order]
    pp = [-1 if pids[o] == -1 else pool[pids[o]] for o in order]
    return ids, pp, order


def pick_shape(rng: random.Random, k: int) -> str:
    return SHAPES[k % len(SHAPES)]


def tree_case(rng: random.Random, n: int, shape: str, numbering: str = "sorted", coords: str = "dyadic", types="mixed"):
    pids = parents_sorted(rng, n, shape)
    n = len(pids)
    if numbering == "root0":
        pids = renumber_root0(rng, pids)
    if coords == "dyadic":
        g = lambda: rng.randint(-4000, 4000) / 8.0
        rr = lambda: rng.randint(1, 64) / 8.0
    elif coords == "grid4":
        g = lambda: rng.randint(-10_000_000, 10_000_000) / 10000.0
        rr = lambda: rng.randint(1, 100000) / 10000.0
    elif coords == "lattice":
        g = lambda: float(rng.randint(-20 - n // 8, 20 + n // 8))
        rr = lambda: float(rng.randint(1, 4))
    else:
        g = lambda: rng.uniform(-100, 100)
        rr = lambda: rng.uniform(0.1, 5)
    # pairwise distinct positions (oracles identify nodes by position; coincident nodes are a degenerate input of their own)
    seen, xyz = set(), []
    for _ in range(n):
        for _try in range(200):
            p = (g(), g(), g())
            if p not in seen:
                break
        seen.add(p); xyz.append(list(p))
    r = [rr() for _ in range(n)]
    if types == "mixed":
        ty = [1] + [rng.choice([2, 3, 4, 0, 5, 7]) for _ in range(n - 1)]
    elif types == "anyroot":      # the root need not be typed as soma (neurite fragments, files without a type column)
        ty = [rng.choice([3, 2, 0, 1, 4])] + [rng.choice([2, 3, 4, 0, 5, 7]) for _ in range(n - 1)]
    elif types == "soma3":
        ty = [1] + [3] * (n - 1)
    else:
        ty = [rng.randint(0, 7) for _ in range(n)]
    return {"class": f"{shape}/{numbering}", "n": n, "pids": pids, "types": ty, "xyz": xyz, "r": r}


def make_tree(case, comments=None, source=""):
    """build the real swcgeom Tree for a tree case"""
    import numpy as np
    from swcgeom.core import Tree

    n = case["n"]
    xyz = np.array(case["xyz"], dtype=np.float32).reshape(n, 3)
    cols = dict(id=np.arange(n, dtype=np.int32), pid=np.array(case["pids"], dtype=np.int32), type=np.array(case["types"], dtype=np.int32),
                x=xyz[:, 0].copy(), y=xyz[:, 1].copy(), z=xyz[:, 2].copy(), r=np.array(case["r"], dtype=np.float32))
    own = case.get("names") or {}
    table = None
    if own:
        # the tree's own column-name table (the public `names=` option): {"id": "n", "pid": "parent", ...}; read results through the
        # accessors tree.id() / pid() / type() / xyz() / r(), which honour it
        from swcgeom.core.swc_utils import SWCNames

        table = SWCNames(**own)
        cols = {own.get(k, k): v for k, v in cols.items()}
    for k, v in (case.get("extra") or {}).items():
        # further per-node columns of the table (kept by Tree), possibly under a standard name the tree's own table does not use
        if k not in cols:
            cols[k] = np.array(v, dtype=np.float32)
    if table is not None:
        return Tree(n, **cols, names=table, comments=comments, source=source)
    return Tree(n, **cols, comments=comments, source=source)


OWN_NAMES = [{"id": "n", "pid": "parent"}, {"id": "n", "pid": "parent", "x": "X", "y": "Y", "z": "Z", "r": "R", "type": "T"},
             {"x": "px", "y": "py", "z": "pz"}, {"pid": "up", "type": "label"}]


def sizes(tier: str, widen: bool):
    if tier == "thorough" or widen:
        return [1, 2, 3, 4, 5, 6, 8, 11, 16, 24, 40, 70, 120, 300]
    return [1, 2, 3, 4, 5, 6, 8, 12, 20, 35]


def well_formed(ids, pids):
    """ids = positions, node 0 the only root, parents exist, every node reaches the root."""
    n = len(ids)
    if list(ids) != list(range(n)):
        return "ids are not 0..n-1"
    if n == 0:
        return "empty"
    if pids[0] != -1:
        return "node 0 is not a root"
    for i in range(1, n):
        if not (0 <= pids[i] < n):
            return f"parent of {i} is {pids[i]}"
    for i in range(n):
        seen = 0
        j = i
        while j != 0:
            j = pids[j]
            seen += 1
            if seen > n:
                return f"node {i} does not reach the root"
    return None


def ints(xs):
    return ",".join(str(int(x)) for x in xs) if len(xs) else "_"


def all_root0_trees(n: int):
    """every parent array over n nodes in which node 0 is the only root and every node reaches it (n^(n-2) of them:
    1, 1, 3, 16, 125, 1296 for n = 1..6) — small-scope exhaustive inputs, any numbering with the root first"""
    import itertools

    out = []
    for ps in itertools.product(range(n), repeat=max(0, n - 1)):
        pids = [-1] + list(ps)
        ok = True
        for i in range(1, n):
            j, k = i, 0
            while j > 0 and k <= n:
                j = pids[j]; k += 1
            if j != 0:
                ok = False; break
            if pids[i] == i:
                ok = False; break
        if ok:
            out.append(pids)
    return out
